"""dsched — deterministic cooperative scheduler for the real miros threads (DESIGN §7).

Every managed thread is a real `threading.Thread` gated by a private semaphore, so exactly one
of them runs at a time.  Each primitive (Queue / deque / Event / Thread / sleep operation) is a
*yield point*: the thread publishes the pending operation and whether it is enabled, the
scheduler picks an enabled thread, that thread performs the operation atomically and runs on to
its next yield point.  Blocking is a scheduler state ("not enabled"), never a real block.

Installed by replacing module globals of `miros.activeobject` (Thread, Queue, PriorityQueue,
deque, ThreadEvent, FiberThreadEvent, time) — no hook in /repo.
"""
import threading, collections, queue, heapq, itertools, sys, os

_real_Thread = threading.Thread
_real_Event = threading.Event


class Abort(BaseException):
    pass


class Deadline(Exception):
    pass


class DThreadState:
    def __init__(self, sched, name, fn, args, kwargs):
        self.sched = sched
        self.name = name
        self.fn, self.args, self.kwargs = fn, args, kwargs
        self.sem = threading.Semaphore(0)
        self.pending = ("begin", None, None)      # (label, enabled_fn, wake_time)
        self.finished = False
        self.error = None
        self.real = None
        self.steps = 0


class Sched:
    """one execution"""
    current = None   # the Sched in force (module-level singleton for the patched classes)
    stuck_seen = []  # runs of this process that ended because a thread blocked in a primitive the scheduler does not manage

    def __init__(self, chooser, max_steps=20000, trace=True, yield_filter=None):
        self.chooser = chooser
        self.yield_filter = yield_filter   # label -> bool; False: perform the primitive without yielding
        self.max_steps = max_steps
        self.threads = []           # DThreadState in creation order
        self.by_ident = {}
        self.main_sem = threading.Semaphore(0)
        self.now = 0.0
        self.aborting = False
        self.trace = [] if trace else None   # (thread name, label, result, enabled names)
        self.steps = 0
        self.names = {}             # id(obj) -> short name for labels
        self.monitors = []
        self.outcome = None
        self.names_count = itertools.count()
        self.step_timeout = 30.0 if not Sched.stuck_seen else 3.0     # (once a run was stuck the next ones do not wait as long)
        self.stuck = None

    # ---- naming ---------------------------------------------------------
    def name_obj(self, obj, name):
        self.names[id(obj)] = name
        # keep the object alive so ids are not reused
        self.names.setdefault("_keep", []).append(obj)

    def oname(self, obj):
        return self.names.get(id(obj))

    # ---- thread side ------------------------------------------------------
    def me(self):
        return self.by_ident.get(threading.get_ident())

    def spawn(self, fn, args=(), kwargs=None, name=None):
        st = DThreadState(self, name or "T%d" % len(self.threads), fn, args, kwargs or {})
        self.threads.append(st)

        def runner():
            self.by_ident[threading.get_ident()] = st
            st.sem.acquire()
            if getattr(self, "tracer", None) is not None:
                sys.settrace(self.tracer)
            try:
                if self.aborting:
                    raise Abort()
                st.fn(*st.args, **st.kwargs)
            except Abort:
                pass
            except BaseException as ex:  # noqa
                st.error = ex
            finally:
                st.finished = True
                st.pending = None
                self.main_sem.release()
        if getattr(self, "raw_threads", False):
            # threads the `threading` module knows nothing about (as started by _thread.start_new_thread, a C extension, a ctypes callback)
            import _thread
            st.real = None
            _thread.start_new_thread(runner, ())
        else:
            st.real = _real_Thread(target=runner, daemon=True)
            st.real.start()
        return st

    def yield_point(self, label, enabled=None, wake=None):
        """called by a managed thread before performing a primitive"""
        st = self.me()
        if st is None:
            return None     # unmanaged thread (e.g. the pytest main thread during set-up): run straight through
        if self.aborting:
            self._abort(st, label)
            return None
        if self.yield_filter is not None and enabled is None and wake is None and not self.yield_filter(label):
            return None
        st.pending = (label, enabled, wake)
        self.main_sem.release()
        st.sem.acquire()
        if self.aborting:
            self._abort(st, label)
            return None
        return st

    def _abort(self, st, label):
        """unwind a managed thread at shutdown. Not from inside a bytecode-trace callback: an exception raised there while the
        frame is being traced per opcode has crashed the interpreter (CPython 3.12.1, seen with a thread spinning in a loop of
        the code under test); such a thread runs on to its next primitive and is unwound there (after 20000 more bytecodes without one it is left to run untraced: it is a daemon thread)."""
        if label == "op":
            st.free_ops = getattr(st, "free_ops", 0) + 1
            if st.free_ops >= 20000:
                # no primitive in sight: stop tracing this (daemon) thread and let it go
                sys.settrace(None)
                f = sys._getframe()
                while f is not None:
                    f.f_trace = None
                    f = f.f_back
            return
        raise Abort()

    def record(self, st, label, result):
        if self.trace is not None and st is not None:
            self.trace[-1][2] = result

    # ---- scheduler side -------------------------------------------------------
    def is_enabled(self, st):
        if st.finished or st.pending is None:
            return False
        label, en, wake = st.pending
        if wake is not None and self.now < wake:
            return False
        if en is None:
            return True
        return bool(en())

    def sleepers(self):
        return [t for t in self.threads if not t.finished and t.pending and t.pending[2] is not None
                and self.now < t.pending[2]]

    def run(self, stop_when=None):
        """drive until quiescence / max_steps; returns 'quiescent' | 'bound' | 'stopped'"""
        Sched.current = self
        while True:
            if stop_when is not None and stop_when(self):
                self.outcome = "stopped"
                break
            if self.steps >= self.max_steps:
                self.outcome = "bound"
                break
            en = [t for t in self.threads if self.is_enabled(t)]
            sl = self.sleepers()
            choice = self.chooser(self, en, sl)
            if choice is None:
                self.outcome = "quiescent"
                break
            if choice == "clock":
                self.now = min(t.pending[2] for t in sl)
                if self.trace is not None:
                    self.trace.append(["clock", "advance", self.now, [], self.now])
                continue
            st = choice
            self.steps += 1
            st.steps += 1
            if self.trace is not None:
                self.trace.append([st.name, st.pending[0], None, sorted(t.name for t in en), self.now])
            st.sem.release()
            if not self.main_sem.acquire(timeout=self.step_timeout):
                # the thread neither reached a scheduling point nor ended: it is blocked in a primitive the scheduler
                # does not manage (a lock created by the code under test with the real threading module, say)
                self.outcome = "stuck"
                self.stuck = st.name
                Sched.stuck_seen.append("%s at %s" % (st.name, st.pending[0] if st.pending else "?"))
                break
            for m in self.monitors:
                m(self, st)
        return self.outcome

    def shutdown(self):
        """unwind every managed thread"""
        self.aborting = True
        for t in self.threads:
            if not t.finished:
                t.sem.release()
        import time as _t
        for t in self.threads:
            if t.real is not None:
                t.real.join(timeout=5)
            else:
                end = _t.time() + 5
                while not t.finished and _t.time() < end:
                    _t.sleep(0.001)
        leaked = [t.name for t in self.threads if (t.real.is_alive() if t.real is not None else not t.finished)]
        Sched.current = None
        return leaked


def cur():
    return Sched.current


def _label(obj, op):
    s = cur()
    n = s.oname(obj) if s else None
    return "%s.%s" % (n or type(obj).__name__, op)


# ---------------------------------------------------------------------------
# patched primitives
# ---------------------------------------------------------------------------

class DQueue(queue.Queue):
    """queue.Queue with the same storage and unfinished_tasks accounting; blocking = not enabled"""

    def _y(self, op, enabled=None):
        s = cur()
        return s.yield_point(_label(self, op), enabled) if s else None

    def put(self, item, block=True, timeout=None):
        full = lambda: self.maxsize > 0 and self._qsize() >= self.maxsize
        if block:
            st = self._y("put", lambda: not full())
        else:
            st = self._y("put")
        if full():
            cur() and cur().record(st, "put", "full")
            raise queue.Full
        self._put(item)
        self.unfinished_tasks += 1
        cur() and cur().record(st, "put", "ok")

    def put_nowait(self, item):
        return self.put(item, block=False)

    def get(self, block=True, timeout=None):
        if block and timeout is None:
            st = self._y("get", lambda: self._qsize() > 0)
        else:
            st = self._y("get")
        if self._qsize() == 0:
            cur() and cur().record(st, "get", "empty")
            raise queue.Empty
        item = self._get()
        cur() and cur().record(st, "get", item if hasattr(item, "priority") else "ok")
        return item

    def get_nowait(self):
        return self.get(block=False)

    def qsize(self):
        st = self._y("qsize")
        r = self._qsize()
        cur() and cur().record(st, "qsize", r)
        return r

    def full(self):
        st = self._y("full")
        r = self.maxsize > 0 and self._qsize() >= self.maxsize
        cur() and cur().record(st, "full", int(r))
        return r

    def empty(self):
        st = self._y("empty")
        r = self._qsize() == 0
        cur() and cur().record(st, "empty", int(r))
        return r

    def task_done(self):
        st = self._y("task_done")
        if self.unfinished_tasks <= 0:
            cur() and cur().record(st, "task_done", "ValueError")
            raise ValueError("task_done() called too many times")
        self.unfinished_tasks -= 1
        cur() and cur().record(st, "task_done", "ok")

    def join(self):
        self._y("join", lambda: self.unfinished_tasks == 0)


class DPriorityQueue(DQueue):
    def _init(self, maxsize):
        self.queue = []

    def _qsize(self):
        return len(self.queue)

    def _put(self, item):
        heapq.heappush(self.queue, item)

    def _get(self):
        return heapq.heappop(self.queue)


class DDeque(collections.deque):
    """collections.deque whose mutating / observing operations are yield points (only for named deques)"""

    def _y(self, op):
        s = cur()
        if s is None or s.oname(self) is None:
            return None, None
        return s, s.yield_point(_label(self, op))

    def append(self, x):
        s, st = self._y("append")
        collections.deque.append(self, x)
        if s:
            s.record(st, "append", None)

    def appendleft(self, x):
        s, st = self._y("appendleft")
        collections.deque.appendleft(self, x)
        if s:
            s.record(st, "appendleft", None)

    def popleft(self):
        s, st = self._y("popleft")
        try:
            r = collections.deque.popleft(self)
        except IndexError:
            if s:
                s.record(st, "popleft", "IndexError")
            raise
        if s:
            s.record(st, "popleft", r)
        return r

    def pop(self):
        s, st = self._y("pop")
        r = collections.deque.pop(self)
        if s:
            s.record(st, "pop", r)
        return r

    def rotate(self, n=1):
        s, st = self._y("rotate")
        collections.deque.rotate(self, n)
        if s:
            s.record(st, "rotate", None)

    def clear(self):
        s, st = self._y("clear")
        collections.deque.clear(self)
        if s:
            s.record(st, "clear", None)

    def __len__(self):
        s, st = self._y("len")
        r = collections.deque.__len__(self)
        if s:
            s.record(st, "len", r)
        return r

    def __getitem__(self, i):
        s, st = self._y("peek")
        try:
            r = collections.deque.__getitem__(self, i)
        except IndexError:
            if s:
                s.record(st, "peek", "IndexError")
            raise
        if s:
            s.record(st, "peek", r)
        return r

    def raw(self):
        return list(collections.deque.__iter__(self))

    def raw_len(self):
        return collections.deque.__len__(self)


class DEvent:
    """threading.Event replacement"""

    def __init__(self):
        self._flag = False

    def _y(self, op, enabled=None):
        s = cur()
        return (s, s.yield_point(_label(self, op), enabled)) if s else (None, None)

    def is_set(self):
        s, st = self._y("is_set")
        if s:
            s.record(st, "is_set", int(self._flag))
        return self._flag

    isSet = is_set

    def set(self):
        s, st = self._y("set")
        self._flag = True

    def clear(self):
        s, st = self._y("clear")
        self._flag = False

    def wait(self, timeout=None):
        if timeout is None:
            self._y("wait", lambda: self._flag)
        else:
            self._y("wait")
        return self._flag


class DThread:
    """threading.Thread replacement"""

    def __init__(self, group=None, target=None, name=None, args=(), kwargs=None, daemon=None):
        self._target, self._args, self._kwargs = target, args, kwargs or {}
        self.name = name
        self.daemon = daemon
        self._st = None

    def start(self):
        s = cur()
        import uuid as _uuid
        nm = self.name
        if isinstance(nm, _uuid.UUID) or getattr(self._target, "__name__", "") == "post_event_thread_runner":
            # the thread of a timed source (whatever the library calls it)
            nm = "timer%d" % sum(1 for t in s.threads if t.name.startswith("timer"))
        elif nm is None:
            nm = "T%d" % len(s.threads)
        nm = str(nm)
        if any(t.name == nm for t in s.threads):
            nm = "%s#%d" % (nm, sum(1 for t in s.threads if t.name.split("#")[0] == nm))
        self._st = s.spawn(self._target, self._args, self._kwargs, name=str(nm))
        s.yield_point("thread.start")

    def is_alive(self):
        s = cur()
        if s is not None:
            st = s.yield_point("thread.is_alive")
        return self._st is not None and not self._st.finished

    def join(self, timeout=None):
        s = cur()
        if self._st is None:
            raise RuntimeError("cannot join thread before it is started")
        me = s.me() if s else None
        if me is self._st:
            raise RuntimeError("cannot join current thread")
        if s is not None:
            if timeout is None:
                s.yield_point("thread.join", lambda: self._st.finished)
            else:
                s.yield_point("thread.join")


class DLock:
    """threading.Lock replacement: "blocked on the lock" is a scheduler state"""

    def __init__(self):
        self._owner = None

    def acquire(self, blocking=True, timeout=-1):
        s = cur()
        if s is not None:
            waits = blocking and (timeout is None or timeout < 0)        # with a timeout the call may give up (see DRLock)
            s.yield_point(_label(self, "acquire"), (lambda: self._owner is None) if waits else None)
        if self._owner is not None:
            return False
        self._owner = (s.me() if s else None) or True
        return True

    def release(self):
        self._owner = None

    def locked(self):
        return self._owner is not None

    def __enter__(self):
        self.acquire()
        return self

    def __exit__(self, *a):
        self.release()


class DLockQuiet(DLock):
    """a DLock whose acquisition is a scheduling point only when it has to wait: taking a free lock is not a step of its own
    (it commutes with everything except another acquisition of the same lock, which is still ordered by the waits)"""

    def acquire(self, blocking=True, timeout=-1):
        if self._owner is None:
            s = cur()
            self._owner = (s.me() if s else None) or True
            return True
        return DLock.acquire(self, blocking, timeout)


class DRLock:
    """threading.RLock replacement (owner + recursion count)"""

    def __init__(self):
        self._owner = None
        self._count = 0

    def _me(self):
        s = cur()
        return (s.me() if s else None) or threading.get_ident()

    def acquire(self, blocking=True, timeout=-1):
        s = cur()
        me = self._me()
        if s is not None:
            # an acquire with a timeout may give up: whenever the scheduler runs the waiter while the lock is still held, the
            # timeout is taken to have elapsed (time is a schedule choice) and the call returns False
            waits = blocking and (timeout is None or timeout < 0)
            s.yield_point(_label(self, "acquire"), (lambda: self._owner is None or self._owner is me or self._owner == me)
                          if waits else None)
        if self._owner is not None and self._owner is not me and self._owner != me:
            return False
        self._owner = me
        self._count += 1
        return True

    def release(self):
        s = cur()
        me = self._me()
        if s is not None:
            s.yield_point(_label(self, "release"))
        if self._owner is None or (self._owner is not me and self._owner != me):
            raise RuntimeError("cannot release un-acquired lock")
        self._count -= 1
        if self._count == 0:
            self._owner = None

    def __enter__(self):
        self.acquire()
        return self

    def __exit__(self, *a):
        self.release()


def trace_opcodes(code_objects):
    """a `sys.settrace` function for managed threads: every bytecode of the given code objects is a yield point"""
    codes = set(code_objects)

    def tracer(frame, event, arg):
        if frame.f_code in codes:
            frame.f_trace_opcodes = True
            if event == "opcode":
                s = cur()
                if s is not None and s.me() is not None:
                    s.yield_point("op")
            return tracer
        return None
    return tracer


class DTime:
    """`time` module stand-in: sleep on the virtual clock"""

    def __init__(self, real):
        self._real = real

    def sleep(self, d):
        s = cur()
        if s is None or s.me() is None:
            return
        s.yield_point("sleep(%g)" % d, None, s.now + d)

    def time(self):
        s = cur()
        return s.now if s else self._real.time()

    def __getattr__(self, k):
        return getattr(self._real, k)


# ---------------------------------------------------------------------------
# installation
# ---------------------------------------------------------------------------

class Installed:
    """context manager: patch miros.activeobject's globals, reset the singletons"""

    def __init__(self):
        import miros.activeobject as ao
        self.ao = ao
        self.saved = {}

    def __enter__(self):
        ao = self.ao
        from miros.singleton import SingletonDecorator
        for k in ("Thread", "Queue", "PriorityQueue", "deque", "ThreadEvent", "FiberThreadEvent", "time",
                  "ActiveFabric", "InstrumentionWriter"):
            self.saved[k] = getattr(ao, k)
        if hasattr(ao, "Lock"):
            self.saved["Lock"] = ao.Lock
            ao.Lock = DLock
        if hasattr(ao, "RLock"):
            self.saved["RLock"] = ao.RLock
            ao.RLock = DRLock
        if hasattr(ao, "threading"):
            # the module reached as `threading.X`: the same primitives under their qualified names
            real = ao.threading
            self.saved["threading"] = real

            class _Threading:
                Lock, RLock, Thread, Event = DLock, DRLock, DThread, DEvent

                def __getattr__(self, k):
                    return getattr(real, k)
            ao.threading = _Threading()
        ao.Thread = DThread
        ao.Queue = DQueue
        ao.PriorityQueue = DPriorityQueue
        ao.deque = DDeque
        ao.ThreadEvent = DEvent

        class DSourceEvent(DEvent):
            pass
        ao.FiberThreadEvent = SingletonDecorator(DSourceEvent)
        ao.time = DTime(self.saved["time"])
        ao.ActiveFabric = SingletonDecorator(ao.ActiveFabricSource)
        ao.InstrumentionWriter = SingletonDecorator(ao.InstrumenationWriterClass)
        return self

    def __exit__(self, *a):
        for k, v in self.saved.items():
            setattr(self.ao, k, v)


class PatchedLocks:
    """context manager: `RLock` / `Lock` names imported by the given modules become scheduler-aware locks, so a lock the
    code under test creates at run time is a scheduling point too (and never blocks a managed thread for real)"""

    def __init__(self, *modules):
        self.modules = modules
        self.saved = []

    def __enter__(self):
        for m in self.modules:
            for name, repl in (("RLock", DRLock), ("Lock", DLock)):
                if hasattr(m, name):
                    self.saved.append((m, name, getattr(m, name)))
                    setattr(m, name, repl)
        return self

    def __exit__(self, *a):
        for m, name, old in self.saved:
            setattr(m, name, old)


# ---------------------------------------------------------------------------
# choosers
# ---------------------------------------------------------------------------

def random_chooser(rng, clock_bias=0.15):
    def choose(s, enabled, sleepers):
        if enabled and sleepers and rng.random() < clock_bias:
            return "clock"
        if enabled:
            return rng.choice(enabled)
        if sleepers:
            return "clock"
        return None
    return choose


def pct_chooser(rng, depth=3, est_len=400):
    """PCT: random priorities per thread, `depth` priority-change points"""
    prio = {}
    changes = sorted(rng.randrange(1, est_len) for _ in range(depth))
    low = itertools.count()

    def choose(s, enabled, sleepers):
        if not enabled:
            return "clock" if sleepers else None
        for t in enabled:
            if t.name not in prio:
                prio[t.name] = rng.random() + 1.0
        if changes and s.steps >= changes[0]:
            changes.pop(0)
            best = max(enabled, key=lambda t: prio[t.name])
            prio[best.name] = -next(low) * 1e-3
        if sleepers and rng.random() < 0.05:
            return "clock"
        return max(enabled, key=lambda t: prio[t.name])
    return choose


def scripted_chooser(script, then=None):
    """follow a list of thread names (or 'clock'); afterwards `then` (default: stop)"""
    it = iter(script)

    def choose(s, enabled, sleepers):
        for name in it:
            if name == "clock":
                if sleepers:
                    return "clock"
                continue
            for t in enabled:
                if t.name == name:
                    return t
            s.script_error = "scripted thread %r not enabled at step %d (enabled: %s)" % (
                name, s.steps, [t.name for t in enabled])
            return None
        if then is not None:
            return then(s, enabled, sleepers)
        return None
    return choose


def round_robin_chooser():
    state = {"i": 0}

    def choose(s, enabled, sleepers):
        if not enabled:
            return "clock" if sleepers else None
        state["i"] += 1
        return enabled[state["i"] % len(enabled)]
    return choose
