#!/usr/bin/env python3
"""dev tool: evaluate a seeded change (DESIGN §13.9).

  seedtest.py confirm <dir>          # in a scratch worktree: demo fails with the patch, passes without; suite passes with it
  seedtest.py detect <dir> [ids...]  # apply the patch to /repo, run the quick checks, undo; print the verdict lines

<dir> holds patch.diff and demo.py (demo.py inserts its own worktree path; it is rewritten to the scratch path).
"""
import os, sys, subprocess, json, shutil, re, tempfile, time

VERIF = os.path.dirname(os.path.dirname(os.path.abspath(__file__)))
REPO = "/repo"


def sh(cmd, cwd=None, timeout=3000):
    p = subprocess.run(cmd, shell=True, cwd=cwd, capture_output=True, text=True, timeout=timeout)
    return p.returncode, p.stdout + p.stderr


def confirm(d, run_suite=True):
    wt = tempfile.mkdtemp(prefix="seedwt_", dir="/tmp")
    os.rmdir(wt)
    rc, out = sh("git -C %s worktree add -q %s HEAD" % (REPO, wt))
    res = {}
    try:
        demo_src = open(os.path.join(d, "demo.py")).read()
        demo_src = re.sub(r"/tmp/mut/C\d+|/tmp/seedwt_\w+", wt, demo_src)
        os.makedirs(os.path.join(wt, "out"), exist_ok=True)
        open(os.path.join(wt, "out", "demo.py"), "w").write(demo_src)
        rc0, out0 = sh("timeout 600 /venv/bin/python out/demo.py", cwd=wt)
        res["demo_without"] = rc0
        rc, out = sh("git apply %s" % os.path.abspath(os.path.join(d, "patch.diff")), cwd=wt)
        res["applies"] = rc == 0
        rc1, out1 = sh("timeout 600 /venv/bin/python out/demo.py", cwd=wt)
        res["demo_with"] = rc1
        res["demo_with_tail"] = out1[-400:]
        if run_suite:
            rcs, outs = sh("timeout 2000 /venv/bin/python -m pytest -q -p no:cacheprovider --timeout=900 --continue-on-collection-errors 2>&1 | tail -6", cwd=wt)
            res["suite_tail"] = outs[-500:]
            failed = re.findall(r"FAILED (\S+)", outs)
            res["suite_failed"] = failed
            res["suite_ok"] = all(("crypto_test" in f or "test_group_4" in f or "test_group_14" in f) for f in failed)
    finally:
        sh("git -C %s worktree remove --force %s" % (REPO, wt))
        shutil.rmtree(wt, ignore_errors=True)
    return res


def detect(d, ids):
    rc, out = sh("git -C %s status --short" % REPO)
    if out.strip():
        raise SystemExit("/repo is not clean: " + out)
    rc, out = sh("git -C %s apply %s" % (REPO, os.path.abspath(os.path.join(d, "patch.diff"))))
    if rc != 0:
        raise SystemExit("patch does not apply: " + out)
    verdicts = {}
    try:
        for pid in ids:
            t0 = time.time()
            try:
                rc, out = sh("./check %s --tier quick" % pid, cwd=VERIF, timeout=900)
            except subprocess.TimeoutExpired:
                sh("pkill -f 'harness/core.py %s'" % pid)
                rc, out = 2, "CHECK-BROKEN: no verdict within 900 s"
            all_lines = out.splitlines()
            lines = [l for l in all_lines if l.startswith(("PASS", "VIOLATION", "KNOWN-FINDING", "CHECK-BROKEN"))]
            # (the code under test may print as well: of the indented lines keep those that follow a verdict line)
            for i, l in enumerate(all_lines):
                if l.startswith("  ") and i and all_lines[i - 1].startswith(("VIOLATION", "  broken", "CHECK-BROKEN")) or l.startswith("  broken"):
                    lines.append(l)
            verdicts[pid] = {"rc": rc, "lines": lines[:8], "secs": round(time.time() - t0, 1)}
    finally:
        sh("git -C %s checkout -- ." % REPO)
        # restore the generated constants and the evidence of the clean tree is re-written by the next clean run
        sh("python3 harness/gen_constants.py", cwd=VERIF)
    return verdicts


def all_ids():
    m = json.load(open(os.path.join(VERIF, "MANIFEST.json")))
    return [c["property_id"] for c in m["checks"]]


if __name__ == "__main__":
    cmd, d = sys.argv[1], sys.argv[2]
    if cmd == "confirm":
        print(json.dumps(confirm(d, run_suite="--no-suite" not in sys.argv), indent=1))
    else:
        ids = [a for a in sys.argv[3:] if not a.startswith("--")] or all_ids()
        print(json.dumps(detect(d, ids), indent=1))
