"""C24 — layer-1 check (see DESIGN §8)."""
import hsm_corr, factory_corr


def explore(run, lean):
    quick = run.tier == "quick"
    hsm_corr.explore(run, "C24", 1500 if quick else 20000, hosts=("plain", "instr", "queued"),
                     malformed_rate=0.6, exhaustive_n=(0 if quick else 0))
    hsm_corr.explore_fallthrough(run, 300 if quick else 6000)
    hsm_corr.explore_super_none(run, 200 if quick else 4000,
                                strict=bool(((lean.get("translator") or {}).get("values") or {}).get("cfg.superGuard")))
    hsm_corr.explore_guard_none(run, 120 if quick else 2500)
    # charts assembled from template state functions whose registered callback returns no status
    run.factory_key = "C24"
    factory_corr.explore(run, 80 if quick else 2000, none_rate=0.8)
    run.extra["rule"] = ("(a) corpus witnesses first, then random charts (1-14 states, 40% deep chains, multi-level initial "
                         "transitions, per-state HANDLED/fall-through flags) with scripts of start_at + 1-6 ops on plain / "
                         "instrumented / queued hosts; thorough tier adds all trees with <=5 states x all (cur,S,T) x all single "
                         "init assignments; non-trivial = the script reaches the property's mechanism (see histogram); "
                         "distinct by canonical JSON; (b) charts with one handler that returns no status for every signal it has no clause for "
                         "(parent search included): every op ends normally or with HsmTopologyException within 3000 handler calls")
    ROUND6_RULE = '; template charts whose registered callback returns no status'
    run.extra["rule"] += ROUND6_RULE
    ROUND8_RULE = '; a guarded state that declines an event and gives no status to the EMPTY re-query (round 9); signal names of odd shapes (spaces, dots, keywords, other scripts) on the failing initial transitions (round 8)'
    run.extra["rule"] = run.extra.get("rule", "") + ROUND8_RULE


def replay(case):
    cc = case.get("case", case)
    if "regs" in cc:
        return factory_corr.replay(case)
    return hsm_corr.replay(case)
