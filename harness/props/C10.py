"""C10 — timed sources / cancel / stop (see DESIGN §8): Lean Conc.AO model tied to the real ActiveObject under dsched."""
import ao_corr


def explore(run, lean):
    ao_corr.explore(run, "C10", 200 if run.tier == "quick" else 4000)
    ao_corr.explore_prestart(run, 60 if run.tier == "quick" else 1500)
    ao_corr.explore_timed_placement(run, "C10", 40 if run.tier == "quick" else 1000)
    run.extra["rule"] = ("scenarios: one control thread issuing 2-7 calls (timed post_fifo/post_lifo with period 1-3 ticks, times 0-3, "
                         "deferred or not; cancel_event / cancel_events with the identical or an equal-but-distinct id / name object; "
                         "stop()), tracked-source capacity 2-6, optional plain poster; real ActiveObject under the deterministic "
                         "scheduler with a virtual clock (PCT / random choosers, clock advanced lazily or at random); recorded "
                         "schedule replayed on the Lean model, compared per step and on the final timers / queue / results; "
                         "(b) sources armed before the object's thread exists (in the start state's ENTRY handler / on the unstarted object, "
                         "started 0-4 ticks later): post counts")
    run.assumptions.append("virtual time: sleep(p) wakes exactly p ticks later; real-clock drift (execution time per cycle) is not modelled")
    ROUND6_RULE = '; repeat counts up to 513; placement of timed fifo / lifo posts among pending events'
    run.extra["rule"] += ROUND6_RULE


def replay(case):
    return ao_corr.replay(case)
