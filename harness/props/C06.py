"""C06 — active fabric (see DESIGN §8): Lean Conc.Fab model tied to the real fabric threads under dsched."""
import fabric_corr, pubsub_corr, subfine_corr


def explore(run, lean):
    fabric_corr.explore(run, "C06", 200 if run.tier == "quick" else 4000)
    fabric_corr.explore_fine(run, "C06", 60 if run.tier == "quick" else 1500)
    fabric_corr.explore_subscribe_race(run, 60 if run.tier == "quick" else 1500)
    for _ in range(1 if run.tier == "quick" else 6):
        fabric_corr.explore_many_subscribers(run, "C06")
    # subscriptions made by active objects (before start: queued as a meta event; after start: direct), fifo / lifo / both
    pubsub_corr.explore(run, 24 if run.tier == "quick" else 216)
    pubsub_corr.explore_position(run, focus="C07")
    subfine_corr.explore(run, "C06", 40 if run.tier == "quick" else 1000)
    run.extra["rule"] = ("(a) scenarios: 1-4 subscriber queues (plain deques and active-object LockingDeques, several of them empty = equal "
                         "contents), one or two client threads issuing subscribe/publish/start/stop/clear/is_alive (start/stop/clear "
                         "from one thread only); half of them structured (subscribe*, publish* before the first start = maximal "
                         "delivery lag); run under the deterministic scheduler with PCT / random choosers; the recorded schedule is "
                         "replayed on the Lean model and compared per step and on the final registry, queue contents, thread counts; "
                         "(b) fine-grained stream (implementation-side oracle only: the model delivers one publication atomically): subscriber deques are scheduling points, a second client re-subscribes registered queues while a publication is being delivered: every queue receives every publication exactly once")
    run.assumptions.append("queue.PriorityQueue.get returns the minimum for FabricEvent.__lt__; GIL atomicity of each Queue primitive")
    ROUND6_RULE = '; scenarios whose signals are names the library uses internally (STOP_FABRIC_SIGNAL, meta signals, ...); 501-600 subscriber queues on one signal'
    run.extra["rule"] += ROUND6_RULE


def replay(case):
    if case.get("case", case).get("what") == "subscribe-steps":
        return subfine_corr.replay(case)
    cc0 = case.get("case", case)
    if "sub_when" in cc0:
        return pubsub_corr.replay(case)
    return fabric_corr.replay(case)
