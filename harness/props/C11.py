"""C11 — timed sources / cancel / stop (see DESIGN §8): Lean Conc.AO model tied to the real ActiveObject under dsched."""
import ao_corr


def explore(run, lean):
    ao_corr.explore(run, "C11", 200 if run.tier == "quick" else 4000)
    ao_corr.explore_subclass_capacity(run, "C11", 12 if run.tier == "quick" else 300)
    ao_corr.explore_track(run, "C11", 25 if run.tier == "quick" else 800)
    ao_corr.explore_start_vs_arm(run, "C11", (80 if run.tier == "quick" else 1500) * (4 if (lean.get("broken") or run.disagreements) else 1))
    run.extra["rule"] = ("scenarios: one control thread issuing 2-7 calls (timed post_fifo/post_lifo with period 1-3 ticks, times 0-3, "
                         "deferred or not; cancel_event / cancel_events with the identical or an equal-but-distinct id / name object; "
                         "stop()), tracked-source capacity 2-6, optional plain poster; real ActiveObject under the deterministic "
                         "scheduler with a virtual clock (PCT / random choosers, clock advanced lazily or at random); recorded "
                         "schedule replayed on the Lean model, compared per step and on the final timers / queue / results")
    run.assumptions.append("virtual time: sleep(p) wakes exactly p ticks later; real-clock drift (execution time per cycle) is not modelled")
    ROUND6_RULE = "; a subclass whose QUEUE_SIZE is above the base class's, filled to its own capacity (cancel by id / name, stop); 2-3 threads arming and cancelling on one object at bytecode level, replayed on the Lean model Conc.Track in lock-acquisition order (family track)"
    run.extra["rule"] += ROUND6_RULE
    ROUND8_RULE = '; start() racing a timed post / cancel on the same object (round 8)'
    run.extra["rule"] = run.extra.get("rule", "") + ROUND8_RULE


def replay(case):
    return ao_corr.replay(case)
