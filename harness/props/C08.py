"""C08 — active fabric (see DESIGN §8): Lean Conc.Fab model tied to the real fabric threads under dsched."""
import fabric_corr, pubsub_corr


def explore(run, lean):
    fabric_corr.explore(run, "C08", 200 if run.tier == "quick" else 4000)
    fabric_corr.explore_fe_order(run, 200 if run.tier == "quick" else 5000)
    fabric_corr.explore_heap(run, 150 if run.tier == "quick" else 4000)
    pubsub_corr.explore_publish_order(run, "C08", 16 if run.tier == "quick" else 400)
    # one consumer per fabric queue is what keeps the order: delivery threads that die (a subscriber raises) and are restarted
    fabric_corr.explore_faults(run, "C08", 40 if run.tier == "quick" else 1000)
    run.extra["rule"] = ("scenarios: 1-4 subscriber queues (plain deques and active-object LockingDeques, several of them empty = equal "
                         "contents), one or two client threads issuing subscribe/publish/start/stop/clear/is_alive (start/stop/clear "
                         "from one thread only); half of them structured (subscribe*, publish* before the first start = maximal "
                         "delivery lag); run under the deterministic scheduler with PCT / random choosers; the recorded schedule is "
                         "replayed on the Lean model and compared per step and on the final registry, queue contents, thread counts")
    run.assumptions.append("queue.PriorityQueue put/get = heapq.heappush/heappop as transcribed in Data/Heap.lean (array layouts compared "
                           "on every operation of the heap stream); GIL atomicity of each Queue primitive")
    ROUND6_RULE = '; heap stream: put/get sequences on a real PriorityQueue of real FabricEvents, array layout compared with the Lean heap model after every operation; heap condition of the fabric queues checked after every replay; priorities given to ActiveObject.publish (spied / un-spied charts, from outside / from a handler) with the delivery thread held in a slow subscriber'
    run.extra["rule"] += ROUND6_RULE


def replay(case):
    if case.get("case", case).get("publish_order"):
        return pubsub_corr.replay(case)
    return fabric_corr.replay(case)
