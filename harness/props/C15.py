"""C15 — layer-2 check (queued charts; see DESIGN §8)."""
import queue_corr


def explore(run, lean):
    queue_corr.explore(run, "C15", 800 if run.tier == "quick" else 12000)
    queue_corr.explore_same_objects(run, "C15", 150 if run.tier == "quick" else 3000)
    queue_corr.explore_eager_recall(run, 60 if run.tier == "quick" else 1500)
    run.extra["rule"] = ("random queued charts (<=8 states) whose handlers post/defer/recall/scribble, capacities 1-5 and 500, "
                         "scripts of start_at + 3-14 client ops (post_fifo, post_lifo, defer, recall, next_rtc, complete_circuit); "
                         "non-trivial = the script contains an operation the property speaks about; distinct by canonical JSON; a subclass that steps the chart at every post, whose handler recalls the next deferred event when handed one (recall from inside the step an outer recall started)")


def replay(case):
    return queue_corr.replay(case)
