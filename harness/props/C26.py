"""C26 — Event.dumps/Event.loads round-trip name and payload (DESIGN §8)."""
import small_corr, text_corr, factory_corr


def explore(run, lean):
    quick = run.tier == "quick"
    text_corr.explore_json(run, 400 if quick else 8000)
    text_corr.explore_json_codec(run, 150 if quick else 5000)
    run.extra["rule"] = ("random nested JSON payloads (None, booleans, big ints, -0.0, tiny/huge floats, unicode and escaped strings, empty containers, nested lists/dicts) with known, new and awkward signal names; name, payload (type- and sign-exact) and number compared after loads(dumps(e))")
    ROUND6_RULE = '; payloads and names that are themselves data notation (JSON text, reprs, numbers, keywords, dates, doubly serialised); the JSON text itself: json.dumps / json.loads against the Lean codec Text.JsonCodec (family jsonc) on generated values (floats excluded) and hand-written texts'
    run.extra["rule"] += ROUND6_RULE


def replay(case):
    cc = case.get("case", case)
    what = cc.get("what", "")
    if what in ("strip", "stmt", "json", "json-codec"):
        return text_corr.replay(case)
    if "regs" in cc:
        return factory_corr.replay(case)
    return small_corr.replay(case)
