"""C18 — instrumentation never changes chart behaviour (DESIGN §8)."""
import config_corr


def explore(run, lean):
    config_corr.explore(run, 40 if run.tier == "quick" else 800)
    config_corr.explore_chatty_start(run)
    config_corr.detection_probe(run)
    run.extra["rule"] = ("random charts (<=9 states) and scripts of 1-6 events run on every combination of host (plain, instrumented, "
                         "queued, active object under the deterministic scheduler) x decorator (spied / un-spied) x live spy / live "
                         "trace flags; the action log and final state of each configuration are compared with the plain processor's; "
                         "plus the decorator-detection probe (known finding)")
    ROUND6_RULE = '; live flags switched on after start_at or after k events'
    run.extra["rule"] += ROUND6_RULE
    ROUND8_RULE = '; hosts whose handlers find their parent through chart.parent_callback() on queued and active hosts (round 8)'
    run.extra["rule"] = run.extra.get("rule", "") + ROUND8_RULE


def replay(case):
    return config_corr.replay(case)
