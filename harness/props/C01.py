"""C01 — layer-1 check (see DESIGN §8)."""
import hsm_corr


def explore(run, lean):
    quick = run.tier == "quick"
    hsm_corr.explore(run, "C01", 1500 if quick else 20000, hosts=("plain", "instr", "queued"),
                     malformed_rate=0.0, exhaustive_n=(0 if quick else 5))
    hsm_corr.explore_orthogonal(run, "C01", 200 if quick else 4000)
    hsm_corr.explore_literal_depths(run, "C01")
    run.extra["rule"] = ("(b) a second chart object dispatched to from the first one's entry/exit/init actions: the first behaves as alone; "
                         "(a) corpus witnesses first, then random charts (1-14 states, 40% deep chains, multi-level initial "
                         "transitions, per-state HANDLED/fall-through flags) with scripts of start_at + 1-6 ops on plain / "
                         "instrumented / queued hosts; thorough tier adds all trees with <=5 states x all (cur,S,T) x all single "
                         "init assignments; non-trivial = the script reaches the property's mechanism (see histogram); "
                         "distinct by canonical JSON")
    ROUND6_RULE = '; transitions answered with the other statuses of the transition class (TRAN_HIST, TRAN_INIT, TRAN_EP, TRAN_XP)'
    run.extra["rule"] += ROUND6_RULE


def replay(case):
    return hsm_corr.replay(case)
