"""C25 — signal names and numbers form a stable one-to-one registry, even under threads (DESIGN §8)."""
import small_corr, text_corr, factory_corr


def explore(run, lean):
    quick = run.tier == "quick"
    small_corr.explore_registry(run, 60 if quick else 1500)
    small_corr.explore_registry_readers(run, 40 if quick else 1000)
    run.extra["rule"] = ("1-3 threads registering 1-4 names each (append / attribute access) on a fresh SignalSource: (A) lock-granularity schedules replayed on the Lean model, (B) bytecode-granularity random schedules of append/__getattr__/Event.__init__ checked by the oracle (distinct positive numbers, nothing renumbered, name_for_signal inverse, ten inner signals, no exception)")
    ROUND6_RULE = '; names of many shapes (dunder-like, leading / trailing underscores, dotted, spaces, long) first used through attribute access'
    run.extra["rule"] += ROUND6_RULE


def replay(case):
    cc = case.get("case", case)
    what = cc.get("what", "")
    if what in ("strip", "stmt", "json"):
        return text_corr.replay(case)
    if "regs" in cc:
        return factory_corr.replay(case)
    return small_corr.replay(case)
