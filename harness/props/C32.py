"""C32 — stripped() makes trace comparison timestamp-insensitive (DESIGN §8)."""
import small_corr, text_corr, factory_corr


def explore(run, lean):
    quick = run.tier == "quick"
    text_corr.explore_strip(run, 300 if quick else 6000)
    run.extra["rule"] = ("(a) traces in the library format with random names/timestamps, canonical and perturbed (blank lines, surrounding blanks/tabs, \\r\\n, doubled newlines); (b) strings assembled from fragments around the regex corner cases; (c) single-line probes; every result compared with the Lean stripped()")
    ROUND6_RULE = '; chart names in other scripts (non-ASCII digits, fullwidth punctuation); traces kept without their timestamps and stripped again'
    run.extra["rule"] += ROUND6_RULE


def replay(case):
    cc = case.get("case", case)
    what = cc.get("what", "")
    if what in ("strip", "stmt", "json"):
        return text_corr.replay(case)
    if "regs" in cc:
        return factory_corr.replay(case)
    return small_corr.replay(case)
