"""C22 — is_in / child_state answer from the active path and change nothing"""
import hsm_corr


def explore(run, lean):
    n = 1500 if run.tier == "quick" else 20000
    hsm_corr.explore(run, "C22", n, hosts=("plain", "instr", "queued"))
    hsm_corr.explore_literal_depths(run, "C22")
    hsm_corr.explore_raising_query(run, 80 if run.tier == "quick" else 1500)
    run.extra["rule"] = ("random charts (1-14 states, 40%% deep chains) on plain / instrumented / queued hosts, spied and un-spied; "
                         "non-trivial = the script contains an operation the property speaks about; distinct by canonical JSON")
    ROUND6_RULE = "; queries whose argument is a like-named function that is not a state of this chart (another build of the design, another chart's top)"
    run.extra["rule"] += ROUND6_RULE


def replay(case):
    return hsm_corr.replay(case)
