"""C29 — thread-safe attribute values belong to their instance (DESIGN §8)."""
import small_corr, text_corr, factory_corr


def explore(run, lean):
    quick = run.tier == "quick"
    small_corr.explore_instances(run, 300 if quick else 6000)
    run.extra["rule"] = ("random sequences of instance creation, assignment and reads on fresh classes with a thread-safe attribute, compared with a per-instance last-write model")


def replay(case):
    cc = case.get("case", case)
    what = cc.get("what", "")
    if what in ("strip", "stmt", "json"):
        return text_corr.replay(case)
    if "regs" in cc:
        return factory_corr.replay(case)
    return small_corr.replay(case)
