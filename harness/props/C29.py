"""C29 — thread-safe attribute values belong to their instance (DESIGN §8)."""
import small_corr, text_corr, factory_corr


def explore(run, lean):
    quick = run.tier == "quick"
    small_corr.explore_instances(run, 300 if quick else 6000)
    small_corr.explore_instances_threads(run, 40 if quick else 1000)
    run.extra["rule"] = ("random sequences of instance creation, assignment and reads on fresh classes with a thread-safe attribute, compared with a per-instance last-write model (40% of the classes compare and hash by value, so all instances are equal); "
                         "plus 2-3 threads each reading / assigning its own instance, interleaved bytecode by bytecode")
    ROUND6_RULE = '; statements that use two instances (b.x += a.x, swaps, accumulate-then-assign, compare-then-assign)'
    run.extra["rule"] += ROUND6_RULE


def replay(case):
    cc = case.get("case", case)
    what = cc.get("what", "")
    if what in ("strip", "stmt", "json"):
        return text_corr.replay(case)
    if "regs" in cc:
        return factory_corr.replay(case)
    return small_corr.replay(case)
