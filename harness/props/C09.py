"""C09 — active fabric (see DESIGN §8): Lean Conc.Fab model tied to the real fabric threads under dsched."""
import fabric_corr, pubsub_corr


def explore(run, lean):
    fabric_corr.explore(run, "C09", 200 if run.tier == "quick" else 4000)
    pubsub_corr.explore_position(run)
    pubsub_corr.explore_position_race(run, 40 if run.tier == "quick" else 1000)
    run.extra["rule"] = ("(a) scenarios: 1-4 subscriber queues (plain deques and active-object LockingDeques, several of them empty = equal "
                         "contents), one or two client threads issuing subscribe/publish/start/stop/clear/is_alive (start/stop/clear "
                         "from one thread only); half of them structured (subscribe*, publish* before the first start = maximal "
                         "delivery lag); run under the deterministic scheduler with PCT / random choosers; the recorded schedule is "
                         "replayed on the Lean model and compared per step and on the final registry, queue contents, thread counts; "
                         "(b) real ActiveObjects subscribing before start / after start from outside / from a handler, spied or not, fifo or "
                         "lifo (12 configurations, exhaustive): the object is stopped, X1 and X2 are posted, PING is published: lifo => "
                         "[PING, X1, X2], fifo => [X1, X2, PING]")
    run.assumptions.append("queue.PriorityQueue.get returns the minimum for FabricEvent.__lt__; GIL atomicity of each Queue primitive")
    ROUND6_RULE = '; queue_type given as equal strings that are not the literal (built at run time, JSON, str subclass, read from a stream)'
    run.extra["rule"] += ROUND6_RULE
    ROUND8_RULE = "; a lifo delivery racing a direct post onto the same (empty or non-empty) queue, the deque's operations being scheduling points; Props/C09Race proves the layout for every interleaving of atomic operations (round 8)"
    run.extra["rule"] = run.extra.get("rule", "") + ROUND8_RULE


def replay(case):
    if case.get("case", case).get("position"):
        return pubsub_corr.replay(case)
    return fabric_corr.replay(case)
