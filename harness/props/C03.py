"""C03 — layer-1 check (see DESIGN §8)."""
import hsm_corr, factory_corr


def explore(run, lean):
    quick = run.tier == "quick"
    hsm_corr.explore(run, "C03", 1500 if quick else 20000, hosts=("plain", "instr", "queued"),
                     malformed_rate=0.0, exhaustive_n=(0 if quick else 0))
    hsm_corr.explore_orthogonal(run, "C03", 200 if run.tier == "quick" else 4000)
    # start paths of charts assembled from template state functions (nesting declared through register_parent, sometimes twice)
    run.factory_key = "C03"
    factory_corr.explore(run, 60 if quick else 1500)
    hsm_corr.explore_literal_depths(run, "C03")
    run.extra["rule"] = ("corpus witnesses first, then random charts (1-14 states, 40% deep chains, multi-level initial "
                         "transitions, per-state HANDLED/fall-through flags) with scripts of start_at + 1-6 ops on plain / "
                         "instrumented / queued hosts; thorough tier adds all trees with <=5 states x all (cur,S,T) x all single "
                         "init assignments; non-trivial = the script reaches the property's mechanism (see histogram); "
                         "distinct by canonical JSON")
    ROUND6_RULE = '; handlers in the register_parent style that ask `chart.parent_callback()` without argument (queued hosts); template charts (register_parent nesting, parents declared twice) against the hand-written build'
    run.extra["rule"] += ROUND6_RULE


def replay(case):
    if "regs" in case.get("case", case):
        return factory_corr.replay(case)
    return hsm_corr.replay(case)
