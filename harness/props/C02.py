"""C02 — events bubble outward; handled/ignored events change nothing."""
import hsm_corr


def explore(run, lean):
    n = 1500 if run.tier == "quick" else 20000
    hsm_corr.explore(run, "C02", n, hosts=("plain", "instr", "queued"))
    run.extra["rule"] = ("random charts (1-14 states, 40% deep chains), scripts of start_at + 1-6 dispatch/is_in/child_state ops; "
                         "non-trivial = contains at least one step that the spec answers with handled/ignored; "
                         "distinct by canonical JSON of (chart, ops, host)")


def replay(case):
    return hsm_corr.replay(case)
