"""C02 — events bubble outward; handled/ignored events change nothing."""
import hsm_corr, factory_corr


def explore(run, lean):
    n = 1500 if run.tier == "quick" else 20000
    hsm_corr.explore(run, "C02", n, hosts=("plain", "instr", "queued"))
    # the same question for charts assembled from template state functions (which ask the chart for their parent), including
    # template functions shared with another chart object that nests them differently
    run.factory_key = "C02"
    factory_corr.explore(run, 60 if run.tier == "quick" else 1500)
    hsm_corr.explore_literal_depths(run, "C02")
    run.extra["rule"] = ("random charts (1-14 states, 40% deep chains), scripts of start_at + 1-6 dispatch/is_in/child_state ops; "
                         "non-trivial = contains at least one step that the spec answers with handled/ignored; "
                         "distinct by canonical JSON of (chart, ops, host)")
    ROUND6_RULE = '; template charts (state_method_template + register_parent), incl. template functions shared with another chart object that nests them differently; handlers in the register_parent style that ask `chart.parent_callback()` without argument'
    run.extra["rule"] += ROUND6_RULE


def replay(case):
    cc = case.get("case", case)
    if "regs" in cc:
        return factory_corr.replay(case)
    return hsm_corr.replay(case)
