"""C30 — singletons stay single even when first requested concurrently (DESIGN §8)."""
import small_corr, text_corr, factory_corr, single_corr, nested_corr


def explore(run, lean):
    quick = run.tier == "quick"
    small_corr.explore_singleton(run, 60 if quick else 1500)
    small_corr.explore_singleton_kinds(run)
    small_corr.explore_singleton_failing(run, 40 if quick else 1000)
    small_corr.explore_singleton_nested(run, 40 if quick else 1000)
    nested_corr.explore(run, (30 if quick else 800) * (3 if lean.get("broken") else 1))
    single_corr.explore(run, (40 if quick else 1000) * (3 if lean.get("broken") else 1))
    run.extra["rule"] = ("2-4 threads making the first request of a SingletonDecorator: (A) lock-granularity schedules replayed on the Lean model, (B) bytecode-granularity random schedules of __call__ checked by the oracle (one instance); (C) 2-3 threads x 1-3 requests each, some refused by the constructor, one scheduling point per shared access (instance reads / writes, lock, __new__, __init__): the recorded schedule is replayed on the Lean model Conc.SingleInit, the model's program counter is compared with the access before every step and outcomes, instance, initialised / failed objects at the end")


def replay(case):
    cc = case.get("case", case)
    what = cc.get("what", "")
    if what in ("strip", "stmt", "json"):
        return text_corr.replay(case)
    if what == "singleton-nested-steps":
        return nested_corr.replay(case)
    if what == "singleton-init":
        return single_corr.replay(case)
    if "regs" in cc:
        return factory_corr.replay(case)
    return small_corr.replay(case)
