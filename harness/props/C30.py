"""C30 — singletons stay single even when first requested concurrently (DESIGN §8)."""
import small_corr, text_corr, factory_corr


def explore(run, lean):
    quick = run.tier == "quick"
    small_corr.explore_singleton(run, 60 if quick else 1500)
    small_corr.explore_singleton_kinds(run)
    run.extra["rule"] = ("2-4 threads making the first request of a SingletonDecorator: (A) lock-granularity schedules replayed on the Lean model, (B) bytecode-granularity random schedules of __call__ checked by the oracle (one instance)")


def replay(case):
    cc = case.get("case", case)
    what = cc.get("what", "")
    if what in ("strip", "stmt", "json"):
        return text_corr.replay(case)
    if "regs" in cc:
        return factory_corr.replay(case)
    return small_corr.replay(case)
