"""C05 — posting always returns; the system reaches quiescence (DESIGN §8)."""
import conc_corr


def explore(run, lean):
    conc_corr.explore(run, "C05", 150 if run.tier == "quick" else 3000, escalate=bool(lean.get("broken")))
    conc_corr.explore_posters_only(run, "C05", 60 if run.tier == "quick" else 1500)
    conc_corr.explore_first_use(run, "C05", 25 if run.tier == "quick" else 600)
    if run.tier == "thorough" and not run.violations:
        # systematic part: every schedule with at most two preemptions of four small scenarios + random/PCT runs of three-poster
        # scenarios, on the real threads, judged by the oracle (the same search the verdict logic uses when a tie breaks)
        n_sys = conc_corr.bounded_preemption_search(run, "C05", budget_s=240)
        run.count("systematic bounded-preemption executions", n_sys)
    run.extra["rule"] = ("scenarios: 1-3 poster threads x 1-4 fifo/lifo posts (+ handler self-posts), capacities 2,3,4,500, run on the "
                         "real ActiveObject under the deterministic scheduler with PCT (depth 1-3) or uniform random choosers and a "
                         "fair round-robin suffix; the recorded schedule is replayed on the Lean transition system and compared "
                         "primitive by primitive (label, result, enabled set) and on the final state; non-trivial = >=2 posters or "
                         "handler self-posts; distinct by (scenario, chooser seed)")
    run.assumptions.append("GIL atomicity of each deque/Queue/Event primitive; preemption inside a primitive is not modelled")
    ROUND8_RULE = '; the first use of lazily created per-object structures raced by two threads (round 8)'
    run.extra["rule"] = run.extra.get("rule", "") + ROUND8_RULE


def replay(case):
    return conc_corr.replay(case)
