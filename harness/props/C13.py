"""C13 — active fabric (see DESIGN §8): Lean Conc.Fab model tied to the real fabric threads under dsched."""
import fabric_corr, ao_corr, conc_corr


def explore(run, lean):
    fabric_corr.explore(run, "C13", 200 if run.tier == "quick" else 4000)
    fabric_corr.explore_faults(run, "C13", 60 if run.tier == "quick" else 1500)
    fabric_corr.explore_subscribing_subscriber(run, "C13", 30 if run.tier == "quick" else 800)
    ao_corr.explore_fabric_stop(run, 60 if run.tier == "quick" else 1500)
    conc_corr.explore_fabric_stop(run, 40 if run.tier == "quick" else 1000)
    run.extra["rule"] = ("(a) scenarios: 1-4 subscriber queues (plain deques and active-object LockingDeques, several of them empty = equal "
                         "contents), one or two client threads issuing subscribe/publish/start/stop/clear/is_alive (start/stop/clear "
                         "from one thread only); half of them structured (subscribe*, publish* before the first start = maximal "
                         "delivery lag); run under the deterministic scheduler with PCT / random choosers; the recorded schedule is "
                         "replayed on the Lean model and compared per step and on the final registry, queue contents, thread counts; "
                         "(b) fault stream (implementation-side oracle only: the model has no dying thread): a subscriber whose append raises kills one delivery thread, then start() / publish / stop(): at most one live thread per kind at every step, is_alive() true after the repair, stop() returns and nothing is delivered after it; "
                         "(c) a real active object posted to before and after ActiveFabric().stop() returned: a wake-up after the stop runs no "
                         "step and ends the object's thread; (d) posters, the consumer and a fabric-stopping thread under every interleaving, replayed "
                         "on the Lean system Conc.LDFab (theorems C13_stop_*)")
    run.assumptions.append("queue.PriorityQueue.get returns the minimum for FabricEvent.__lt__; GIL atomicity of each Queue primitive")


def replay(case):
    if case.get("case", case).get("what") == "fabric-stop":
        return (conc_corr if "scenario" in case.get("case", case) else ao_corr).replay(case)
    return fabric_corr.replay(case)
