"""C17 — factory/template charts and their to_code text behave like hand-written charts (DESIGN §8)."""
import small_corr, text_corr, factory_corr


def explore(run, lean):
    quick = run.tier == "quick"
    factory_corr.explore(run, 150 if quick else 3000)
    run.extra["rule"] = ("random charts (<=8 states) built three ways (hand-written handlers, state_method_template + register_signal_callback/register_parent in shuffled registration order, exec of the to_code text), callbacks that transition / handle / decline, 30% with callbacks named `handled`; callback invocation logs and final states compared; every to_code text parsed and compared with the Lean ladder")
    ROUND6_RULE = '; bound-method callbacks with tolerant signatures (*more, option=None); template functions shared with a differently nested chart'
    run.extra["rule"] += ROUND6_RULE
    ROUND8_RULE = '; charts built through the Factory class with awkward state names (spaces, dots, keywords, other scripts) compared with the hand-written twin and their to_code text (round 8)'
    run.extra["rule"] = run.extra.get("rule", "") + ROUND8_RULE


def replay(case):
    cc = case.get("case", case)
    what = cc.get("what", "")
    if what in ("strip", "stmt", "json"):
        return text_corr.replay(case)
    if "regs" in cc:
        return factory_corr.replay(case)
    return small_corr.replay(case)
