"""C04 — an active object dispatches every posted event exactly once, in queue order (DESIGN §8)."""
import ao_corr
import conc_corr


def explore(run, lean):
    conc_corr.explore(run, "C04", 150 if run.tier == "quick" else 3000, escalate=bool(lean.get("broken")))
    conc_corr.explore_live(run, "C04", 30 if run.tier == "quick" else 600)
    run.fork("timed")
    ao_corr.explore_timed_placement(run, "C04", 30 if run.tier == "quick" else 800)
    # handlers that arm and cancel timed sources while timers fire and the object is stopped: every thread keeps making progress
    run.fork("handler-armed")
    ao_corr.explore_handler_armed(run, 160 if run.tier == "quick" else 2500, focus="C04")
    if run.tier == "thorough" and not run.violations:
        # systematic part: every schedule with at most two preemptions of four small scenarios + random/PCT runs of three-poster
        # scenarios, on the real threads, judged by the oracle (the same search the verdict logic uses when a tie breaks)
        n_sys = conc_corr.bounded_preemption_search(run, "C04", budget_s=240)
        run.count("systematic bounded-preemption executions", n_sys)
    run.extra["rule"] = ("scenarios: 1-3 poster threads x 1-4 fifo/lifo posts (+ handler self-posts), capacities 2,3,4,500, run on the "
                         "real ActiveObject under the deterministic scheduler with PCT (depth 1-3) or uniform random choosers and a "
                         "fair round-robin suffix; the recorded schedule is replayed on the Lean transition system and compared "
                         "primitive by primitive (label, result, enabled set) and on the final state; non-trivial = >=2 posters or "
                         "handler self-posts; distinct by (scenario, chooser seed)")
    run.assumptions.append("GIL atomicity of each deque/Queue/Event primitive; preemption inside a primitive is not modelled")
    ROUND6_RULE = '; timed fifo / lifo sources firing onto events pending in an object that is not started yet (placement oracle)'
    run.extra["rule"] += ROUND6_RULE


def replay(case):
    if case.get("case", case).get("what") in ("timed-placement", "handler-armed"):
        return ao_corr.replay(case)
    return conc_corr.replay(case)
