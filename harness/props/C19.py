"""C19 — the spy log records exactly the state invocations the processor made (DESIGN §8)."""
import instr_corr


def explore(run, lean):
    instr_corr.explore(run, "C19", 400 if run.tier == "quick" else 8000)
    if "C19" == "C20":
        instr_corr.deep_probe(run)
    instr_corr.clear_probe(run, "C19", 620 if run.tier == "quick" else 1500)
    instr_corr.handler_clear_probe(run, "C19", 30 if run.tier == "quick" else 600)
    instr_corr.orthogonal_probe(run, "C19", 40 if run.tier == "quick" else 800)
    instr_corr.reserved_signal_probe(run, "C19")
    instr_corr.prestart_probe(run, "C19")
    run.extra["rule"] = ("random spied charts (<=7 states) on an instrumented HsmWithQueues whose handlers post/defer/recall/scribble; "
                         "scripts of start_at + 2-12 client ops (posts, defer, recall, next_rtc), some with a post before start_at; "
                         "ring sizes real (250/500/500) or reduced (full spy 20-120, trace 2-5); scripted clocks (fine, coarse, "
                         "constant, running backwards); rtc spy after every op, full spy, trace and both live streams compared with "
                         "the Lean model; the oracle compares the spy lines with the handlers' own invocation record")
    run.assumptions.append("at most rtcCap (250) handler calls per step; beyond that see the known findings")
    ROUND6_RULE = '; scribbles of empty / falsy / non-text values; scribble oracle per step'
    run.extra["rule"] += ROUND6_RULE


def replay(case):
    return instr_corr.replay(case)
