"""C21 — live spy/trace output emits every line once, in order, whatever the clock says (DESIGN §8)."""
import instr_corr


def explore(run, lean):
    instr_corr.explore(run, "C21", 400 if run.tier == "quick" else 8000)
    instr_corr.long_history_probe(run, "C21", 560 if run.tier == "quick" else 1700)
    instr_corr.live_callback_probe(run, "C21", 20 if run.tier == "quick" else 500)
    instr_corr.live_after_fabric_stop_probe(run, "C21")
    run.extra["rule"] = ("random spied charts (<=7 states) on an instrumented HsmWithQueues whose handlers post/defer/recall/scribble; "
                         "scripts of start_at + 2-12 client ops (posts, defer, recall, next_rtc), some with a post before start_at; "
                         "ring sizes real (250/500/500) or reduced (full spy 20-120, trace 2-5); scripted clocks (fine, coarse, "
                         "constant, running backwards); rtc spy after every op, full spy, trace and both live streams compared with "
                         "the Lean model; the oracle compares the spy lines with the handlers' own invocation record; "
                         "plus two histories longer than the 500-entry rings (560 / 1700 steps, real ring sizes): compared with the model, "
                         "one live trace line per transition step")
    run.assumptions.append("at most rtcCap (250) handler calls per step; beyond that see the known findings")
    ROUND8_RULE = '; live spy / trace callbacks replaced while output is being produced (round 8)'
    run.extra["rule"] = run.extra.get("rule", "") + ROUND8_RULE


def replay(case):
    return instr_corr.replay(case)
