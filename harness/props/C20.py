"""C20 — the trace has one record per transition and none for other steps (DESIGN §8)."""
import instr_corr


def explore(run, lean):
    instr_corr.explore(run, "C20", 400 if run.tier == "quick" else 8000)
    if "C20" == "C20":
        instr_corr.deep_probe(run)
        instr_corr.long_history_probe(run, "C20", 560 if run.tier == "quick" else 1700)
    instr_corr.clear_probe(run, "C20", 620 if run.tier == "quick" else 1500)
    instr_corr.handler_clear_probe(run, "C20", 30 if run.tier == "quick" else 600)
    instr_corr.orthogonal_probe(run, "C20", 40 if run.tier == "quick" else 800)
    instr_corr.reentrant_step_probe(run, "C20")
    instr_corr.meta_signal_probe(run)
    run.extra["rule"] = ("random spied charts (<=7 states) on an instrumented HsmWithQueues whose handlers post/defer/recall/scribble; "
                         "scripts of start_at + 2-12 client ops (posts, defer, recall, next_rtc), some with a post before start_at; "
                         "ring sizes real (250/500/500) or reduced (full spy 20-120, trace 2-5); scripted clocks (fine, coarse, "
                         "constant, running backwards); rtc spy after every op, full spy, trace and both live streams compared with "
                         "the Lean model; the oracle compares the spy lines with the handlers' own invocation record")
    run.assumptions.append("at most rtcCap (250) handler calls per step; beyond that see the known findings")


def replay(case):
    return instr_corr.replay(case)
