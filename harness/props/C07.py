"""C07 — active-object publish/subscribe works in every configuration (DESIGN §8)."""
import pubsub_corr, conc_corr, fabric_corr, subfine_corr


def explore(run, lean):
    pubsub_corr.explore(run, 48 if run.tier == "quick" else 10 ** 6)
    pubsub_corr.explore_position(run, focus="C07")
    conc_corr.explore_live(run, "C07", 20 if run.tier == "quick" else 400)
    fabric_corr.explore_number_subscription_race(run, "C07", 40 if run.tier == "quick" else 1200)
    fabric_corr.explore_same_queue_race(run, "C07", 60 if run.tier == "quick" else 1500)
    subfine_corr.explore(run, "C07", 40 if run.tier == "quick" else 1000)
    run.extra["rule"] = ("(a) configuration space: subscriber spied/un-spied x subscribe before start / after start from outside / "
                         "from its own handler x fifo/lifo x 0-2 other active objects already subscribed x publisher spied/un-spied x "
                         "publish before start / outside / own handler = 216 configurations (quick: a seeded sample of 48, thorough: all); "
                         "each is run on real ActiveObjects under the deterministic scheduler to quiescence and compared with the "
                         "outcome predicted by the Lean decision-logic model; (b) delivery to an object that has other events pending (stopped object, "
                         "X1 and X2 posted, then PING published): 18 ways of subscribing (fifo / lifo / both) plus small capacities")
    ROUND6_RULE = '; subscriptions given as a signal number racing the registration of new signal names (bytecode level)'
    run.extra["rule"] += ROUND6_RULE


def replay(case):
    if case.get("case", case).get("what") == "subscribe-steps":
        return subfine_corr.replay(case)
    if case.get("case", case).get("what") == "number-subscription-race":
        return fabric_corr.replay(case)
    if "scenario" in case.get("case", case):
        return conc_corr.replay(case)
    return pubsub_corr.replay(case)
