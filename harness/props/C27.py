"""C27 — thread-safe attributes lose no updates and never fail under concurrency (DESIGN §8)."""
import small_corr, text_corr, factory_corr


def explore(run, lean):
    quick = run.tier == "quick"
    small_corr.explore_tsa(run, 60 if quick else 1500)
    small_corr.explore_tsa_operators(run, 40 if quick else 1000)
    small_corr.explore_tsa_two_attributes(run, 30 if quick else 800)
    small_corr.explore_tsa_loader_source(run, 30 if quick else 600)
    run.extra["rule"] = ("2-3 threads executing 1-3 statements each (read, assignment, augmented assignment as real source lines) on one attribute: (A) lock-granularity schedules replayed on the Lean model (value, lock owner/count, error), (B) bytecode-granularity random schedules of __get__/__set__ checked against all serial results; (C) the same at bytecode level for every augmented operator (+= -= *= /= //= %= **= >>= <<= &= ^= |=)")
    ROUND6_RULE = '; look-ups through the class (`Cls.x`, hasattr); the statements in a module imported from a zip archive (source text served by the loader, round 9)'
    run.extra["rule"] += ROUND6_RULE


def replay(case):
    cc = case.get("case", case)
    what = cc.get("what", "")
    if what in ("strip", "stmt", "json"):
        return text_corr.replay(case)
    if "regs" in cc:
        return factory_corr.replay(case)
    return small_corr.replay(case)
