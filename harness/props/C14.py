"""C14 — layer-2 check (queued charts; see DESIGN §8)."""
import queue_corr


def explore(run, lean):
    queue_corr.explore(run, "C14", 800 if run.tier == "quick" else 12000)
    queue_corr.explore_same_objects(run, "C14", 150 if run.tier == "quick" else 3000)
    queue_corr.explore_failed_step(run, "C14", 100 if run.tier == "quick" else 2000)
    queue_corr.explore_nested_circuit(run, "C14", 100 if run.tier == "quick" else 2000)
    run.extra["rule"] = ("random queued charts (<=8 states) whose handlers post/defer/recall/scribble, capacities 1-5 and 500, "
                         "scripts of start_at + 3-14 client ops (post_fifo, post_lifo, defer, recall, next_rtc, complete_circuit); "
                         "non-trivial = the script contains an operation the property speaks about; distinct by canonical JSON")
    ROUND6_RULE = '; failing steps raise one of twelve exception types (IndexError, KeyError, StopIteration, ...): the exception reaches the caller, complete_circuit never returns normally with events pending'
    run.extra["rule"] += ROUND6_RULE
    ROUND8_RULE = '; classes with QUEUE_SIZE = None (unbounded deques) (round 8)'
    run.extra["rule"] = run.extra.get("rule", "") + ROUND8_RULE


def replay(case):
    return queue_corr.replay(case)
