"""C28 — every statement using a thread-safe attribute releases its lock (DESIGN §8)."""
import small_corr, text_corr, factory_corr


def explore(run, lean):
    quick = run.tier == "quick"
    text_corr.explore_stmts(run, 250 if quick else 5000)
    run.extra["rule"] = ("statements generated from a grammar (reads inside arithmetic / comparison / call / subscript expressions, assignments and augmented assignments to the attribute, to other variables and to dict items, if-statements, trailing comments), rendered to a real module, executed, lock count read afterwards and compared with the Lean leak function; documented forms first")
    ROUND6_RULE = '; the same statements laid out over two physical lines (backslash continuation / break inside brackets)'
    run.extra["rule"] += ROUND6_RULE
    ROUND8_RULE = "; statements derived from the library's own hook names (round 8)"
    run.extra["rule"] = run.extra.get("rule", "") + ROUND8_RULE


def replay(case):
    cc = case.get("case", case)
    what = cc.get("what", "")
    if what in ("strip", "stmt", "json"):
        return text_corr.replay(case)
    if "regs" in cc:
        return factory_corr.replay(case)
    return small_corr.replay(case)
