"""C16 — pending-event queues stay bounded, never block, keep lifo posts (queued charts and LockingDeque)."""
import ao_corr
import queue_corr, ldseq_corr, conc_corr


def explore(run, lean):
    quick = run.tier == "quick"
    queue_corr.explore(run, "C16", 500 if quick else 8000)
    ldseq_corr.explore(run, 600 if quick else 10000)
    # "one wake-up token per pending event when idle" also has to survive posters racing the consumer
    conc_corr.explore(run, "C16", 40 if quick else 1000, escalate=bool(lean.get("broken")))
    conc_corr.clear_after_stop_probe(run)
    run.fork("clear-race")
    conc_corr.explore_clear_race(run, 40 if quick else 1000)
    conc_corr.explore_posters_only(run, "C16", 60 if run.tier == "quick" else 1500)
    ao_corr.explore_timed_placement(run, "C16", 30 if run.tier == "quick" else 800)
    run.extra["rule"] = ("(a) random queued charts whose handlers post/defer/recall, capacities 1-4 and 500, scripts of 3-14 client ops; "
                         "(b) random single-thread operation sequences (append, appendleft, pop, popleft, clear, len) on a real "
                         "LockingDeque at capacities 1-5 and 500, biased to full queues; every operation compared with the Lean "
                         "model (result, deque, tokens, unfinished_tasks); (c) posters racing the consumer of a real ActiveObject "
                         "under the deterministic scheduler (schedule replayed on the Lean model; at quiescence no pending event "
                         "without a token); distinct by canonical JSON")
    ROUND6_RULE = '; timed lifo / fifo posts onto pending events of an active object'
    run.extra["rule"] += ROUND6_RULE


def replay(case):
    cc = case.get("case", case)
    if cc.get("what") == "timed-placement":
        return ao_corr.replay(case)
    if "chart" in cc:
        return queue_corr.replay(case)
    if "scenario" in cc:
        return conc_corr.replay(case)
    return ldseq_corr.replay(case)
