"""C12 — timed sources / cancel / stop (see DESIGN §8): Lean Conc.AO model tied to the real ActiveObject under dsched."""
import ao_corr


def explore(run, lean):
    ao_corr.explore(run, "C12", 200 if run.tier == "quick" else 4000)
    # (a broken obligation or tie widens the search for a failing schedule)
    ao_corr.explore_handler_armed(run, (80 if run.tier == "quick" else 2000) * (5 if lean.get("broken") else 1))
    run.extra["rule"] = ("(a) scenarios: one control thread issuing 2-7 calls (timed post_fifo/post_lifo with period 1-3 ticks, times 0-3, "
                         "deferred or not; cancel_event / cancel_events with the identical or an equal-but-distinct id / name object; "
                         "stop()), tracked-source capacity 2-6, optional plain poster; real ActiveObject under the deterministic "
                         "scheduler with a virtual clock (PCT / random choosers, clock advanced lazily or at random); recorded "
                         "schedule replayed on the Lean model, compared per step and on the final timers / queue / results; "
                         "(b) handler-armed stream (implementation-side oracle only): 1-3 queued ARM events whose handler arms a timed "
                         "source, stop() from another thread racing those steps, or from a handler; after stop() returns no step, no "
                         "timer post, no source with its run flag set")
    run.assumptions.append("virtual time: sleep(p) wakes exactly p ticks later; real-clock drift (execution time per cycle) is not modelled")
    ROUND6_RULE = '; stop() from a handler replayed on the Lean model Conc.AOOwn (family aoown); after a self-stop the client arms one more source and calls stop() from outside'
    run.extra["rule"] += ROUND6_RULE


def replay(case):
    return ao_corr.replay(case)
