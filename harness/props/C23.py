"""C23 — state_name / state_fn always describe the current state"""
import hsm_corr


def explore(run, lean):
    n = 1500 if run.tier == "quick" else 20000
    hsm_corr.explore(run, "C23", n, hosts=("plain", "instr", "queued"))
    hsm_corr.explore_ao_names(run, 40 if run.tier == "quick" else 1000)
    run.extra["rule"] = ("random charts (1-14 states, 40%% deep chains) on plain / instrumented / queued hosts, spied and un-spied; "
                         "non-trivial = the script contains an operation the property speaks about; distinct by canonical JSON")
    ROUND6_RULE = '; queries between steps: the names are read after is_in / child_state as well; named and un-named active objects: names right after start_at and after an event'
    run.extra["rule"] += ROUND6_RULE
    ROUND8_RULE = '; charts all of whose state functions share one __name__ (round 8)'
    run.extra["rule"] = run.extra.get("rule", "") + ROUND8_RULE


def replay(case):
    return hsm_corr.replay(case)
