"""Layer-1 correspondence (faithful model ↔ real HsmEventProcessor, complete call trace)
and the UML oracles (Lean spec ↔ real code, action projection) for C01, C02, C03, C22, C24."""
import os, sys, json, re, glob
import charts, leanrun
from charts import mhsm

VERIF = os.path.dirname(os.path.dirname(os.path.abspath(__file__)))

LINE = re.compile(r"^(ok|raise|assert|diverge|error:\w+)(?: res=(-?\d+))?(?: state=(-?\d+))?(?: temp=(-?\d+))?(?: log=(.*))?$")


def parse(line):
    m = LINE.match(line)
    if not m:
        return {"kind": "unparsed", "raw": line}
    log = [x for x in (m.group(5) or "").split(",") if x]
    return {"kind": m.group(1), "res": m.group(2), "state": m.group(3), "temp": m.group(4), "log": log}


def actions(log):
    return [x for x in log if not x.endswith((".su", ".em", ".rf"))]


def same_step(model, impl):
    a, b = parse(model), parse(impl)
    if a["kind"] == "diverge" or b["kind"] == "diverge":
        return a["kind"] == b["kind"] and b["log"][:len(a["log"])] == a["log"]
    return a == b


def gen_ops(rng, c, nops, q_rate=0.25, start=None):
    ops = [(0, start if start is not None else rng.randrange(1, c.n + 1))]
    for _ in range(nops):
        r = rng.random()
        if r < 1 - q_rate:
            ops.append((1, rng.randrange(c.nsig)))
        elif r < 1 - q_rate / 2:
            ops.append((2, rng.randrange(0, c.n + 1)))
        else:
            ops.append((3, rng.randrange(0, c.n + 1)))
    return ops


def topology(c, cur, S, T):
    """classify a transition like the comments of trans_ do"""
    ps, pt = c.path(S), c.path(T)
    h = "+h" if cur != S else ""
    if S == T:
        return "a" + h
    if len(pt) > 1 and pt[1] == S:
        return "b" + h
    if ps[1:] == pt[1:]:
        return "c" + h
    if len(ps) > 1 and ps[1] == T:
        return "d" + h
    if S in pt:
        return "e" + h
    if len(ps) > 1 and ps[1] in pt:
        return "f" + h
    return "g" + h


def corpus_cases(prop):
    out = []
    for f in sorted(glob.glob(os.path.join(VERIF, "corpus", prop, "*.json"))):
        d = json.load(open(f))
        out.append((charts.GenChart.from_json(d["chart"]), [tuple(o) for o in d["ops"]], d.get("malformed")))
    return out


def batch(cases, family="hsm", cfg=9):
    return leanrun.run_driver([c.encode(ops, cfg=cfg, family=family) for c, ops in cases])


def case_json(c, ops, extra=None):
    d = {"chart": c.to_json(), "ops": [list(o) for o in ops]}
    if extra:
        d.update(extra)
    return d


def shrink_ops(c, ops, still_fails):
    """drop ops (never the initial start) while the failure persists"""
    ops = list(ops)
    i = len(ops) - 1
    while i >= 1:
        cand = ops[:i] + ops[i + 1:]
        if len(cand) >= 1 and still_fails(c, cand):
            ops = cand
        i -= 1
    return ops


def explore(run, focus, n_random, hosts=("plain",), malformed_rate=0.0, exhaustive_n=0, nops=6):
    """common driver. focus ∈ {C01,C02,C03,C22,C24}"""
    rng = run.rng
    cases = []
    for c, ops, mal in corpus_cases(focus):
        cases.append((c, ops, "corpus", mal))
        run.count("corpus")
    for _ in range(n_random):
        mal = rng.random() < malformed_rate
        c = charts.gen_chart(rng, malformed=mal)
        if focus == "C03":
            ops = [(0, rng.randrange(1, c.n + 1))]
            if rng.random() < 0.3:
                # the same chart object started again (after some events or at once)
                ops += [(1, rng.randrange(c.nsig)) for _ in range(rng.randint(0, 2))] + [(0, rng.randrange(1, c.n + 1))]
        elif focus == "C22":
            ops = gen_ops(rng, c, rng.randint(2, nops), q_rate=0.6)
        elif focus == "C23":
            # between two steps the program may query the chart: the names must still be right when it reads them afterwards
            ops = gen_ops(rng, c, rng.randint(1, nops), q_rate=rng.choice([0.0, 0.0, 0.3]))
            if rng.random() < 0.3:
                # the same chart object started again after some events
                ops += [(0, rng.randrange(1, c.n + 1))] + [(1, rng.randrange(c.nsig)) for _ in range(rng.randint(0, 2))]
        else:
            ops = gen_ops(rng, c, rng.randint(1, nops), q_rate=0.15)
        cases.append((c, ops, "random", getattr(c, "malformed", None)))
    if focus == "C22":
        # queries whose answer lies several hundred levels outward of the current state
        for D in (rng.choice([251, 256, 270]), rng.choice([300, 400])):
            parent = {i: i - 1 for i in range(1, D + 1)}
            c = charts.GenChart(D, parent, {i: {} for i in range(1, D + 1)}, {}, nsig=1)
            ops = [(0, D), (2, 0), (2, rng.randint(1, 3)), (3, rng.randint(1, 3)), (3, 0), (2, D - 1), (1, 0)]
            cases.append((c, ops, "deep-chain", None))
            run.count("chain of %d nested states, queries about its outermost states from the innermost" % D)
    if focus in ("C01", "C03"):
        # nesting far beyond what a random tree reaches: a chain of ~300 states, one initial transition that jumps ~260-290 levels
        for D in (rng.choice([280, 300, 320]), rng.choice([266, 270, 275])):
            parent = {i: i - 1 for i in range(1, D + 1)}
            c = charts.GenChart(D, parent, {i: {} for i in range(1, D + 1)}, {}, nsig=2)
            k = rng.randint(2, 6)
            c.react[1][0] = ("T", k)
            c.init[k] = D - rng.randint(0, 2)
            c.react[D][1] = ("T", rng.randint(1, 4))
            ops = [(0, rng.randint(1, k)), (1, 0), (1, 1)] if focus == "C01" else [(0, k)]
            cases.append((c, ops, "deep-chain", None))
            run.count("chain of %d nested states, init jump of %d levels" % (D, c.init[k] - k))
    if exhaustive_n:
        cases += exhaustive_cases(run, exhaustive_n, focus)
    model_out = batch([(c, ops) for c, ops, _, _ in cases], "hsm")
    spec_out = batch([(c, ops) for c, ops, _, _ in cases], "hsmspec")
    for (c, ops, src, mal), mo, so in zip(cases, model_out, spec_out):
        host = hosts[run.evaluations % len(hosts)]
        spied = host != "plain" and (run.evaluations // len(hosts)) % 2 == 0
        if focus in ("C22", "C23") and (run.evaluations // (2 * len(hosts))) % 3 == 0:
            # decorated handlers on a host without instrumentation
            host, spied = ("plain", True) if host == "plain" else ("queued-off", True)
        if focus == "C23" and src == "random" and (run.evaluations // 5) % 5 == 2 and mal is None:
            c.same_names = True                   # all state functions carry the same __name__ (stamped out by one closure factory)
            run.count("every state function has the same __name__")
        if focus in ("C01", "C02", "C03", "C24") and not spied and src == "random" and (run.evaluations // 5) % 6 == 1:
            c.node_style = True                   # states are bound methods of one function on different objects
            run.count("states are the same method bound to different objects")
        if host in ("queued", "queued-off") and src == "random" and (run.evaluations // 7) % 4 == 0 and not getattr(c, "node_style", False) \
                and not getattr(c, "same_names", False):
            c.parent_via_callback = True        # handlers in the register_parent style asking `chart.parent_callback()`
            run.count("handlers ask the chart for their parent (parent_callback without argument)")
        if focus == "C23" and spied is True and src == "random" and mal is None and ops and ops[0][0] == 0 and (run.evaluations // 3) % 4 == 2:
            # mixed decoration: the start state carries the decorator (the host is instrumented), some other states do not
            keep = set(i for i in range(1, c.n + 1) if (i * 7 + run.evaluations) % 3 != 0)
            keep.add(ops[0][1])
            spied = sorted(keep)
            run.count("only some states carry the spy decorator")
        if focus in ("C01", "C03") and src == "random" and mal is None and (run.evaluations // 3) % 5 == 1:
            c.silent_actions = True               # entry actions and transition-less init actions end with a bare `return`
            run.count("entry / init actions that return no status")
        if focus == "C24" and src == "random" and (run.evaluations // 3) % 5 == 2:
            # user signals whose names contain braces, percent signs, blanks ...: a name is only a name
            charts.SIGNAL_NAMES = [charts.ODD_SIGNAL_NAMES[(run.evaluations + k) % len(charts.ODD_SIGNAL_NAMES)] for k in range(c.nsig)]
            run.count("user signals with odd names (braces, %, blanks)")
        try:
            real, hsm, fns = charts.run_real(c, ops, host=host, spied=spied)
        finally:
            odd_names, charts.SIGNAL_NAMES = charts.SIGNAL_NAMES, None
        model = mo.split(" | ")
        spec = so.split(" | ")
        cj = case_json(c, ops, {"host": host, "spied": spied, "malformed": mal})
        if odd_names:
            cj["signal_names"] = odd_names
        # ---- tie: complete call trace, every op ----
        ok = len(real) == len(model) and all(same_step(m, r) for m, r in zip(model, real))
        run.traces_validated += 1
        run.count("depth=%d" % c.depth())
        if not ok:
            run.disagree("hsm full call trace", cj, model, real)
        # ---- oracle ----
        interesting = oracle(run, focus, c, ops, real, spec, cj, mal)
        if focus == "C22":
            for idx, a, what in getattr(hsm, "_vp_identity", []):
                run.violate("C22/child_state-not-a-state-of-the-chart", "child_state(%d) returned %s, which is none of the state functions the chart "
                            "was built from (host %s, %s)" % (a, what, host, "spied" if spied else "not spied"), cj_upto(cj, idx))
        if focus in ("C22", "C23") and mal is None:
            interesting = name_oracle(run, focus, c, ops, real, hsm, cj, host, spied) or interesting
        if focus == "C22" and mal is None:
            purity_oracle(run, c, ops, real, cj, host, spied)
            if run.evaluations % 3 == 0:
                foreign_query_oracle(run, c, ops, real, hsm, fns, cj, host, spied)
            if run.evaluations % 4 == 0:
                second_object_oracle(run, c, ops, real, fns, cj, host, spied)
        run.case(cj, nontrivial=interesting)


def exhaustive_cases(run, n, focus):
    """all trees with ≤ n states × every (cur, S→T) single transition × every single init assignment"""
    out = []
    for k in range(1, n + 1):
        for parent in charts.all_trees(k):
            base = charts.GenChart(k, parent, {i: {} for i in range(1, k + 1)}, {}, nsig=1)
            for S in range(1, k + 1):
                for T in range(1, k + 1):
                    inits = [(None, None)] + [(T, d) for d in base.desc(T)]
                    for (i0, d0) in inits:
                        for cur in [S] + base.desc(S):
                            c = charts.GenChart(k, parent, {i: {} for i in range(1, k + 1)}, {}, nsig=1)
                            c.react[S][0] = ("T", T)
                            if i0:
                                c.init[i0] = d0
                            # start directly in `cur` (it must rest there: no init of its own)
                            if c.init.get(cur):
                                continue
                            out.append((c, [(0, cur), (1, 0)], "exhaustive", None))
    run.exhaustive = True
    run.count("exhaustive_cases", len(out))
    return out


def oracle(run, focus, c, ops, real, spec, cj, mal):
    """compare the implementation with the Lean spec on the focus property; returns 'non-trivial?'"""
    interesting = False
    cur = None
    for idx, (o, a) in enumerate(ops):
        if idx >= len(real):
            break
        r = parse(real[idx])
        s = parse(spec[idx]) if idx < len(spec) else None
        if focus == "C24":
            # the checked spec says where a malformed chart must raise
            if s is None:
                break
            if s["kind"] == "raise":
                interesting = True
                run.count("must raise: %s via %s" % ((mal or ["?"])[0], "start_at" if o == 0 else "dispatch"))
                if r["kind"] != "raise":
                    run.violate("C24/no-raise/%s/%s" % ((mal or ["?"])[0], "start_at" if o == 0 else "dispatch"),
                                "malformed chart (%s): %s ended with '%s' instead of HsmTopologyException; calls made: %s"
                                % (mal, "start_at(%d)" % a if o == 0 else "dispatch(E%d) in state %s" % (a, cur),
                                   r["kind"], r["log"][:40]), cj_upto(cj, idx))
                break
            if r["kind"] == "raise":
                run.violate("C24/spurious-raise", "op %s raised HsmTopologyException on a part of the chart that is well formed"
                            % ((o, a),), cj_upto(cj, idx))
                break
            if r["kind"] == "ok" and s["kind"] == "ok" and o in (0, 1):
                if actions(r["log"]) != s["log"] or r["state"] != s["state"]:
                    run.violate("C24/wrong-states", "op %s on a chart with a malformed element elsewhere: actions %s expected %s"
                                % ((o, a), actions(r["log"]), s["log"]), cj_upto(cj, idx))
            if r["kind"] != "ok":
                break
            cur = r["state"]
            continue
        if r["kind"] != "ok":
            if not (o == 3 and s and s["kind"] == "assert" and r["kind"] == "assert"):
                run.violate("%s/unexpected-%s" % (focus, r["kind"]),
                            "well-formed chart: op %s ended with %s" % ((o, a), r["kind"]), cj_upto(cj, idx))
            elif o == 3:
                if focus == "C22":
                    interesting = True
                    run.count("child_state fails (not enclosing)")
                    if r["state"] != cur or r["temp"] != cur:
                        run.violate("C22/failed-child_state-changes-state",
                                    "child_state(%d) failed as it must, but left state=%s temp=%s (current state %s)"
                                    % (a, r["state"], r["temp"], cur), cj_upto(cj, idx))
                continue        # the caller caught the AssertionError; the script goes on
            break
        if s is None or s["kind"] != "ok":
            if o == 3 and focus == "C22":
                run.violate("C22/child_state-no-failure",
                            "child_state(%d) returned %s although the state does not enclose the current state %s"
                            % (a, r["res"], cur), cj_upto(cj, idx))
            break
        if o == 0 and focus == "C03":
            interesting = True
            run.count("start depth=%d" % c.depth_of(a))
            if actions(r["log"]) != s["log"] or r["state"] != s["state"]:
                run.violate("C03/start_at", "start_at(%d): actions %s, expected %s; state %s, expected %s" % (
                    a, actions(r["log"]), s["log"], r["state"], s["state"]), cj_upto(cj, idx))
            if any(x.endswith(".ex") for x in r["log"]):
                run.violate("C03/start_at-exit", "start_at ran an exit action", cj_upto(cj, idx))
        if o == 1:
            tran = any(x.endswith((".ex", ".en", ".in")) for x in s["log"])
            offered = [x for x in s["log"] if re.search(r"\.u\d+$", x)]
            if focus == "C01" and tran:
                interesting = True
                S = int(offered[-1].split(".")[0])
                T = c.react[S][a][1]
                run.count("topology " + topology(c, int(cur), S, T))
                if c.init.get(T):
                    run.count("target has init")
                if actions(r["log"]) != s["log"] or r["state"] != s["state"] or r["temp"] != r["state"]:
                    run.violate("C01/dispatch", "dispatch(E%d) in state %s: actions %s, UML order %s; ends in %s, expected %s"
                                % (a, cur, actions(r["log"]), s["log"], r["state"], s["state"]), cj_upto(cj, idx))
            if focus == "C02":
                if not tran:
                    interesting = True
                    run.count("no-transition step, %d offers" % len(offered))
                    if any(x.endswith(".em") for x in r["log"]):
                        run.count("guard fall-through")
                    if actions(r["log"]) != s["log"] or r["state"] != cur or r["temp"] != cur:
                        run.violate("C02/no-change", "dispatch(E%d) in state %s is handled/ignored but actions=%s state=%s"
                                    % (a, cur, actions(r["log"]), r["state"]), cj_upto(cj, idx))
                # offers order for every step
                got = [x for x in r["log"] if re.search(r"\.u\d+$", x)]
                if got != offered:
                    run.violate("C02/offers", "dispatch(E%d) in state %s offered to %s, expected %s" % (a, cur, got, offered),
                                cj_upto(cj, idx))
        if o == 2 and focus == "C22":
            interesting = True
            run.count("is_in " + ("true" if s["res"] == "1" else "false"))
            if r["res"] != s["res"]:
                run.violate("C22/is_in", "is_in(%d) in state %s returned %s" % (a, cur, r["res"]), cj_upto(cj, idx))
            if r["state"] != cur or r["temp"] != cur:
                run.violate("C22/is_in-changes-state", "is_in(%d) left state=%s temp=%s (was %s)" % (a, r["state"], r["temp"], cur),
                            cj_upto(cj, idx))
        if o == 3 and focus == "C22":
            interesting = True
            run.count("child_state ok")
            if r["res"] != s["res"]:
                run.violate("C22/child_state", "child_state(%d) in state %s returned %s, expected %s" % (a, cur, r["res"], s["res"]),
                            cj_upto(cj, idx))
            if r["state"] != cur or r["temp"] != cur:
                run.violate("C22/child_state-changes-state", "child_state(%d) left state=%s temp=%s" % (a, r["state"], r["temp"]),
                            cj_upto(cj, idx))
        cur = r["state"]
    return interesting


def name_oracle(run, focus, c, ops, real, hsm, cj, host, spied):
    """state_name / state_fn / current_state() after every op (C23) and after queries (C22)"""
    names = getattr(hsm, "_vp_names", [])
    hit = False
    for idx, (o, a) in enumerate(ops):
        if idx >= len(names) or idx >= len(real):
            break
        r = parse(real[idx])
        if r["kind"] not in ("ok", "assert"):
            break
        # (a child_state query the chart refuses - AssertionError, which the caller may catch - leaves the names as they were too)
        cur = int(r["state"])
        want = "state" if getattr(c, "same_names", False) else "s%d" % cur
        nm = names[idx]
        is_query = o in (2, 3)
        if focus == "C22" and not is_query:
            continue
        hit = True
        run.count("name check host=%s spied=%s %s" % (host, "some states" if isinstance(spied, list) else spied, "query" if is_query else "step"))
        site = ("is_in" if o == 2 else "child_state") if is_query else ("start_at" if o == 0 else "dispatch")
        if nm["state_name"] != want:
            run.violate("%s/state_name/%s/%s" % (focus, site, "spied" if spied else "unspied"),
                        "%s host, %s chart: after %s(%d) in state %s state_name is %r" % (
                            host, "spied" if spied else "un-spied", site, a, want, nm["state_name"]), cj_upto(cj, idx))
        if nm["state_fn"] != cur:
            run.violate("%s/state_fn/%s" % (focus, site),
                        "after %s(%d) state_fn is the handler of state %s, current state is %s" % (site, a, nm["state_fn"], cur),
                        cj_upto(cj, idx))
        if nm["current_state"] is not None and nm["current_state"] != want and focus == "C23":
            run.violate("C23/current_state", "current_state() returned %r in state %s" % (nm["current_state"], want),
                        cj_upto(cj, idx))
    return hit


def second_object_oracle(run, c, ops, real, fns, cj, host, spied):
    """the same state functions on a SECOND chart object of the same class: every query answers as on the first"""
    real2, hsm2, _ = charts.run_real(c, ops, host=host, spied=spied, builder=lambda log, spied=False, counter=None: fns)
    run.count("queries repeated on a second object sharing the state functions")
    for i, (o, a) in enumerate(ops):
        if i >= len(real) or i >= len(real2):
            break
        r1, r2 = parse(real[i]), parse(real2[i])
        if r1["kind"] != r2["kind"] or (o in (2, 3) and r1.get("res") != r2.get("res")) or r1.get("state") != r2.get("state"):
            run.violate("C22/second-object", "op %s on a second chart object that uses the same state functions: %s; on the first object: %s"
                        % ((o, a), real2[i].split(" log=")[0], real[i].split(" log=")[0]), cj_upto(cj, i))
            return


def foreign_query_oracle(run, c, ops, real, hsm, fns, cj, host, spied):
    """queries whose argument is NOT a state of this chart although it looks like one: the function of the like-named state of a
    second build of the same design (a distinct function object with the same __name__), another chart object's `top`:
    is_in answers False, child_state fails, the chart stays where it is"""
    if not real or parse(real[-1])["kind"] != "ok" or len(real) != len(ops):
        return
    cur = int(parse(real[-1])["state"])
    if cur <= 0:
        return
    twins = c.build([], spied=spied)
    other = type(hsm)()
    path = c.path(cur)
    run.count("queries with a like-named function that is not a state of this chart")
    for i in path[:3] + [0]:
        arg = twins[i] if i else other.top
        what = "the like-named state function s%d of another build of the design" % i if i else "another chart object's top"
        try:
            res = hsm.is_in(arg)
        except Exception as ex:  # noqa
            res = "raised %s" % type(ex).__name__
        if res is not False:
            run.violate("C22/is_in-foreign-argument", "in state s%d, is_in(%s) answered %r" % (cur, what, res), cj)
            return
        try:
            got = hsm.child_state(arg)
            run.violate("C22/child_state-foreign-argument", "in state s%d, child_state(%s) returned %s instead of failing"
                        % (cur, what, getattr(got, "__name__", got)), cj)
            return
        except AssertionError:
            pass
        except Exception as ex:  # noqa
            run.violate("C22/child_state-foreign-argument", "in state s%d, child_state(%s) raised %s" % (cur, what, type(ex).__name__), cj)
            return
        if hsm.state.fun is not fns[cur] or hsm.temp.fun is not fns[cur]:
            run.violate("C22/query-changes-state", "after queries with %s the chart's state/temp handlers are %s/%s, it was in s%d"
                        % (what, getattr(hsm.state.fun, "__name__", "?"), getattr(hsm.temp.fun, "__name__", "?"), cur), cj)
            return


def purity_oracle(run, c, ops, real, cj, host, spied):
    """the same script without its queries must give the same steps"""
    if not any(o in (2, 3) for o, _ in ops):
        return
    keep = [i for i, (o, _) in enumerate(ops) if o in (0, 1)]
    # only meaningful while the original run did not stop early
    keep = [i for i in keep if i < len(real) and parse(real[i])["kind"] == "ok"]
    ops2 = [ops[i] for i in keep]
    real2, _, _ = charts.run_real(c, ops2, host=host, spied=spied)
    for j, i in enumerate(keep):
        if j >= len(real2) or real2[j] != real[i]:
            run.violate("C22/later-behaviour", "step %s behaves differently when the preceding is_in/child_state queries are removed: %s vs %s"
                        % (ops[i], real[i], real2[j] if j < len(real2) else None), cj_upto(cj, i))
            return
    run.count("purity replay")


def cj_upto(cj, idx):
    d = dict(cj)
    d["ops"] = cj["ops"][:idx + 1]
    return d


def explore_orthogonal(run, focus, n):
    """a second chart object driven synchronously from the first one's entry / exit / init actions (the orthogonal-component
    pattern): what the first chart does must be what it does alone (Lean model of chart A alone)"""
    rng = run.rng
    cases = []
    for _ in range(n):
        a = charts.gen_chart(rng, nmax=9)
        b = charts.gen_chart(rng, nmax=7)
        ops = gen_ops(rng, a, rng.randint(1, 5), q_rate=0.1)
        trig = {}
        for i in range(1, a.n + 1):
            for kind in ("en", "ex", "in"):
                if rng.random() < 0.35:
                    trig[(i, kind)] = rng.randrange(b.nsig)
        cases.append((a, b, ops, trig, rng.randrange(1, b.n + 1)))
    model_out = batch([(a, ops) for a, _, ops, _, _ in cases], "hsm")
    for (a, b, ops, trig, bstart), mo in zip(cases, model_out):
        blog = []
        bh = charts.probed_class(mhsm.HsmEventProcessor)()
        bf = b.build(blog, counter=bh._vp_count)
        berr = []
        started = [False]
        late_start = (len(cases) + bstart) % 2 == 0        # half of the cases: chart B is started from one of A's actions
        if not late_start:
            try:
                bh.start_at(bf[bstart])
                started[0] = True
            except Exception as ex:  # noqa
                berr.append(type(ex).__name__)

        def eff(chart, i, kind, e):
            if (i, kind) in trig and not berr:
                try:
                    bh._vp_calls = 0
                    if not started[0]:
                        started[0] = True
                        bh.start_at(bf[bstart])
                    else:
                        bh.dispatch(charts.ev(trig[(i, kind)]))
                except (mhsm.HsmTopologyException, charts.Diverged) as ex:
                    berr.append(type(ex).__name__)
        real, hsm, fns = charts.run_real(a, ops, host="plain",
                                         builder=lambda log, spied=False, counter=None: a.build(log, spied=spied, counter=counter, effects=eff))
        model = mo.split(" | ")
        cj = case_json(a, ops, {"orthogonal": b.to_json(), "triggers": [[i, k, sg] for (i, k), sg in trig.items()], "bstart": bstart})
        run.traces_validated += 1
        run.count("two charts, the second dispatched to from the first one's actions")
        if berr:
            run.count("second chart stopped (%s)" % berr[0])
        ok = len(real) == len(model) and all(same_step(m, r) for m, r in zip(model, real))
        if not ok:
            first = next((i for i, (m, r) in enumerate(zip(model, real)) if not same_step(m, r)), min(len(model), len(real)))
            run.violate("%s/other-chart-interferes" % focus, "chart A's op %s behaves differently when its entry/exit/init actions dispatch events "
                        "to another chart object: %s; alone (model): %s" % (ops[first] if first < len(ops) else "?",
                                                                             real[first][:200] if first < len(real) else None,
                                                                             model[first][:200] if first < len(model) else None), cj)
        run.case(cj, nontrivial=bool(trig))


def explore_fallthrough(run, n):
    """C24, second kind of malformed handler (oracle only; the Lean model's malformed handlers answer the parent search): one
    state whose handler falls off the end of its if/elif ladder, i.e. returns no status for every signal it has no clause for,
    the parent search included.  Whatever start_at / dispatch does, it must end normally or raise HsmTopologyException - never
    loop, never fail otherwise"""
    rng = run.rng
    gen = []
    for _ in range(n):
        c = charts.gen_chart(rng, nmax=9)
        bad = rng.randrange(1, c.n + 1)
        c.fallthrough = {bad}
        if rng.random() < 0.15:
            c.fallthrough.add(rng.randrange(1, c.n + 1))
        if rng.random() < 0.3:
            # another slip: an exit clause that does its work and forgets `return HANDLED` (no status for EXIT only); the Lean
            # model has no such handler, so these charts are judged by the oracle alone
            c.fallthrough = set()
            c.exit_none = {bad}
        start = rng.randrange(1, c.n + 1)
        ops = [(0, start)] + [(1, rng.randrange(c.nsig)) for _ in range(rng.randint(1, 5))]
        gen.append((c, bad, ops, rng.choice(["plain", "plain", "instr", "queued"]), rng.random() < 0.5))
    model_out = leanrun.run_driver([c.encode(ops, family="hsmf") for c, _, ops, _, _ in gen])
    for (c, bad, ops, host, want_spied), mo in zip(gen, model_out):
        exit_only = bool(getattr(c, "exit_none", None))
        saved = charts.CALL_LIMIT
        charts.CALL_LIMIT = 3000
        try:
            out, hsm, fns = charts.run_real(c, ops, host=host, spied=host != "plain" and want_spied)
        finally:
            charts.CALL_LIMIT = saved
        cj = case_json(c, ops, {"host": host, "fallthrough": sorted(c.fallthrough)})
        run.traces_validated += 1
        model = mo.split(" | ")
        if exit_only:
            cj["exit_none"] = sorted(c.exit_none)
            run.count("exit clause without a status")
        elif not (len(out) == len(model) and all(same_step(m, r) for m, r in zip(model, out))):
            run.disagree("hsm full call trace, charts with fall-through handlers (family hsmf)", cj, model, out)
        run.count("fall-through handler: " + ("raise" if out[-1].startswith("raise") else out[-1].split(" ")[0].split(":")[0]))
        if out[-1].startswith("diverge"):
            run.violate("C24/fallthrough-diverges", "a state whose handler returns no status for signals it has no clause for (state %d): op %s "
                        "never ended (more than 3000 handler calls) instead of raising HsmTopologyException" % (bad, ops[len(out) - 1]), cj)
        elif out[-1].startswith("error"):
            run.violate("C24/fallthrough-other-exception", "a fall-through handler (state %d): op %s ended with %s"
                        % (bad, ops[len(out) - 1], out[-1].split(" ")[0]), cj)
        run.case(cj, nontrivial=True)


def explore_ao_names(run, n):
    """C23 on the active-object host (oracle only): named and un-named ActiveObjects (an un-named one derives a name by querying its
    start state), decorated or not; right after start_at returns - before any event - state_name / state_fn name the state the
    chart settled in (reference: the plain processor on the same chart), and again after one event has been processed"""
    import miros.activeobject as mao
    import dsched
    rng = run.rng
    for _ in range(n):
        c = charts.gen_chart(rng, nmax=7)
        start = rng.randrange(1, c.n + 1)
        with_init = [i for i in range(1, c.n + 1) if c.init.get(i)]
        if with_init and rng.random() < 0.7:
            start = rng.choice(with_init)             # the chart settles below the state it is started at
        sig = rng.randrange(c.nsig)
        named = rng.random() < 0.5
        spied = rng.random() < 0.7 or not named       # (an un-named object asks its start state for its name: only decorated states answer that)
        ref, _, _ = charts.run_real(c, [(0, start), (1, sig)], host="plain")
        if len(ref) < 2 or parse(ref[0])["kind"] != "ok" or parse(ref[1])["kind"] != "ok":
            continue
        want0, want1 = int(parse(ref[0])["state"]), int(parse(ref[1])["state"])
        got = {}
        errors = []
        with dsched.Installed():
            sched = dsched.Sched(dsched.round_robin_chooser(), max_steps=6000, trace=False)
            dsched.Sched.current = sched
            try:
                ao = mao.ActiveObject(name="N") if named else mao.ActiveObject()
                log = []
                fns = c.build(log, spied=spied)

                def driver():
                    ao.start_at(fns[start])
                    got["after_start"] = (getattr(ao, "state_name", None), getattr(getattr(ao, "state_fn", None), "__name__", None))
                    ao.post_fifo(charts.ev(sig))
                    me = sched.me()
                    sched.yield_point("driver.settle", enabled=lambda: all(t is me or t.finished or not sched.is_enabled(t) for t in sched.threads))
                    got["after_event"] = (getattr(ao, "state_name", None), getattr(getattr(ao, "state_fn", None), "__name__", None))
                    ao.stop()
                sched.spawn(driver, (), name="D")
                sched.run()
                for t in sched.threads:
                    if t.error is not None:
                        errors.append("%s: %s: %s" % (t.name, type(t.error).__name__, t.error))
            finally:
                sched.shutdown()
        cj = case_json(c, [(0, start), (1, sig)], {"host": "active", "named": named, "spied": spied})
        run.count("active-object host (%s, %s): names after start_at and after an event" % ("named" if named else "un-named", "spied" if spied else "un-spied"))
        run.traces_validated += 1
        if errors:
            run.violate("C23/thread-error", "active object %s: %s" % ("named" if named else "un-named", errors[:2]), cj)
        else:
            for when, want in (("after_start", want0), ("after_event", want1)):
                if when in got and got[when] != ("s%d" % want, "s%d" % want):
                    run.violate("C23/state_name/active-object/%s" % ("named" if named else "unnamed"),
                                "%s %s active object: %s state_name / state_fn are %s, the chart is in s%d"
                                % ("named" if named else "un-named", "spied" if spied else "un-spied",
                                   "right after start_at(%d) returned" % start if when == "after_start" else "after one event", got[when], want), cj)
                    break
        run.case(cj, nontrivial=True)


def explore_super_none(run, n, strict=True):
    """C24, a third slip (oracle only): the handler's final else moves temp.fun to its parent and forgets to return SUPER, so it
    gives no status to the parent search (and to any event it has no clause for) although the search "works".  A dispatch in
    which that handler is asked and answers nothing must raise HsmTopologyException, and so must a start_at (strict: the source
    checks every parent query, translator tag cfg.superGuard); nothing loops or fails otherwise"""
    rng = run.rng
    for _ in range(n):
        c = charts.gen_chart(rng, nmax=8)
        bad = rng.randrange(1, c.n + 1)
        stateful = rng.random() < 0.5
        if stateful:
            # the slip shows only once the handler's own exit action has run (its answer depends on data that action changes)
            c.super_none_after_exit = {bad}
            c.exith[bad] = True
        else:
            c.super_none = {bad}
        start = rng.randrange(1, c.n + 1)
        if stateful and c.desc(bad) and rng.random() < 0.7:
            start = rng.choice(c.desc(bad))
        ops = [(0, start)] + [(1, rng.randrange(c.nsig)) for _ in range(rng.randint(1, 4))]
        host = rng.choice(["plain", "plain", "instr", "queued"])
        saved = charts.CALL_LIMIT
        charts.CALL_LIMIT = 3000
        c.none_log = []
        try:
            out, hsm, fns = charts.run_real(c, ops, host=host, spied=host != "plain" and rng.random() < 0.5)
        finally:
            charts.CALL_LIMIT = saved
        answers = [r.get("none_answers", []) for r in getattr(hsm, "_vp_names", [])]
        cj = case_json(c, ops, {"host": host, "super_none": [bad], "after_exit": stateful})
        run.traces_validated += 1
        last = out[-1]
        run.count("handler that names its parent but returns no status: " + ("raise" if last.startswith("raise") else last.split(" ")[0].split(":")[0]))
        if last.startswith("diverge"):
            run.violate("C24/super-none-diverges", "state %d names its parent without returning a status: op %s never ended (more than 3000 "
                        "handler calls)" % (bad, ops[len(out) - 1]), cj)
        elif last.startswith("error"):
            run.violate("C24/super-none-other-exception", "state %d names its parent without returning a status: op %s ended with %s"
                        % (bad, ops[len(out) - 1], last.split(" ")[0]), cj)
        else:
            for idx, o in enumerate(out):
                r = parse(o)
                # the calls of this op in which the handler really returned no status (its own record)
                asked = [k for _, k in (answers[idx] if idx < len(answers) else [])]
                if strict and asked and r["kind"] == "ok":
                    run.violate("C24/no-raise/none-status/%s" % ("dispatch" if ops[idx][0] == 1 else "start_at"),
                                "state %d gave no status when it was asked %s during %s: the call ended normally (state %s) instead of raising "
                                "HsmTopologyException" % (bad, asked[:3], "dispatch(E%d)" % ops[idx][1] if ops[idx][0] == 1 else "start_at(%d)" % ops[idx][1],
                                                          r["state"]), cj_upto(cj, idx))
                    break
        run.case(cj, nontrivial=True)


def source_depth_literals(lo=600, hi=150000):
    """integer literals of hsm.py between lo and hi: a bound the event processor may (now) put on a search or a path"""
    import ast
    src = open(mhsm.__file__).read()
    return sorted({n.value for n in ast.walk(ast.parse(src)) if isinstance(n, ast.Constant) and isinstance(n.value, int)
                   and not isinstance(n.value, bool) and lo < n.value <= hi})


def explore_literal_depths(run, focus):
    """sizes driven by the source: for every integer literal L of hsm.py in (600, 150000] a chain of L + 50 nested states -
    start_at the innermost, an event only the outermost state handles, an event nobody handles, queries about the outermost
    states (oracle only: the outcome is computed here, not by the model). On the pinned source there is no such literal (the
    largest are 250 and 500, covered by the deep-chain cases of the tie)"""
    for L in source_depth_literals():
        D = L + 50
        parent = {i: i - 1 for i in range(1, D + 1)}
        c = charts.GenChart(D, parent, {i: {} for i in range(1, D + 1)}, {}, nsig=2)
        c.react[1][0] = ("H",)
        ops = [(0, D), (1, 0), (1, 1), (2, 1), (3, 1), (1, 0)]
        saved = charts.CALL_LIMIT
        charts.CALL_LIMIT = 20 * D
        try:
            out, hsm, fns = charts.run_real(c, ops, host="plain")
        finally:
            charts.CALL_LIMIT = saved
        run.traces_validated += 1
        run.count("chain of %d nested states (source literal %d + 50)" % (D, L))
        cj = {"what": "literal-depth", "depth": D, "literal": L, "ops": ops}
        want_kinds = ["ok", "ok", "ok", "ok", "ok", "ok"]
        got = [parse(o) for o in out]
        problem = None
        if [g["kind"] for g in got] != want_kinds:
            problem = "the ops ended with %s" % [o.split(" log=")[0][:40] for o in out]
        else:
            entered = [x for x in got[0]["log"] if x.endswith(".en")]
            offered = [x for x in got[1]["log"] if x.endswith(".u0")]
            if any(g["state"] != str(D) for g in got):
                problem = "the chart did not stay in the innermost state: %s" % [g["state"] for g in got]
            elif len(entered) != sum(1 for i in range(1, D + 1) if c.entryh[i]) or len(offered) != D or offered[0] != "%d.u0" % D or offered[-1] != "1.u0":
                problem = "start_at entered %d states, E0 was offered to %d states (first %s, last %s)" % (len(entered), len(offered), offered[:1], offered[-1:])
            elif got[3]["res"] != "1" or got[4]["res"] != "2":
                problem = "is_in(outermost) = %s, child_state(outermost) = %s" % (got[3]["res"], got[4]["res"])
        if problem:
            run.violate("%s/deep-chain-%d" % (focus, D), "a chain of %d nested states (hsm.py contains the literal %d): %s" % (D, L, problem), cj)
        run.case(cj, nontrivial=True)


class SensorLost(Exception):
    pass


def explore_raising_query(run, n):
    """C22 when a handler on the active path raises while a query consults it (a precondition on chart data that an earlier event
    invalidated): the query about a state outward of it has no answer - the handler's exception reaches the caller; it must not be
    turned into an answer (oracle only)"""
    rng = run.rng
    for _ in range(n):
        c = charts.gen_chart(rng, nmax=8)
        start = rng.randrange(1, c.n + 1)
        host = rng.choice(["plain", "instr", "queued", "queued-off"])
        spied = host != "plain" and rng.random() < 0.5
        armed = [False]
        bad_holder = [None]

        def eff(chart, i, kind, e):
            if armed[0] and i == bad_holder[0] and kind == "su":
                raise SensorLost("state %d lost its sensor" % i)
        out, hsm, fns = charts.run_real(c, [(0, start)], host=host, spied=spied,
                                        builder=lambda log, spied=False, counter=None: c.build(log, spied=spied, counter=counter, effects=eff))
        r0 = parse(out[0])
        if r0["kind"] != "ok":
            continue
        path = c.path(int(r0["state"]))          # innermost first
        if len(path) < 2:
            continue
        k = rng.randrange(0, len(path) - 1)
        bad_holder[0] = path[k]
        outward = path[k + 1:]
        inward = path[:k + 1]
        armed[0] = True
        cj = case_json(c, [(0, start)], {"host": host, "spied": spied, "raises_on_parent_query": bad_holder[0]})
        run.count("query while a handler on the active path raises when consulted")
        run.traces_validated += 1
        # (one query per chart object: a query that was cut short by an exception leaves the search cursor where it was)
        for x in [rng.choice(outward) if rng.random() < 0.7 else rng.choice(inward)]:
            try:
                ans = hsm.is_in(fns[x])
                got = "answered %s" % ans
            except SensorLost:
                got = "raised"
            want_raise = x in outward
            if want_raise and got != "raised":
                run.violate("C22/is_in-swallows-exception", "in state %d, state %d raises when it is asked for its parent; is_in(%d) - a state that encloses "
                            "both - %s instead of letting the exception through" % (path[0], bad_holder[0], x, got), cj)
            elif not want_raise and got != "answered True":
                run.violate("C22/is_in", "in state %d, is_in(%d) (the raising state %d lies outward of it or is it) %s" % (path[0], x, bad_holder[0], got), cj)
        run.case(cj, nontrivial=True)


def explore_guard_none(run, n):
    """C24, a fourth slip (oracle only): a guarded state declines an event (UNHANDLED) and has no answer when the processor then
    asks it for its parent with the EMPTY signal (it answers the ordinary parent search, entry, exit and init properly, so it can
    be entered). Offering it the guarded event must raise HsmTopologyException - no other exception, no normal return"""
    rng = run.rng
    for _ in range(n):
        c = charts.gen_chart(rng, nmax=8)
        bad = rng.randrange(1, c.n + 1)
        k = rng.randrange(c.nsig)
        c.react[bad][k] = ("U",)
        c.empty_none = {bad}
        # start in the guarded state or below it, where nothing answers the event before it reaches the guard
        cands = [j for j in [bad] + c.desc(bad) if all(k not in c.react[x] for x in c.path(j)[:c.path(j).index(bad)])]
        start = rng.choice(cands)
        ops = [(0, start), (1, k)]
        host = rng.choice(["plain", "instr", "queued", "queued-off"])
        out, hsm, fns = charts.run_real(c, ops, host=host, spied=host != "plain" and rng.random() < 0.5)
        cj = case_json(c, ops, {"host": host, "empty_none": [bad]})
        run.traces_validated += 1
        run.count("guarded state without an answer to the EMPTY re-query")
        if len(out) < 2 or not parse(out[0])["kind"] == "ok":
            run.case(cj, nontrivial=False)      # the start itself does not settle below the guard (initial transitions lead elsewhere)
            continue
        r0 = parse(out[0])
        path_now = c.path(int(r0["state"]))
        reaches = bad in path_now and all(k not in c.react[x] for x in path_now[:path_now.index(bad)])
        if reaches and not out[1].startswith("raise"):
            run.violate("C24/no-raise/none-status/empty-requery", "state %d declines E%d (UNHANDLED) and returns no status to the EMPTY signal "
                        "that follows: dispatch ended with %r instead of raising HsmTopologyException" % (bad, k, out[1].split(" log=")[0]), cj)
        run.case(cj, nontrivial=reaches)


def replay(case):
    cc = case.get("case", case)
    if cc.get("what") == "literal-depth":
        D = cc["depth"]
        c = charts.GenChart(D, {i: i - 1 for i in range(1, D + 1)}, {i: {} for i in range(1, D + 1)}, {}, nsig=2)
        c.react[1][0] = ("H",)
        charts.CALL_LIMIT = 20 * D
        out = charts.run_real(c, [tuple(o) for o in cc["ops"]], host="plain")[0]
        print("impl :", [o.split(" log=")[0] + " (%d handler calls)" % (o.count(",") + 1) for o in out])
        return 0
    c = charts.GenChart.from_json(case["case"]["chart"] if "case" in case else case["chart"])
    ops = [tuple(o) for o in cc["ops"]]
    if "orthogonal" in cc:
        print("two-chart case: re-run the check with the recorded VERIF_SEED; chart A:", cc["chart"], "ops", cc["ops"], "chart B:", cc["orthogonal"],
              "triggers", cc["triggers"])
        return 0
    if "empty_none" in cc:
        c.empty_none = set(cc["empty_none"])
    if "super_none" in cc:
        if cc.get("after_exit"):
            c.super_none_after_exit = set(cc["super_none"])
        else:
            c.super_none = set(cc["super_none"])
        charts.CALL_LIMIT = 3000
        print("impl :", charts.run_real(c, ops, host=cc.get("host", "plain"))[0])
        return 0
    if "fallthrough" in cc:
        ft = cc["fallthrough"]
        c.fallthrough = set(ft if isinstance(ft, list) else [ft])
        c.exit_none = set(cc.get("exit_none", []))
        charts.CALL_LIMIT = 3000
        print("impl :", charts.run_real(c, ops, host=cc.get("host", "plain"))[0])
        print("model:", leanrun.run_driver([c.encode(ops, family="hsmf")])[0].split(" | "))
        return 0
    charts.SIGNAL_NAMES = cc.get("signal_names")
    real, _, _ = charts.run_real(c, ops, host=cc.get("host", "plain"), spied=cc.get("spied", False))
    charts.SIGNAL_NAMES = None
    model = batch([(c, ops)], "hsm")[0].split(" | ")
    spec = batch([(c, ops)], "hsmspec")[0].split(" | ")
    for i, o in enumerate(ops):
        print("op", o)
        print("  impl :", real[i] if i < len(real) else "-")
        print("  model:", model[i] if i < len(model) else "-")
        print("  spec :", spec[i] if i < len(spec) else "-")
    return 0
