"""C30 — SingletonDecorator with constructors that refuse some requests, several requests per thread: tie to the Lean model
`Miros.Conc.SingleInit` (driver family `singleinit`).

Every shared access of `SingletonDecorator.__call__` is a labelled scheduling point: reads / writes of `instance` (through a
property put on a subclass of the real class: the real `__call__` runs unchanged), the RLock (dsched.DRLock), the decorated
class's `__new__` and `__init__`.  One label = one step of the model, so the recorded schedule is replayed on the model step
by step: before each step the model's program counter of the moving thread must name the access the real thread is about to
make, and at the end the outcomes of all requests, the stored instance, the initialised / failed objects must be equal."""
import itertools
import random

import dsched
import leanrun
import miros.singleton as msing

PC_LABEL = {"idle": "req", "check": "inst.get", "acquire": "lock.acquire", "check2": "inst.get", "alloc": "K.new",
            "storeEarly": "inst.set", "initRun": "K.init", "store": "inst.set", "rollback": "inst.set",
            "release": "lock.release", "releaseRaised": "lock.release", "read": "inst.get"}


def real_run(progs, chooser, max_steps=4000):
    """progs: per thread a list of booleans (does the constructor accept this request?)"""
    saved = msing.RLock if hasattr(msing, "RLock") else None
    if saved is not None:
        msing.RLock = dsched.DRLock
    sched = dsched.Sched(chooser, max_steps=max_steps)
    dsched.Sched.current = sched
    try:
        counter = itertools.count()
        inited, failed = [], []

        class K:
            def __new__(cls, *a, **k):
                sched.yield_point("K.new")
                o = object.__new__(cls)
                o.oid = next(counter)
                o.ready = False
                return o

            def __init__(self, arg=None):
                sched.yield_point("K.init")
                if arg is not None:
                    failed.append(self.oid)
                    raise TypeError("K takes no argument")
                self.ready = True
                inited.append(self.oid)

        class Traced(msing.SingletonDecorator):
            @property
            def instance(self):
                sched.yield_point("inst.get")
                return self.__dict__["_inst"]

            @instance.setter
            def instance(self, v):
                sched.yield_point("inst.set")
                self.__dict__["_inst"] = v

        dec = msing.SingletonDecorator(K)
        lock = getattr(dec, "_lock", None)
        if lock is not None:
            sched.name_obj(lock, "lock")
        dec.__dict__["_inst"] = dec.__dict__.pop("instance")
        dec.__class__ = Traced
        outs = [[] for _ in progs]

        def mk(i):
            def f():
                for ok in progs[i]:
                    sched.yield_point("req")
                    try:
                        r = dec() if ok else dec("refused-argument")
                    except TypeError:
                        outs[i].append("r")
                        continue
                    outs[i].append("n" if r is None else "o%d" % r.oid if hasattr(r, "oid") else "?%r" % (r,))
            return f
        for i in range(len(progs)):
            sched.spawn(mk(i), (), name="T%d" % i)
        outcome = sched.run()
        errors = ["%s: %s: %s" % (t.name, type(t.error).__name__, t.error) for t in sched.threads if t.error is not None]
        steps = [(int(e[0][1:]), e[1]) for e in sched.trace if e[0].startswith("T") and e[1] != "begin"]
        inst = dec.__dict__.get("_inst")
        return {"full": [e[0] for e in sched.trace if e[0].startswith("T")], "steps": steps, "errors": errors, "outcome": outcome, "outs": outs, "inited": list(inited), "failed": list(failed),
                "inst": None if inst is None else getattr(inst, "oid", "?"), "objects": next(counter),
                "lock_free": lock is None or getattr(lock, "_owner", None) is None}
    finally:
        sched.shutdown()
        if saved is not None:
            msing.RLock = saved


def driver_line(tag, progs, sched):
    return "singleinit %s %d %s %d %s" % (tag, len(progs), " ".join("%d %s" % (len(p), " ".join("1" if ok else "0" for ok in p)) if p else "0"
                                                                   for p in progs), len(sched), " ".join(map(str, sched)))


def parse(out):
    d = {}
    for tok in out.split():
        if "=" in tok:
            k, v = tok.split("=", 1)
            d[k] = v
    return d


def fmt_real(res):
    return {"inst": "-" if res["inst"] is None else str(res["inst"]), "next": str(res["objects"]),
            "inited": ",".join(map(str, res["inited"])) or "-", "failed": ",".join(map(str, res["failed"])) or "-",
            "outs": ",".join(".".join(o) or "-" for o in res["outs"]), "lock": "-" if res["lock_free"] else "held"}


def oracle(run, res, progs, cj):
    """the property itself, without the model"""
    if res["errors"]:
        run.violate("C30/error", "a thread failed: %s" % res["errors"][:2], cj)
    if res["outcome"] != "quiescent":
        run.violate("C30/stuck", "the requests did not all finish: %s" % res["outcome"], cj)
    got = [o for outs in res["outs"] for o in outs if o not in ("r",)]
    objs = set(got)
    if "n" in objs or any(o.startswith("?") for o in objs) or len(objs) > 1:
        run.violate("C30/two-instances", "requests returned %s (o<k> = object number k, n = None) — more than one object, or none" % res["outs"], cj)
    for o in objs:
        if o.startswith("o") and (int(o[1:]) not in res["inited"] or str(res["inst"]) != o[1:]):
            run.violate("C30/two-instances", "a request returned object %s, the initialised objects are %s, the instance kept is %s (failed "
                        "initialisers: %s)" % (o, res["inited"], res["inst"], res["failed"]), cj)
    for i, (p, outs) in enumerate(zip(progs, res["outs"])):
        if len(outs) != len(p) and not res["errors"] and res["outcome"] == "quiescent":
            run.violate("C30/lost-request", "thread %d made %d requests and got %d outcomes" % (i, len(p), len(outs)), cj)
        for ok, o in zip(p, outs):
            if ok and o == "r":
                run.violate("C30/refused", "a request with acceptable arguments raised", cj)


def explore(run, n_random):
    rng = run.rng
    done = []
    for k in range(n_random):
        n = rng.randint(2, 3)
        style = rng.random()
        progs = []
        for i in range(n):
            m = rng.randint(1, 3)
            if style < 0.35:
                progs.append([rng.random() < 0.5 for _ in range(m)])
            elif style < 0.7:
                # the refused requests come first (nothing is cached while they run), an accepted one follows
                progs.append([False] * rng.randint(0, 2) + [True] * rng.randint(0, 1) if i else [False, True][:m] + [True])
            else:
                progs.append([i != 0] * m if rng.random() < 0.5 else [i == 0] + [True] * (m - 1))
        if not any(ok for p in progs for ok in p):
            progs[-1].append(True)
        seed = rng.randrange(1 << 30)
        r2 = random.Random(seed)
        chooser = dsched.pct_chooser(r2, depth=r2.randint(1, 3), est_len=60) if r2.random() < 0.6 else dsched.random_chooser(r2)
        res = real_run(progs, chooser)
        cj = {"what": "singleton-init", "progs": progs, "seed": seed, "schedule": [s[0] for s in res["steps"]], "full": res["full"]}
        run.count("singleton: %d threads, refused and accepted requests mixed" % n)
        oracle(run, res, progs, cj)
        run.case(cj, nontrivial=True)
        done.append((progs, res, cj))
    # model replay: one line per prefix (pcs before each step) + the full schedule
    lines, index = [], []
    for ci, (progs, res, cj) in enumerate(done):
        sch = [s[0] for s in res["steps"]]
        for k in range(len(sch) + 1):
            lines.append(driver_line("9", progs, sch[:k]))
            index.append((ci, k))
    outs = leanrun.run_driver(lines) if lines else []
    per = {}
    for (ci, k), o in zip(index, outs):
        per.setdefault(ci, {})[k] = o
    for ci, (progs, res, cj) in enumerate(done):
        run.traces_validated += 1
        sch = res["steps"]
        bad = None
        for k, (ti, label) in enumerate(sch):
            o = per[ci][k]
            if "DISABLED" in o or "pcs=" not in o:
                bad = (o, "a state line")
                break
            pcs = parse(o)["pcs"].split(",")
            pc = pcs[ti].split(":")[0] if ti < len(pcs) else "?"
            if PC_LABEL.get(pc) != label:
                bad = (o, "step %d: thread %d performs %s; the model's thread is at %s" % (k, ti, label, pc))
                break
        if bad is None:
            o = per[ci][len(sch)]
            m = parse(o)
            want = fmt_real(res)
            got = {"inst": m.get("inst"), "next": m.get("next"), "inited": m.get("inited"), "failed": m.get("failed"), "outs": m.get("outs"),
                   "lock": "-" if m.get("lock") == "-" else "held"}
            if got != want or m.get("blocked") != "0":
                bad = (o, "final: %s" % want)
        if bad is not None:
            run.disagree("SingletonDecorator with refusing constructors, one step per shared access", cj, bad[0], bad[1])


def replay(case):
    c = case.get("case", case)
    res = real_run(c["progs"], dsched.scripted_chooser(c["full"], then=dsched.round_robin_chooser()))
    print({k: v for k, v in res.items() if k not in ("full",)})
    return 0
