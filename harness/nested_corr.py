"""C30 — a singleton first requested from inside the constructors of other singletons: tie to the Lean model
`Miros.Conc.SingleNested` (driver family `singlenested`).

Three decorated classes: I (decorator 0) and two outer ones, A and B (decorators 1, 2), whose constructors ask for I - as
ActiveFabric and the instrumentation writer both ask for the run event.  Every shared access of `SingletonDecorator.__call__`
is a labelled scheduling point (reads / writes of each decorator's `instance` through a property on a subclass, its RLock as
dsched.DRLock, the allocation of each object, the nested call), one label per step of the model: the recorded schedule is
replayed on the model, the model's program counter is compared with the access before every step, and at the end the
instances, the objects constructed (in order) and what every requester got."""
import itertools
import random

import dsched
import leanrun
import miros.singleton as msing

NAMES = {0: "I", 1: "A", 2: "B"}
PC_KIND = {"check": ("inst.get",), "acquire": ("lock.acquire",), "check2": ("inst.get",), "construct": ("alloc", "call.inner"),
           "construct2": ("alloc",), "store": ("inst.set",), "release": ("lock.release",), "read": ("inst.get",)}


def real_run(reqs, chooser, max_steps=4000):
    saved = msing.RLock if hasattr(msing, "RLock") else None
    if saved is not None:
        msing.RLock = dsched.DRLock
    sched = dsched.Sched(chooser, max_steps=max_steps)
    dsched.Sched.current = sched
    try:
        counter = itertools.count()
        made = []

        class Traced(msing.SingletonDecorator):
            @property
            def instance(self):
                sched.yield_point(self.__dict__["_vp_name"] + ".inst.get")
                return self.__dict__["_inst"]

            @instance.setter
            def instance(self, v):
                sched.yield_point(self.__dict__["_vp_name"] + ".inst.set")
                self.__dict__["_inst"] = v

        def traced(cls, name):
            dec = msing.SingletonDecorator(cls)
            lock = getattr(dec, "_lock", None)
            if lock is not None:
                sched.name_obj(lock, name + ".lock")
            dec.__dict__["_inst"] = dec.__dict__.pop("instance")
            dec.__dict__["_vp_name"] = name
            dec.__class__ = Traced
            return dec

        class I:
            def __init__(self):
                sched.yield_point("I.alloc")
                self.oid = next(counter)
                made.append((0, self.oid))
        Inner = traced(I, "I")

        def outer(d):
            class O:
                def __init__(self):
                    sched.yield_point("call.inner")
                    self.inner = Inner()
                    sched.yield_point(NAMES[d] + ".alloc")
                    self.oid = next(counter)
                    made.append((d, self.oid))
            O.__name__ = NAMES[d]
            return traced(O, NAMES[d])
        decs = {0: Inner, 1: outer(1), 2: outer(2)}
        rets = [None] * len(reqs)

        def mk(i):
            def f():
                r = decs[reqs[i]]()
                inner = r if reqs[i] == 0 else getattr(r, "inner", None)
                rets[i] = (getattr(r, "oid", None), getattr(inner, "oid", None))
            return f
        for i in range(len(reqs)):
            sched.spawn(mk(i), (), name="T%d" % i)
        outcome = sched.run()
        errors = ["%s: %s: %s" % (t.name, type(t.error).__name__, t.error) for t in sched.threads if t.error is not None]
        insts = [getattr(decs[d].__dict__.get("_inst"), "oid", None) for d in (0, 1, 2)]
        return {"full": [e[0] for e in sched.trace if e[0].startswith("T")],
                "steps": [(int(e[0][1:]), e[1]) for e in sched.trace if e[0].startswith("T") and e[1] != "begin"],
                "errors": errors, "outcome": outcome, "rets": rets, "made": list(made), "insts": insts,
                "later": getattr(Inner(), "oid", None)}
    finally:
        sched.shutdown()
        if saved is not None:
            msing.RLock = saved


def oracle(run, res, reqs, cj):
    if res["errors"] or res["outcome"] != "quiescent":
        run.violate("C30/error", "nested first requests: %s" % (res["errors"][:2] or res["outcome"]), cj)
        return
    inner = set(r[1] for r in res["rets"] if r is not None)
    n_inner = sum(1 for d, _ in res["made"] if d == 0)
    if any(r is None or r[0] is None or r[1] is None for r in res["rets"]) or len(inner) != 1 or n_inner != 1 or inner != {res["later"]}:
        run.violate("C30/two-instances", "requests %s (0 = the inner singleton, 1 / 2 = singletons whose constructors ask for it) made at the same time: "
                    "objects constructed (decorator, object) %s; the requesters got (object, inner object) %s; a later request for the inner one gets %s"
                    % (reqs, res["made"], res["rets"], res["later"]), cj)
    for d in (1, 2):
        objs = set(r[0] for r, q in zip(res["rets"], reqs) if q == d)
        if len(objs) > 1:
            run.violate("C30/two-instances", "requesters of outer singleton %d got objects %s" % (d, sorted(objs, key=repr)), cj)


def explore(run, n_random):
    rng = run.rng
    done = []
    for _ in range(n_random):
        nt = rng.randint(2, 3)
        reqs = [rng.choice([0, 1, 2, 1, 2]) for _ in range(nt)]
        if all(q == 0 for q in reqs):
            reqs[0] = 1
        seed = rng.randrange(1 << 30)
        r2 = random.Random(seed)
        chooser = dsched.pct_chooser(r2, depth=r2.randint(1, 3), est_len=40) if r2.random() < 0.6 else dsched.random_chooser(r2)
        res = real_run(reqs, chooser)
        cj = {"what": "singleton-nested-steps", "reqs": reqs, "seed": seed, "schedule": [s[0] for s in res["steps"]], "full": res["full"]}
        run.count("singleton first requested through %s at the same time (one step per shared access)" % "+".join(NAMES[q] for q in sorted(reqs)))
        oracle(run, res, reqs, cj)
        run.case(cj, nontrivial=True)
        done.append((reqs, res, cj))
    lines, index = [], []
    for ci, (reqs, res, cj) in enumerate(done):
        sch = [s[0] for s in res["steps"]]
        for k in range(len(sch) + 1):
            lines.append("singlenested 9 %d %s %d %s" % (len(reqs), " ".join(map(str, reqs)), k, " ".join(map(str, sch[:k]))))
            index.append((ci, k))
    outs = leanrun.run_driver(lines) if lines else []
    per = {}
    for (ci, k), o in zip(index, outs):
        per.setdefault(ci, {})[k] = o
    for ci, (reqs, res, cj) in enumerate(done):
        run.traces_validated += 1
        sch = res["steps"]
        bad = None
        for k, (ti, label) in enumerate(sch):
            o = per[ci][k]
            if "DISABLED" in o or "pcs=" not in o:
                bad = (o, "a state line")
                break
            pcs = dict(t.split("=", 1) for t in o.split() if "=" in t)["pcs"].split(",")
            pc = pcs[ti] if ti < len(pcs) else "?"
            kind = label.split(".", 1)[1] if label != "call.inner" else "call.inner"
            if kind not in PC_KIND.get(pc, ()):
                bad = (o, "step %d: thread %d performs %s; the model's thread is at %s" % (k, ti, label, pc))
                break
        if bad is None:
            o = per[ci][len(sch)]
            m = dict(t.split("=", 1) for t in o.split() if "=" in t)
            fmt = lambda x: "-" if x is None else str(x)
            want = {"insts": ",".join(fmt(x) for x in res["insts"]), "made": ",".join("%d:%d" % p for p in res["made"]) or "-",
                    "rets": ",".join("-" if r is None else "%s/%s" % (fmt(r[0]), fmt(r[1])) for r in res["rets"])}
            got = {k: m.get(k) for k in want}
            if got != want or m.get("blocked") != "0":
                bad = (o, "final: %s" % want)
        if bad is not None:
            run.disagree("nested first requests of singletons, one step per shared access", cj, bad[0], bad[1])


def replay(case):
    c = case.get("case", case)
    res = real_run(c["reqs"], dsched.scripted_chooser(c["full"], then=dsched.round_robin_chooser()))
    print({k: v for k, v in res.items() if k != "full"})
    return 0
