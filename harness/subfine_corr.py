"""C06 / C07 — `ActiveFabricSource.subscribe` at the granularity of its registry accesses: tie to the Lean model
`Miros.Conc.SubFine` (driver family `subfine`).

The registry of the real fabric object is replaced by a dict whose look-up (`in`) and item assignment are labelled scheduling
points, its lists by lists whose iteration (the membership test) and `append` are; the lock is the scheduler's.  One label =
one step of the model: the recorded schedule is replayed on the model, the model's program counter is compared with the
access before every step, and at the end the registry and the order in which the calls returned."""
import collections
import random

import dsched
import leanrun
import miros.activeobject as mao
from miros.event import Event

PC_LABEL = {"idle": "call.subscribe", "acquire": "sublock.acquire", "look": "reg.contains", "test": "list.iter", "append": "list.append",
            "create": "reg.setitem", "release": "sublock.release", "releaseThenTest": "sublock.release"}


def real_run(init, progs, kind, chooser, max_steps=4000):
    """init: {sig: [queue numbers]}; progs: per thread [(sig, queue number)]"""
    with dsched.Installed():
        sched = dsched.Sched(chooser, max_steps=max_steps)
        dsched.Sched.current = sched
        try:
            class TList(list):
                def append(self, x):
                    sched.yield_point("list.append")
                    list.append(self, x)

                def __iter__(self):
                    sched.yield_point("list.iter")
                    return list.__iter__(self)

            class TDict(dict):
                def __contains__(self, k):
                    sched.yield_point("reg.contains")
                    return dict.__contains__(self, k)

                def __setitem__(self, k, v):
                    sched.yield_point("reg.setitem")
                    dict.__setitem__(self, k, TList(v))
            class TLock(dsched.DLock):
                def release(self):
                    sched.yield_point("sublock.release")            # (the scheduler's own lock releases without a step of its own)
                    dsched.DLock.release(self)
            af = mao.ActiveFabricSource()
            if hasattr(af, "subscription_lock"):
                af.subscription_lock = TLock()
                sched.name_obj(af.subscription_lock, "sublock")
            reg = TDict()
            nq = 1 + max([q for qs in init.values() for q in qs] + [q for p in progs for _, q in p])
            queues = [collections.deque(maxlen=5) for _ in range(nq)]
            for sig, qs in init.items():
                dict.__setitem__(reg, "SF%d" % sig, TList(queues[q] for q in qs))
            if kind == "fifo":
                af.fifo_subscriptions = reg
            else:
                af.lifo_subscriptions = reg
            done = []

            def mk(p):
                def f():
                    for sig, q in p:
                        sched.yield_point("call.subscribe")
                        af.subscribe(queues[q], Event(signal="SF%d" % sig), queue_type=kind)
                        done.append((sig, q))
                return f
            for i, p in enumerate(progs):
                sched.spawn(mk(p), (), name="T%d" % i)
            outcome = sched.run()
            errors = ["%s: %s: %s" % (t.name, type(t.error).__name__, t.error) for t in sched.threads if t.error is not None]
            final = [(int(k[2:]) if str(k)[2:].isdigit() else -1, [next((i for i, q in enumerate(queues) if q is x), -1) for x in (list.__iter__(v) if isinstance(v, list) else [v])]) for k, v in dict.items(reg)]
            return {"full": [e[0] for e in sched.trace if e[0].startswith("T")],
                    "steps": [(int(e[0][1:]), e[1]) for e in sched.trace if e[0].startswith("T") and e[1] != "begin"],
                    "errors": errors, "outcome": outcome, "reg": final, "done": list(done), "finished": all(t.finished for t in sched.threads)}
        finally:
            sched.shutdown()


def line(tag, init, progs, sch):
    toks = ["subfine", tag, len(init)]
    for sig, qs in init.items():
        toks += [sig, len(qs)] + list(qs)
    toks += [len(progs)]
    for p in progs:
        toks += [len(p)] + [x for c in p for x in c]
    toks += [len(sch)] + list(sch)
    return " ".join(map(str, toks))


def explore(run, focus, n_random):
    rng = run.rng
    done = []
    for _ in range(n_random):
        nsig = rng.randint(1, 2)
        init = {}
        for sgn in range(1, nsig + 1):
            if rng.random() < 0.6:
                init[sgn] = rng.sample(range(3), rng.randint(1, 2))
        nt = rng.randint(2, 3)
        # (threads subscribing the SAME queue to the same signal - an object subscribing from its handler and from outside - are the interesting ones)
        hot = (rng.randint(1, nsig), rng.randrange(4))
        progs = [[hot if rng.random() < 0.6 else (rng.randint(1, nsig), rng.randrange(4)) for _ in range(rng.randint(1, 2))] for _ in range(nt)]
        kind = rng.choice(["fifo", "lifo"])
        seed = rng.randrange(1 << 30)
        r2 = random.Random(seed)
        chooser = dsched.pct_chooser(r2, depth=r2.randint(1, 3), est_len=50) if r2.random() < 0.6 else dsched.random_chooser(r2)
        res = real_run(init, progs, kind, chooser)
        cj = {"what": "subscribe-steps", "init": {str(k): v for k, v in init.items()}, "progs": progs, "kind": kind, "seed": seed,
              "schedule": [s[0] for s in res["steps"]], "full": res["full"]}
        run.count("subscribe calls of %d threads, one step per registry access" % nt)
        # the property itself
        if res["errors"] or not res["finished"]:
            run.violate("%s/subscribe-race-failed" % focus, "concurrent subscribe calls: %s" % (res["errors"][:2] or "a call never returned"), cj)
        else:
            want = {}
            for sgn, qs in init.items():
                want.setdefault(sgn, set()).update(qs)
            for p in progs:
                for sgn, q in p:
                    want.setdefault(sgn, set()).add(q)
            got = dict(res["reg"])
            dup = {s: qs for s, qs in got.items() if len(set(qs)) != len(qs)}
            lost = {s: sorted(want[s] - set(got.get(s, []))) for s in want if want[s] - set(got.get(s, []))}
            if dup:
                run.violate("%s/subscribed-twice" % focus, "after the subscribe calls %s (registry before: %s) the registry holds a queue more than once: %s - "
                            "every publication would reach it that often" % (progs, init, dup), cj)
            elif lost:
                run.violate("%s/subscription-lost" % focus, "after the subscribe calls %s (registry before: %s) all calls returned but the registry lacks %s"
                            % (progs, init, lost), cj)
        run.case(cj, nontrivial=True)
        done.append((init, progs, res, cj))
    lines, index = [], []
    for ci, (init, progs, res, cj) in enumerate(done):
        sch = [s[0] for s in res["steps"]]
        for k in range(len(sch) + 1):
            lines.append(line(9, init, progs, sch[:k]))
            index.append((ci, k))
    outs = leanrun.run_driver(lines) if lines else []
    per = {}
    for (ci, k), o in zip(index, outs):
        per.setdefault(ci, {})[k] = o
    for ci, (init, progs, res, cj) in enumerate(done):
        run.traces_validated += 1
        sch = res["steps"]
        bad = None
        for k, (ti, label) in enumerate(sch):
            o = per[ci][k]
            if "DISABLED" in o or "pcs=" not in o:
                bad = (o, "a state line")
                break
            pcs = dict(t.split("=", 1) for t in o.split() if "=" in t)["pcs"].split(",")
            pc = pcs[ti] if ti < len(pcs) else "?"
            if PC_LABEL.get(pc) != label:
                bad = (o, "step %d: thread %d performs %s; the model's thread is at %s" % (k, ti, label, pc))
                break
        if bad is None:
            o = per[ci][len(sch)]
            m = dict(t.split("=", 1) for t in o.split() if "=" in t)
            want = {"reg": ";".join("%d:%s" % (s, ".".join(map(str, qs))) for s, qs in res["reg"]) or "-",
                    "done": ",".join("%d:%d" % c for c in res["done"])}
            got = {"reg": m.get("reg"), "done": m.get("done", "")}
            if got != want or m.get("blocked") != "0":
                bad = (o, "final: %s" % want)
        if bad is not None:
            run.disagree("subscribe, one step per registry access", cj, bad[0], bad[1])


def replay(case):
    c = case.get("case", case)
    res = real_run({int(k): v for k, v in c["init"].items()}, [[tuple(x) for x in p] for p in c["progs"]], c["kind"],
                   dsched.scripted_chooser(c["full"], then=dsched.round_robin_chooser()))
    print({k: v for k, v in res.items() if k != "full"})
    return 0
