#!/usr/bin/env python3
"""Regenerate MANIFEST.json from the table below (keeps it schema-valid at all times)."""
import json, os

VERIF = os.path.dirname(os.path.dirname(os.path.abspath(__file__)))

NOTE_L1 = ("Trusted: Lean kernel + axioms {propext, Classical.choice, Quot.sound}; the ast translator of the "
           "site tags (resync / drillGuard / initGuard); the call-for-call correspondence run (faithful model vs "
           "real HsmEventProcessor on generated charts, this seed); chart class = handlers that answer each "
           "signal with HANDLED / UNHANDLED / SUPER-to-parent / TRAN (DESIGN §5).")

NOTE_CONC = ("Trusted: Lean kernel + axioms {propext, Classical.choice, Quot.sound}; the ast translator of the algorithm "
             "tags; the deterministic scheduler dsched (GIL atomicity of each deque/Queue/Event/Lock primitive, no "
             "preemption inside one) and the step-by-step schedule replay on this seed; queue.Queue / deque / "
             "PriorityQueue semantics as modelled (DESIGN §5).")

CHECKS = {
    # id: (technique, text, design_ref, note)
    "C02": ("Lean 4 proof by induction on the active path + model/impl call-trace correspondence",
            "Theorems over all charts / states / events: the faithful model of dispatch makes exactly the spec's "
            "offers (a prefix of the active path, innermost first, guard fall-through included) and, when the "
            "answer is handled/ignored, returns with state and cursor unchanged and no entry/exit/init call. "
            "The model is tied to hsm.py by a full call-trace correspondence on generated charts.",
            "§8 C02", NOTE_L1),
    "C01": ("Lean 4 refinement proof (faithful dispatch/trans_ model refines UML spec) + call-trace correspondence",
            "Theorem C01_dispatch_refines_spec: for every well-formed chart (any tree, any depth, any initial "
            "transitions into descendants), every current state and event, the faithful model of dispatch "
            "(entry-path buffer, max_index, topology cases a-g, init drill-down) succeeds and its action "
            "projection equals the UML spec's list exactly (offers, exits up to the boundary state, entries "
            "below it, initial-transition entries) and rests in the spec's state; lifted to event lists "
            "(C01_run). The proof uses the generated switch resync=true; C01_witness_unfixed proves the "
            "pre-repair algorithm wrong on a 7-deep chain. The model is tied to hsm.py by comparing every "
            "handler call on generated charts (three hosts); thorough adds all trees <=5 states exhaustively.",
            "§8 C01", NOTE_L1),
    "C03": ("Lean 4 refinement proof of start_at + call-trace correspondence",
            "Theorem C03_start: for every well-formed chart and start state the faithful model of init() "
            "enters the enclosing states outside-in, follows initial transitions, logs exactly the spec's "
            "actions, never exits, and rests in the last init target.", "§8 C03", NOTE_L1),
    "C24": ("Lean 4 proof: checked spec = none implies raise, some implies exact refinement, never diverges",
            "Theorems C24_dispatch_checked / C24_start_checked on arbitrary (possibly malformed) charts: where "
            "the checked UML spec says the chart is malformed at the point reached (init target not strictly "
            "inside its state, handler returning None) the model raises; elsewhere it does exactly what the "
            "spec says; it never diverges (C24_dispatch_no_diverge). Uses generated switches drillGuard and "
            "initGuard (the two repairs). C24_start_checked needs 0 < depth or no init at the start state "
            "(fuel artefact, proved necessary in the model by start_depth0_diverges). Handlers without a final else "
            "(no status and no parent for anything they have no clause for; Chart.fall, driver family hsmf): "
            "C24_fall_dispatch_checked / C24_fall_start_checked (spec-conformant, or a raise that touches the faulty state), "
            "C24_fall_*_no_diverge, C24_fall_not_touched.", "§8 C24", NOTE_L1),
    "C14": ("Lean 4 invariant proofs over arbitrary operation lists + per-operation correspondence",
            "Theorems over all queued charts, handler effect tables and client operation lists: next_rtc "
            "dispatches exactly the queue head, posts land at back/front (also from handlers, applied in "
            "call order), unique event objects are dispatched at most once (inductive invariant Inv), "
            "complete_circuit returns only with an empty queue, and each operation refines an abstract deque. "
            "Tie: queue, defer queue, dispatched list and call log compared after every operation. QUEUE_SIZE = None: the unbounded "
            "semantics (Queue/Unbounded.lean) equals the bounded run at every capacity that is never reached, output by output "
            "(C14_unbounded_is_large_cap(_trace), C14_unbounded_is_limit), nothing is ever evicted; driver capacity token U.",
            "§8 C14", NOTE_L1 + " collections.deque(maxlen) semantics are modelled, not verified."),
    "C15": ("Lean 4 invariant proofs + per-operation correspondence",
            "Theorems: recall returns the oldest deferred event and moves it to the back of the queue, returns "
            "none and changes nothing when nothing is deferred; deferred events are not dispatched without a "
            "recall (any operation list, charts whose handlers do not recall); deferral order is kept. The "
            "order statements need the explicit hypothesis that the defer queue (a bounded deque) does not "
            "overflow; C15_witness_defer_overflow proves it necessary. Re-entrant recall (model Queue.EagerRecall: a chart stepped at "
            "every post whose handler recalls): every deferred event dispatched at most once, nothing lost, deferral order kept, for "
            "every handler predicate and op list (generated tag recallPopsFirst); witnesses for peek-then-post-then-pop.", "§8 C15",
            NOTE_L1 + " collections.deque(maxlen) semantics are modelled, not verified."),
    "C16": ("Lean 4 invariant proofs (bounds, placement on full queues) + per-operation correspondence",
            "Theorems: after any operation list queue and defer queue hold at most cap entries (also at every "
            "point during a step; instantiated for the generated QUEUE_SIZE), posting is total (never blocks), "
            "on a full queue a fifo post keeps the new event last and a lifo post keeps it first. The "
            "LockingDeque half of the property (active objects) is decided by the concurrency layer.",
            "§8 C16", NOTE_L1 + " collections.deque(maxlen) semantics are modelled, not verified."),
    "C04": ("Lean 4 inductive invariants over all schedules of a one-primitive-per-step thread model + schedule-replay correspondence with the real threads",
            "Theorems over every schedule (List of thread ids), any number of posters, any finite fifo/lifo post lists, "
            "any capacity: the credit invariant len(deque) <= tokens + in-flight credits, hence at quiescence the queue is "
            "empty, every poster has returned and the consumer waits (no lost wake-up); bounds; no task_done/peek/pop "
            "error; unique events are dispatched at most once and conservation (posted = pending + queued + dispatched "
            "+ displaced); only the consumer thread dispatches; placement/pop steps refine an abstract deque. The model "
            "(LockingDeque.append/appendleft/__signal + run_event/next_rtc, generated algorithm tag) is tied to the code "
            "by replaying the schedule of real ActiveObject threads (deterministic scheduler) step by step.",
            "§8 C04, App. A", NOTE_CONC),
    "C05": ("Lean 4 termination proof by a strictly decreasing measure on every enabled step (all schedules) + schedule-replay correspondence",
            "Theorems: a post in progress is always enabled (posting never waits for another thread); a closed-form bound "
            "on the number of effective steps of EVERY schedule (no infinite execution exists, so no livelock, no fairness "
            "needed), also with handler self-posts under a ranking hypothesis; every quiescent state is 'done' (all posts "
            "returned, consumer waiting, queue empty) and every schedule extends to one; C05_witness_legacy: the earlier "
            "`while qsize != len: put` loop has a reachable lasso. Measure validated by exhaustive exploration of 3.6M "
            "states before the proof.", "§8 C05, App. A", NOTE_CONC),
    "C07": ("Lean 4 proof over all configurations and registries of the subscribe/publish decision logic + exhaustive configuration run on real active objects",
            "Theorems: for every configuration (instrumented or not, running or not, own thread or not) and every "
            "registry content, after subscribe() has taken effect the object's queue is registered; publish() reaches the "
            "fabric; meta events fall through to top. Witness theorems for the two repaired defects. Tie: all 216 "
            "configurations (quick: sample of 48) run on real ActiveObjects under the deterministic scheduler.",
            "§8 C07", NOTE_CONC),
    "C06": ("Lean 4 proofs about registry, delivery and fabric-event uniqueness over all schedules + schedule-replay correspondence",
            "Theorems: subscribe is idempotent, adds exactly the subscribing queue and never removes/duplicates others; the "
            "registry is exactly the set of subscribers; a delivery adds the event exactly once to exactly the registered "
            "queues; fabric events pending in a queue have distinct sequence numbers (processed at most once), each "
            "publish creates one per kind. Fine-grained model Conc.FabFine (one step per q.append, Python list-iterator "
            "semantics, subscribes interleaved with a delivery loop): C06_fine_at_most_once / exactly_once / order for every "
            "schedule, witness for a list-rewriting _subscribe; subscribe is one step because of the fabric's subscription "
            "lock (generated tag). Tie: real fabric threads under the deterministic scheduler, per step (families fab, fabfine). Model Conc.SubFine (subscribe per registry access, any threads): no duplicates, nothing lost, the registry equals the calls executed atomically in lock-acquisition order (and that atomic call is Fab.Registry.subscribe), resubscribing changes nothing; witnesses for a narrowed lock and for no lock; tied step by step (family subfine, generated tag fabSubscribeCoversAppend).",
            "§8 C06", NOTE_CONC),
    "C08": ("Lean 4 proofs: the binary heap under PriorityQueue (CPython's sift algorithms transcribed) keeps the heap condition and "
            "pops the (priority, sequence) minimum; it refines the list model; draining is sorted",
            "Theorems: minFE returns the least element in (priority, creation sequence) order; draining any queued content "
            "yields a sorted permutation (however far delivery lags); sequence numbers follow publish order. Heap model "
            "(Data.Heap: heappush / heappop / _siftdown / _siftup as in CPython, comparator = FabricEvent.__lt__): every "
            "reachable array is a heap, push/pop are permutations, pop returns what minFE returns, any put/get sequence on "
            "the heap yields the outputs of the list model, the drained order is sorted; witnesses for the priority-only "
            "comparator and for a broken layout. Tie: array layouts of a real PriorityQueue of real FabricEvents compared "
            "with the model after every operation.", "§8 C08", NOTE_CONC),
    "C09": ("Lean 4 proof of placement per subscription kind + correspondence",
            "Theorems: lifo delivery to an active object's queue puts the event at the front, fifo delivery at the back, "
            "for every prior queue content (generated tag lifoDeliver); witness for the earlier code. Any interleaving of atomic "
            "front / back operations by any number of threads leaves deliveries in front (newest first) and posts at the back "
            "(C09_race_layout); witness for a delivery split into test + operation.", "§8 C09", NOTE_CONC),
    "C13": ("Lean 4 invariant over all schedules and call sequences + schedule-replay correspondence",
            "Theorems: at most one live delivery thread per kind in every reachable state for any client programs; "
            "is_alive() reports exactly that both run; start keeps live threads and replaces dead ones; stop's joins "
            "complete only when the threads have finished; witness for the earlier start(). Dying delivery threads (model "
            "Conc.FabFault, call level): at most one thread per kind, start() repairs exactly the dead one, stop() returns, "
            "is_alive exact, for every call sequence; witness for a whole-fabric liveness test.", "§8 C13", NOTE_CONC),
    "C10": ("Lean 4 invariants over all schedules of the timer/clock model + schedule-replay correspondence with a virtual clock",
            "Theorems: a source with times=n activates at most n times and has posted exactly n when finished (absent "
            "cancellation); no posting is early and postings are at least a period apart; exact instants under lazy-clock "
            "schedules; fifo/lifo placement; times=0 never stops by itself. Partial by nature: virtual time, real-clock "
            "drift is not modelled.", "§8 C10", NOTE_CONC),
    "C11": ("Lean 4 proofs: scan selects exactly the matching sources; lock invariant; silence after cancel for every continuation",
            "Theorems: cancel_event/cancel_events select exactly the tracked sources with equal id / name (by value), "
            "touch no other source; lock held iff posting; after the cancelling call returns the source never places "
            "another event under any continuation schedule. Witnesses for the earlier code (identity comparison, "
            "unlocked check-then-post). The tracked-source list under concurrent timed posts and cancels (model Conc.Track, "
            "one step per list access): every source whose flag is set is in the list, in every reachable state; any "
            "schedule has the outcome of its calls executed one after the other in lock-acquisition order; a cancel removes "
            "exactly the matching records; witness for the list without its lock.", "§8 C11", NOTE_CONC),
    "C12": ("Lean 4 proofs on the AO system model + schedule-replay correspondence",
            "Theorems: stop()'s join completes only when the consumer thread has finished; afterwards no step changes the "
            "dispatch log; the run flag stays cleared; every tracked source is cancelled and silent. Handlers that arm timed "
            "sources while stop() is in progress (model Conc.AOArm, lock granularity, spurious wake-ups, cancel by name): "
            "after stop() returned every source is cancelled and untracked, nothing posts or steps, and stop() returns under "
            "every fair schedule; witness for a snapshot taken before the join. stop() called from one of the object's own "
            "handlers (model Conc.AOOwn): no run-to-completion step begins after the step that called stop(), the thread "
            "ends at its next loop test and stays ended, every source is cancelled, untracked and silent, and every fair "
            "schedule gets there; witnesses for a stop() that does not clear the run flag and for an uncaught join error. "
            "Source obligations: stop() clears the flag before appending STOP, guards the join of its own thread, and every "
            "use of the tracked-source list is under the object's lock.", "§8 C12", NOTE_CONC),
    "C31": ("Lean 4 one-step and invariant proofs + schedule-replay correspondence",
            "Theorems: a timed post at capacity creates no source (nothing can ever post for it) and returns the error "
            "result; accepted sources are tracked; tracked count never exceeds the capacity. Source obligation: the tracked "
            "list is bounded by the very expression the capacity test uses (subclasses that raise QUEUE_SIZE).", "§8 C31", NOTE_CONC),
    "C17": ("Lean 4 proof on top of the C01 refinement: template chart and to_code chart have the same spec + three-way run and ladder correspondence",
            "Theorems: the ladder printed by to_code answers every signal as the registration table does (stable priority "
            "order, missing ENTRY/INIT/EXIT filled with HANDLED, callbacks named `handled` inlined); the chart denoted by "
            "the template handlers and the chart denoted by the executed text differ only in how a state declines "
            "(SUPER vs UNHANDLED) and therefore have equal UML specs, hence (C01/C03) equal actions and states for every "
            "event sequence; any hand-written chart with the same reactions likewise. Tie: three real builds run side by "
            "side; every to_code text parsed and compared with the Lean ladder.", "§8 C17", NOTE_L1),
    "C18": ("Lean 4 proof that the instrumented host's chart/queue component is the plain queued chart's + run of every host/decorator/live configuration",
            "Theorems: the queue/chart component of the instrumented host evolves exactly as the un-instrumented queued "
            "chart (same dispatch = the plain processor), for all ring sizes; outputs (spy, trace, live) never feed back. "
            "Standing hypothesis: decorator detection agrees with the decorator (generated shape tags). Tie/oracle: each "
            "generated chart+script on plain/instrumented/queued/active-object hosts x spied/un-spied x live flags.",
            "§8 C18", NOTE_L1),
    "C19": ("Lean 4 proofs about the spy-line function of the call trace + line-by-line correspondence",
            "Theorems: the call lines of a step's spy log are exactly the handler invocations in order; HOOK iff a "
            "non-inner signal was answered HANDLED; markers follow the handlers' effects; reflection last; the full spy is "
            "the ring-truncated concatenation of the step logs. Hypothesis: a step makes at most rtcCap (250) calls. Tie: "
            "rtc spy after every operation, full spy, with real and reduced ring sizes.", "§8 C19", NOTE_L1),
    "C20": ("Lean 4 proof: a trace record iff the spec's answer is a transition + record-by-record correspondence",
            "Theorems: next_rtc appends exactly one record (previous state, signal, new state) iff the event caused a "
            "transition (via dispatch_user_calls = offers), none for handled/ignored; start appends the start record when "
            "the start path fits the 250-entry per-step ring; the trace is the ring-truncated list of all records. Two "
            "recorded findings in the excluded region (>250 handler calls in one step) are probed on every run.",
            "§8 C20", NOTE_L1),
    "C21": ("Lean 4 proof over operation lists (no clock parameter in the model) + correspondence under scripted clocks",
            "Theorems: every step hands exactly its step log to the live-spy callback, in order; live trace receives "
            "exactly the records appended, each once; trace = ring(liveTrace). The model has no time parameter (generated "
            "tag liveTraceById). Tie: real runs with fine, coarse, constant and backwards clocks. Model Instr.HandOver (callbacks that register another callback during the hand-over): every line once, in order, to the callback registered at that moment; witness for a hoisted look-up (generated tag liveSpyReadsCallbackEachLine).", "§8 C21", NOTE_L1),
    "C25": ("Lean 4 proofs: sequential registry laws + lock invariant over all schedules; lock-granularity replay and bytecode-granularity search",
            "Theorems: numbering is injective, positive, stable; name_for_signal inverts it; the inner signals are the "
            "generated ten; concurrent append under the registry lock keeps the dictionary well formed in every schedule "
            "and registers every name; witness for the unlocked code. One recorded finding: names that are dict-method "
            "names cannot be registered through attribute access.", "§8 C25", NOTE_CONC),
    "C26": ("Lean 4 proof of the round trip, including a model of CPython's JSON text codec (printer / parser round trip) + "
            "round-trip runs and text-level correspondence on the real code",
            "Theorems: for any codec with dec(enc j) = some j, loads(dumps(e)) has the same name, payload and the number the "
            "registry assigns (registering a new name). The codec itself (Text.JsonCodec: json.dumps defaults, the C scanner's "
            "json.loads, strings as code-point lists): dec(enc v) = some v for every float-free value of any depth whose "
            "strings hold no high+low surrogate pair; those are exactly the strings that survive (iff); the wire text is "
            "ASCII; hence the event round trip with no codec hypothesis. The surrogate-pair finding is a theorem of the "
            "model. Floats are outside the model (round-trip stream only).", "§8 C26", NOTE_L1),
    "C27": ("Lean 4 invariant proofs over all schedules of the get/set protocol + replay and bytecode-granularity search",
            "Theorems (statements correctly classified by the library): no release of an un-owned lock, lock free when all "
            "threads finish, an augmented assignment's write uses the value it read (no lost update, serialisable); "
            "witness for the earlier shared flag. Statement forms the classifier gets wrong are C28's findings.",
            "§8 C27", NOTE_CONC),
    "C28": ("Lean 4 proof by structural induction over a statement grammar (partial) + executed-statement correspondence",
            "Theorems: the pinned regex is equivalent to 'a class character directly before =', the leak formula, and "
            "C28_partial: statements of the safe sub-grammar leave the lock free; witness theorems for the four recorded "
            "finding classes (<= / >= comparisons, augmented assignment to another target, attribute read again in its own "
            "augmented assignment, op= in a trailing comment). The property does not hold for the whole grammar: those are "
            "known findings, printed on every run.", "§8 C28", NOTE_L1),
    "C29": ("Lean 4 proof of a last-write-per-instance store + operation-sequence correspondence",
            "Theorems: reads return the last value written to that instance, 0 before; writes to one instance do not "
            "change another's reads; witness for the earlier shared storage.", "§8 C29", NOTE_L1),
    "C30": ("Lean 4 invariant proof over all schedules and any number of threads + replay and bytecode-granularity search",
            "Theorems: at most one object is ever constructed, every returned reference is that object, quiescent states "
            "have all threads returned; witness for the unlocked code. Model Conc.SingleInit (constructors that refuse some requests, "
            "several requests per thread): every returned object is the one initialised object, nobody gets None, failed objects are "
            "never cached or returned, every request finishes, a later request constructs; witnesses for publish-before-initialise; "
            "tied step by step (one step per shared access, program counter compared before every step; generated tag "
            "singletonPublishesEarly). Model Conc.SingleNested (a singleton first requested from inside the constructors of other singletons): one object per decorator, every requester holds THE inner object, no deadlock; witness for a nested request that skips the lock; tied step by step (family singlenested, generated tag singletonNestedSkipsLock).", "§8 C30", NOTE_CONC),
    "C32": ("Lean 4 proofs about a character-level model of splitlines/strip/the timestamp pattern + string correspondence",
            "Theorems: the matcher removes the timestamp of every trace line (any padding), multi-line traces strip to "
            "their bodies whatever timestamps / blank lines / surrounding whitespace, a single line likewise (generated "
            "tag singleLineStripped), pattern pinned.", "§8 C32", NOTE_L1),
    "C22": ("Lean 4 proof by induction on the active path + call-trace correspondence + purity replay",
            "Theorems for every current state and argument: the faithful model of is_in returns true iff the "
            "argument is a suffix of (= is or encloses) the current path; child_state returns the spec's child, "
            "and fails iff the argument does not enclose the current state; both leave state and cursor "
            "unchanged, make only SEARCH_FOR_SUPER probes, and (generated switch queryRestoresName) leave "
            "state_name naming the current state. The oracle also replays each script without its queries.",
            "§8 C22", NOTE_L1),
    "C23": ("Lean 4 proof over the write sequence of state_name + implementation oracle on every host",
            "Theorem: for every call trace, decorator setting and number of host reflection calls, the last "
            "write to state_name/state_fn is the final state of the step (model Instr.nameAfterStep). The "
            "oracle reads state_name, state_fn and current_state() after every start_at/dispatch on plain, "
            "instrumented and queued hosts, spied and un-spied. Partial: the write sequence itself is modelled, "
            "only its last element is compared with the implementation.",
            "§8 C23", NOTE_L1),
}

PENDING = {}


def main():
    props = [json.loads(l) for l in open(os.path.join(VERIF, "properties.jsonl"))]
    checks, na = [], []
    for p in props:
        pid = p["id"]
        have_props = os.path.exists(os.path.join(VERIF, "lean", "MirosModel", "Props", pid + ".lean")) and \
            os.path.exists(os.path.join(VERIF, "harness", "props", pid + ".py"))
        if pid in CHECKS and have_props:
            tech, text, ref, note = CHECKS[pid]
            checks.append({
                "property_id": pid,
                "quick_cmd": "./check %s --tier quick" % pid,
                "thorough_cmd": "./check %s --tier thorough" % pid,
                "evidence_file": "evidence/%s.json" % pid,
                "replay_cmd_template": "./check %s --replay {path}" % pid,
                "engine": "lean4-model",
                "level_claimed": {"category": "proof", "text": text, "design_ref": ref},
                "level_note": note,
                "technique": tech,
            })
        else:
            na.append({"property_id": pid,
                       "reason": PENDING.get(pid, "not claimed yet: model/theorems for this property are still being "
                                                  "built (see DESIGN.md §13 for the order); no check is registered")})
    m = {
        "version": 1,
        "setup_cmd": "cd lean && lake build MirosModel " + " ".join(
            "MirosModel.Props." + f[:-5] for f in sorted(os.listdir(os.path.join(VERIF, "lean", "MirosModel", "Props")))
            if f.endswith(".lean")) + " 2>&1 | tail -5",
        "hooks": {
            "guard": "MIROS_VERIF",
            "enable": "none needed: the harness replaces module globals of miros from outside; the guard name is reserved and unused",
            "baseline_off_cmd": "cd /repo && /venv/bin/python -m pytest -ra -q -p no:cacheprovider --timeout=900 --continue-on-collection-errors",
            "source_commits": [],
            "add_only": True,
        },
        "engines": [{
            "name": "lean4-model", "path": "lean/",
            "serves_properties": sorted(CHECKS),
            "kind_free_text": "Lean 4 models + theorems (lean/MirosModel), translator harness/gen_constants.py, "
                              "correspondence harness (harness/*.py) driving lean/Driver.lean over a line protocol",
        }],
        "checks": checks,
        "not_applicable": na,
        "notes": "All checks: exit 0 pass, 1 VIOLATION, 2 check broken/timed out. Fix commits in /repo are listed in known_findings.json (fixed:).",
    }
    json.dump(m, open(os.path.join(VERIF, "MANIFEST.json"), "w"), indent=1)
    print("checks:", len(checks), "not_applicable:", len(na))


if __name__ == "__main__":
    main()
