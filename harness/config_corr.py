"""C18: the same generated chart and event script on every combination of decorator x host x live flags;
actions (offers, entries, exits, inits) and final state must be identical to the plain processor's.
Also C17's three chart styles reuse `run_config`."""
import os, sys, json, random
import charts, leanrun, dsched, hsm_corr
from charts import mhsm, Event, signals, return_status, Diverged
import miros.activeobject as mao

HOSTS = ("plain", "instr", "queued", "active")


def visible(log):
    return [(i, k) for i, k in log if k not in ("su", "em", "rf")]


def query_after(chart, i, kind, e, status):
    """a handler that asks the chart where it is after it has decided (e.g. after chart.trans(target)): harmless
    on every host / decorator / flag combination"""
    if (kind[0] == "u" or kind == "in") and hasattr(chart, "current_state"):
        chart.current_state()


def other_decorator_build(c):
    """state functions wrapped by a decorator that is NOT spy_on but written with functools.wraps (logging, timing, …)"""
    import functools

    def build(log, spied=False, counter=None, **kw):
        fns = c.build(log, spied=False, counter=counter, **kw)
        wrapped = {}

        def deco(fn):
            @functools.wraps(fn)
            def inner(chart, e):
                return fn(chart, e)
            return inner
        # transitions inside the handlers refer to `fns[...]`: replace the entries in place so that they reach the wrappers
        for i in list(fns):
            wrapped[i] = deco(fns[i])
        for i in wrapped:
            fns[i] = wrapped[i]
        return fns
    return build


def run_config(c, start, evs, host, spied, live_spy=False, live_trace=False, builder=None, query=False, live_at=0, reads=False):
    """returns (list of per-event visible call lists, final state id, error)
    live_at: when the live flags are switched on: 0 = before start_at, 1 = right after start_at, k + 1 = after k events"""
    log = []
    build = builder or c.build
    if query and builder is None:
        import functools
        build = functools.partial(c.build, after=query_after)
    per_step = []
    err = None
    try:
        if host in ("plain", "instr", "queued"):
            base = {"plain": mhsm.HsmEventProcessor, "instr": mhsm.InstrumentedHsmEventProcessor,
                    "queued": mhsm.HsmWithQueues}[host]
            hsm = charts.probed_class(base)()
            if host == "queued":
                if live_at == 0:
                    hsm.live_spy, hsm.live_trace = live_spy, live_trace
                hsm.register_live_spy_callback(lambda line: None)
                hsm.register_live_trace_callback(lambda line: None)
            c._host_has_parent_callback = hasattr(hsm, "register_parent")
            try:
                fns = build(log, spied=spied, counter=hsm._vp_count)
            finally:
                c._host_has_parent_callback = False
            if getattr(c, "parent_via_callback", False) and hasattr(hsm, "register_parent"):
                for i, f in fns.items():
                    hsm.register_parent(f, fns[c.parent[i]] if c.parent[i] else hsm.top)
            inv = {getattr(getattr(f, "__wrapped__", f), "__name__"): i for i, f in fns.items()}
            hsm.start_at(fns[start])
            per_step.append(visible(log))
            for k, n in enumerate(evs):
                if host == "queued" and live_at == k + 1:
                    hsm.live_spy, hsm.live_trace = live_spy, live_trace
                del log[:]
                hsm._vp_calls = 0
                if host == "queued":
                    hsm.post_fifo(charts.ev(n))
                    hsm.next_rtc()
                    if reads:
                        # the program looks at the instrumentation between steps (None / empty for charts that keep none)
                        keep = list(log)
                        hsm.spy(); hsm.trace(); hsm.spy_rtc()
                        if spied is True:
                            hsm.current_state()
                        log[:] = keep
                else:
                    hsm.dispatch(charts.ev(n))
                per_step.append(visible(log))
            final = charts.state_id(hsm.state.fun, inv)
        else:
            with dsched.Installed():
                sched = dsched.Sched(dsched.round_robin_chooser(), max_steps=20000, trace=False)
                dsched.Sched.current = sched
                try:
                    ao = mao.ActiveObject(name="A")
                    if live_at == 0:
                        ao.live_spy, ao.live_trace = live_spy, live_trace
                    ao.register_live_spy_callback(lambda line: None)
                    ao.register_live_trace_callback(lambda line: None)
                    marks = []

                    def counter():
                        pass
                    c._host_has_parent_callback = True
                    try:
                        fns = build(log, spied=spied, counter=counter)
                    finally:
                        c._host_has_parent_callback = False
                    if getattr(c, "parent_via_callback", False):
                        for i, f in fns.items():
                            ao.register_parent(f, fns[c.parent[i]] if c.parent[i] else ao.top)
                    inv = {getattr(getattr(f, "__wrapped__", f), "__name__"): i for i, f in fns.items()}
                    ao.start_at(fns[start])
                    if live_at >= 1:
                        ao.live_spy, ao.live_trace = live_spy, live_trace
                    per_step.append(visible(log))
                    del log[:]

                    def driver():
                        for n in evs:
                            ao.post_fifo(charts.ev(n))
                    sched.spawn(driver, (), name="D")
                    sched.run()
                    # split the single log into steps at each offered event's first call
                    cur = []
                    for i, k in visible(log):
                        if k[0] == "u" and cur and not (cur[-1][1][0] == "u"):
                            per_step.append(cur)
                            cur = []
                        cur.append((i, k))
                    if cur or len(per_step) < len(evs) + 1:
                        per_step.append(cur)
                    final = charts.state_id(ao.state.fun, inv)
                    for t in sched.threads:
                        if t.error is not None:
                            err = "%s: %s" % (type(t.error).__name__, t.error)
                finally:
                    sched.shutdown()
    except (mhsm.HsmTopologyException, Diverged) as ex:
        return per_step, None, type(ex).__name__
    except Exception as ex:  # noqa  (anything else escaping start_at / dispatch is a difference from the plain processor as well)
        return per_step, None, "%s: %s" % (type(ex).__name__, ex)
    return per_step, final, err


def run_chatty(n_lines, live, first=True, max_steps=60000):
    """an active object whose start state's entry action scribbles `n_lines` times, started from a managed thread; returns
    (actions seen, start_at returned?, errors)"""
    log, errors, res = [], [], {}
    with dsched.Installed():
        sched = dsched.Sched(dsched.round_robin_chooser(), max_steps=max_steps, trace=False)
        dsched.Sched.current = sched
        try:
            c = charts.GenChart(2, {1: 0, 2: 1}, {1: {0: ("T", 2)}, 2: {0: ("T", 1)}}, {1: 2}, nsig=1)

            def eff(chart, i, kind, e):
                if i == 1 and kind == "en":
                    for k in range(n_lines):
                        chart.scribble("line %d" % k)
            fns = c.build(log, spied=True, effects=eff)

            def driver():
                if not first:
                    other = mao.ActiveObject(name="first")           # some other active object already runs (and the writer with it)
                    other.start_at(charts.GenChart(1, {1: 0}, {1: {}}, {}, nsig=1).build([], spied=True)[1])
                ao = mao.ActiveObject(name="A")
                ao.live_spy, ao.live_trace = live, live
                ao.register_live_spy_callback(lambda line: None)
                ao.register_live_trace_callback(lambda line: None)
                ao.start_at(fns[1])
                res["started"] = True
                for _ in range(3):
                    ao.post_fifo(charts.ev(0))
                me = sched.me()
                sched.yield_point("driver.settle", enabled=lambda: all(t is me or t.finished or not sched.is_enabled(t) for t in sched.threads))
                res["final"] = ao.state.fun.__name__ if hasattr(ao.state.fun, "__name__") else None
            sched.spawn(driver, (), name="D")
            res["outcome"] = sched.run()
            for t in sched.threads:
                if t.error is not None:
                    errors.append("%s: %s: %s" % (t.name, type(t.error).__name__, t.error))
        finally:
            sched.shutdown()
    return visible(log), res, errors


def explore_chatty_start(run):
    """C18 with a start step that logs several hundred spy lines (an entry action that scribbles): with live output on, the same
    actions run and the chart ends in the same state as with live output off; start_at returns (oracle only)"""
    rng = run.rng
    big = rng.choice([251, 260, 400])
    for n_lines, first in ((rng.choice([120, 200]), rng.random() < 0.7), (rng.choice([248, 249, 250]), rng.random() < 0.7), (big, True), (big, False)):
        ref = run_chatty(n_lines, False, first)
        got = run_chatty(n_lines, True, first)
        cj = {"probe": "chatty-start", "lines": n_lines, "first_active_object": first}
        run.count("start step with %d scribbles, live output on vs off" % n_lines)
        run.traces_validated += 2
        if got[2] or ref[2]:
            run.violate("C18/chatty-start-error", "entry action scribbling %d lines: %s" % (n_lines, (got[2] or ref[2])[:2]), cj)
        elif not got[1].get("started") or got[0] != ref[0] or got[1].get("final") != ref[1].get("final"):
            run.violate("C18/behaviour-differs/live-output/chatty-start", "an active object whose start state's entry action scribbles %d lines%s: "
                        "with live spy and live trace on %s and %d actions ran (final %s); with live output off start_at returned, %d actions ran "
                        "(final %s)" % (n_lines, " (first active object of the process)" if first else "",
                                        "start_at returned" if got[1].get("started") else "start_at never returned", len(got[0]), got[1].get("final"),
                                        len(ref[0]), ref[1].get("final")), cj)
        run.case(cj, nontrivial=True)


def flat(steps):
    return [x for s in steps for x in s]


def gen(rng):
    c = charts.gen_chart(rng, nmax=9)
    start = rng.randrange(1, c.n + 1)
    evs = [rng.randrange(c.nsig) for _ in range(rng.randint(1, 6))]
    return c, start, evs


def explore(run, n_random, with_active=True):
    rng = run.rng
    for _ in range(n_random):
        c, start, evs = gen(rng)
        if rng.random() < 0.3:
            c.parent_via_callback = True          # on hosts that offer it the handlers ask `chart.parent_callback()` for their parent
            run.count("handlers ask the chart for their parent (register_parent style) on queued / active hosts")
        query = rng.random() < 0.5
        if rng.random() < 0.25 and not getattr(c, "parent_via_callback", False):     # (those handlers are source text the harness writes: identifiers only)
            c.name_prefix = rng.choice(["s{", "{x}", "s}", "s{0}", "%s", "st ate", "{", "s{:>8}"])
            run.count("state functions whose names hold braces / % / blanks")
        ref_steps, ref_final, ref_err = run_config(c, start, evs, "plain", False)
        cj = {"chart": c.to_json(), "start": start, "events": evs, "query": query, "name_prefix": getattr(c, "name_prefix", None)}
        run.count("handlers call current_state() after deciding" if query else "handlers do not query the chart")
        hosts = HOSTS if with_active else HOSTS[:3]
        for host in hosts:
            for spied in (False, True):
                flags = [(False, False)]
                if host in ("queued", "active") and spied:
                    flags = [(False, False), (True, False), (False, True), (True, True)]
                for ls, lt in flags:
                    if host == "active" and rng.random() < 0.5:
                        continue          # thread start-up is the expensive part: sample
                    live_at = 0
                    if (ls or lt) and rng.random() < 0.4:
                        live_at = 1 if (host == "active" or rng.random() < 0.6) else rng.randint(2, len(evs) + 1)
                        run.count("live flags switched on after start_at")
                    reads = host == "queued" and rng.random() < 0.4
                    if reads:
                        run.count("spy() / trace() / spy_rtc() read between steps")
                    steps, final, err = run_config(c, start, evs, host, spied, ls, lt, query=query, live_at=live_at, reads=reads)
                    run.traces_validated += 1
                    run.count("host=%s spied=%s" % (host, spied))
                    same = flat(steps) == flat(ref_steps) and final == ref_final and err == ref_err
                    if not same:
                        run.violate("C18/behaviour-differs/%s/%s" % (host, "spied" if spied else "unspied"),
                                    "host %s, %s, live_spy=%s live_trace=%s: actions %s (final %s, %s) differ from the plain processor's %s (final %s, %s)"
                                    % (host, "spied" if spied else "un-spied", ls, lt, flat(steps)[:30], final, err,
                                       flat(ref_steps)[:30], ref_final, ref_err),
                                    dict(cj, host=host, spied=spied, live_spy=ls, live_trace=lt, live_at=live_at, reads=reads))
        # only some of the states carry the decorator (the start state among them or not)
        some = frozenset(i for i in range(1, c.n + 1) if rng.random() < 0.5)
        if some and len(some) < c.n:
            for host in hosts[:3]:
                steps, final, err = run_config(c, start, evs, host, some, query=query)
                run.traces_validated += 1
                run.count("host=%s mixed decoration (start state %s)" % (host, "spied" if start in some else "plain"))
                if not (flat(steps) == flat(ref_steps) and final == ref_final and err == ref_err):
                    run.violate("C18/behaviour-differs/%s/mixed-decoration" % host,
                                "host %s, states %s carry spy_on and the others do not (start state %d): actions %s (final %s, %s) differ from "
                                "the plain processor's %s (final %s, %s)" % (host, sorted(some), start, flat(steps)[:30], final, err,
                                                                             flat(ref_steps)[:30], ref_final, ref_err),
                                dict(cj, host=host, spied=sorted(some)))
        # un-spied handlers under some other functools.wraps decorator: still "not spied" for every host
        for host in hosts[:3]:
            steps, final, err = run_config(c, start, evs, host, False, builder=other_decorator_build(c))
            run.traces_validated += 1
            run.count("host=%s other decorator" % host)
            if not (flat(steps) == flat(ref_steps) and final == ref_final and err == ref_err):
                run.violate("C18/behaviour-differs/%s/other-decorator" % host,
                            "host %s, handlers wrapped by a functools.wraps decorator that is not spy_on: actions %s (final %s, %s) differ from "
                            "the plain processor's %s (final %s, %s)" % (host, flat(steps)[:30], final, err, flat(ref_steps)[:30], ref_final, ref_err),
                            dict(cj, host=host, other_decorator=True))
        run.case(cj, nontrivial=len(evs) >= 1)


def detection_probe(run):
    """an un-spied handler whose code object mentions 'spy_on' (file name) is taken for a spied one"""
    src = '''
def make(log, return_status, signals):
    def st_a(chart, e):
        log.append(("a", e.signal_name))
        if e.signal == signals.ENTRY_SIGNAL or e.signal == signals.EXIT_SIGNAL or e.signal == signals.INIT_SIGNAL:
            return return_status.HANDLED
        chart.temp.fun = chart.top
        return return_status.SUPER
    def st_b(chart, e):
        log.append(("b", e.signal_name))
        if e.signal == signals.ENTRY_SIGNAL or e.signal == signals.EXIT_SIGNAL or e.signal == signals.INIT_SIGNAL:
            return return_status.HANDLED
        if e.signal_name == "E0":
            return return_status.HANDLED
        chart.temp.fun = st_a
        return return_status.SUPER
    return st_a, st_b
'''
    results = {}
    for fname in ("/tmp/plain_module.py", "/tmp/my_spy_on_helpers.py"):
        ns = {}
        exec(compile(src, fname, "exec"), ns)
        log = []
        st_a, st_b = ns["make"](log, return_status, signals)
        hsm = mhsm.InstrumentedHsmEventProcessor()
        hsm.start_at(st_b)
        del log[:]
        hsm.dispatch(Event(signal="E0"))
        results[fname] = (list(log), hsm.instrumented)
    a, b = results["/tmp/plain_module.py"], results["/tmp/my_spy_on_helpers.py"]
    run.count("decorator-detection probe")
    cj = {"probe": "un-spied closures compiled from a file whose name contains 'spy_on'"}
    if a[0] != b[0]:
        run.violate("C18/unspied-detected-as-spied",
                    "un-spied closures defined in a file named *spy_on* are detected as spied: the handlers receive %s instead of %s"
                    % (b[0], a[0]), cj)
    run.case(cj, nontrivial=True)


def replay(case):
    cc = case.get("case", case)
    if cc.get("probe") == "chatty-start":
        print(run_chatty(cc["lines"], True, cc["first_active_object"])[1:], run_chatty(cc["lines"], False, cc["first_active_object"])[1:])
        return 0
    if "probe" in cc:
        class R:
            def __getattr__(self, k):
                return lambda *a, **kw: print(k, a[:2])
        detection_probe(R())
        return 0
    c = charts.GenChart.from_json(cc["chart"])
    if cc.get("name_prefix"):
        c.name_prefix = cc["name_prefix"]
    for host in HOSTS:
        for spied in (False, True):
            print(host, spied, run_config(c, cc["start"], cc["events"], host, spied, query=cc.get("query", False)))
    if "live_at" in cc:
        print(cc["host"], "live flags", cc.get("live_spy"), cc.get("live_trace"), "switched on at step", cc["live_at"],
              run_config(c, cc["start"], cc["events"], cc["host"], bool(cc["spied"]), cc.get("live_spy", False), cc.get("live_trace", False),
                         query=cc.get("query", False), live_at=cc["live_at"], reads=cc.get("reads", False)))
    if isinstance(cc.get("spied"), list):
        print(cc["host"], "mixed", run_config(c, cc["start"], cc["events"], cc["host"], frozenset(cc["spied"]), query=cc.get("query", False)))
    return 0
