"""Chart generators, real-code chart builders and the layer-1 line encoding.

A generated chart has states 1..n (0 = top), a parent array, per-state reactions
to user signals E0..E{k-1}, optional initial transitions, and per-state flags
saying whether ENTRY/EXIT/INIT are answered HANDLED or fall to the `else:`
(SUPER) branch.  `build()` turns it into real miros state handlers that record
every invocation.
"""
import os, sys, random, json

REPO = os.environ.get("MIROS_REPO", "/repo")
if REPO not in sys.path:
    sys.path.insert(0, REPO)

from miros.event import Event, signals, return_status  # noqa: E402
from miros import hsm as mhsm  # noqa: E402

KINDS = {"T": 0, "H": 1, "U": 2, "N": 3}


ASK_PARENT = object()

def plain_post(ao, kind, e, form):
    """an immediate post on an active object, in one of the ways the signature allows: no period = post now, whatever the
    other optional arguments say"""
    f = ao.post_fifo if kind == "F" else ao.post_lifo
    form = form % 6
    if form in (0, 1):
        return f(e)
    if form == 2:
        return f(e, times=2)
    if form == 3:
        return f(e, None, 3)
    if form == 4:
        return f(e, deferred=False)
    return f(e, times=1, deferred=True)


def timed_post(ao, kind, e, period, times, deferred, form):
    """a timed post with the given period / times / deferred, by keyword, by position, or leaving out what equals the default"""
    f = ao.post_fifo if kind == "F" else ao.post_lifo
    if times == 0 and form % 3 == 1:
        # "for ever" as the documented default passed on explicitly: times=None (client code that forwards optional arguments)
        return f(e, period, None, bool(deferred)) if form % 2 else f(e, period=period, times=None, deferred=bool(deferred))
    # the flag as a program may hold it: the bool, or another value of the same truth (a count, a text, a container)
    deferred = ((True, False), (1, 0), ("yes", ""), ([0], None), (2.5, 0.0))[(form // 5) % 5][0 if deferred else 1]
    form = form % 5
    if form == 1:
        return f(e, period, times, deferred)
    if form == 2:
        return f(e, period, times=times, deferred=deferred)
    if form == 3 and times == 0:
        if isinstance(deferred, bool) and deferred:
            return f(e, period, None, deferred) if period % 2 else f(e, period=period, times=None, deferred=deferred)   # the documented default passed on explicitly (None: for ever)
        return f(e, period=period, deferred=deferred)              # times left out: for ever
    if form == 4 and deferred:
        return f(e, period, times)                                   # deferred left out: the default (True)
    return f(e, period=period, times=times, deferred=deferred)


STRING_FORMS = ("literal", "built at run time", "decoded from JSON", "str subclass", "read from a stream")


def string_as(s, form):
    """the text `s` the way a program may have obtained it: the literal, or an EQUAL string that is another object"""
    if form == "literal":
        return s
    if form == "built at run time":
        return "".join(list(s))
    if form == "decoded from JSON":
        import json
        return json.loads(json.dumps({"v": s}))["v"]
    if form == "str subclass":
        class Choice(str):
            pass
        return Choice(s)
    import io
    return io.StringIO(s + "\n").readline().strip()

# what a handler scribbles for the effect ("S", a): mostly text, sometimes a value that is empty / falsy / not text at all
SCRIBBLE_ODD = {2: 0, 3: "", 4: None}


def scribble_value(a):
    return SCRIBBLE_ODD[a] if a in SCRIBBLE_ODD else "SCRIBBLE%d" % a


def scribble_tok(line):
    """the effect number of an odd scribble as it appears in a spy log (raw object, or its text in a live line); else None"""
    for a, v in SCRIBBLE_ODD.items():
        if (line is v or (type(line) == type(v) and line == v)) or (isinstance(line, str) and not isinstance(v, str) and line == str(v)):
            return a
    return None


class Diverged(BaseException):
    """raised from inside a handler/top when a single operation made too many calls"""


class GenChart:
    def __init__(self, n, parent, react, init, exith=None, entryh=None, inith=None, nsig=3):
        self.n = n
        self.parent = dict(parent)       # i -> parent id (0 = top)
        self.react = react               # i -> {sig: ('T',tgt)|('H',)|('U',)|('N',)}
        self.init = dict(init)           # i -> target id or None
        self.exith = exith or {i: True for i in range(1, n + 1)}
        self.entryh = entryh or {i: True for i in range(1, n + 1)}
        self.inith = inith or {i: True for i in range(1, n + 1)}
        self.nsig = nsig
        self.children = {i: [] for i in range(n + 1)}
        for i in range(1, n + 1):
            self.children[self.parent[i]].append(i)

    # ---- structure ---------------------------------------------------------
    def path(self, i):
        p = []
        while i != 0:
            p.append(i)
            i = self.parent[i]
        return p

    def depth_of(self, i):
        return len(self.path(i))

    def depth(self):
        return max([self.depth_of(i) for i in range(1, self.n + 1)] or [0])

    def desc(self, i):
        out = []
        for c in self.children[i]:
            out.append(c)
            out += self.desc(c)
        return out

    def to_json(self):
        return {"n": self.n, "parent": [self.parent[i] for i in range(1, self.n + 1)],
                "init": [self.init.get(i) or 0 for i in range(1, self.n + 1)],
                "exith": [int(self.exith[i]) for i in range(1, self.n + 1)],
                "entryh": [int(self.entryh[i]) for i in range(1, self.n + 1)],
                "inith": [int(self.inith[i]) for i in range(1, self.n + 1)],
                "nsig": self.nsig,
                "tran_codes": [[i, sg, c] for (i, sg), c in sorted(getattr(self, "tran_codes", {}).items())],
                "parent_via_callback": bool(getattr(self, "parent_via_callback", False)),
                "node_style": bool(getattr(self, "node_style", False)),
                "same_names": bool(getattr(self, "same_names", False)),
                "silent_actions": bool(getattr(self, "silent_actions", False)),
                "react": [[i, s, r[0], (r[1] if len(r) > 1 else 0)] for i in sorted(self.react) for s, r in
                          sorted(self.react[i].items())]}

    @staticmethod
    def from_json(d):
        n = d["n"]
        parent = {i + 1: p for i, p in enumerate(d["parent"])}
        init = {i + 1: (t or None) for i, t in enumerate(d["init"])}
        react = {i: {} for i in range(1, n + 1)}
        for i, s, k, t in d["react"]:
            react[i][s] = (k, t) if k == "T" else (k,)
        fl = lambda key: {i + 1: bool(v) for i, v in enumerate(d.get(key, [1] * n))}
        g = GenChart(n, parent, react, init, fl("exith"), fl("entryh"), fl("inith"), d.get("nsig", 3))
        if d.get("tran_codes"):
            g.tran_codes = {(i, sg): c for i, sg, c in d["tran_codes"]}
        if d.get("parent_via_callback"):
            g.parent_via_callback = True
        if d.get("node_style"):
            g.node_style = True
        if d.get("same_names"):
            g.same_names = True
        if d.get("silent_actions"):
            g.silent_actions = True
        return g

    # ---- driver encoding ------------------------------------------------------
    def encode(self, ops, cfg=9, family="hsm"):
        toks = [family, cfg, self.n]
        toks += [self.parent[i] for i in range(1, self.n + 1)]
        toks += [self.init.get(i) or 0 for i in range(1, self.n + 1)]
        toks += [int(self.exith[i]) for i in range(1, self.n + 1)]
        toks += [self.depth()]
        if family == "hsmf":
            fall = sorted(getattr(self, "fallthrough", ()))
            toks += [len(fall)] + fall
        rl = []
        for i in sorted(self.react):
            for s, r in sorted(self.react[i].items()):
                rl += [i, s, KINDS[r[0]], r[1] if len(r) > 1 else 0]
        toks += [len(rl) // 4] + rl
        toks += [len(ops)]
        for o, a in ops:
            toks += [o, a]
        return " ".join(str(t) for t in toks)

    # ---- real handlers -----------------------------------------------------------
    def build(self, log, spied=False, name_prefix="s", counter=None, effects=None, after=None):
        """hand-written style handlers; `log` receives (id, kind) per invocation.
        effects: optional callable (chart, i, kind, e) run inside the handler (posts, scribbles…) before it decides;
        after: optional callable (chart, i, kind, e, status) run after it has decided (after chart.trans(...))."""
        fns = {}
        ch = self
        name_prefix = getattr(self, "name_prefix", None) or name_prefix      # a state's name is only a name (braces, %, blanks ...)
        left = set()          # states whose handler has run its exit clause and not been entered since (see super_none_after_exit)
        via_callback = bool(getattr(self, "parent_via_callback", False)) and bool(getattr(self, "_host_has_parent_callback", False))

        def sig_kind(e):
            sn = e.signal_name
            if sn == "ENTRY_SIGNAL":
                return "en"
            if sn == "EXIT_SIGNAL":
                return "ex"
            if sn == "INIT_SIGNAL":
                return "in"
            if sn == "SEARCH_FOR_SUPER_SIGNAL":
                return "su"
            if sn == "EMPTY_SIGNAL":
                return "em"
            if sn == "REFLECTION_SIGNAL":
                return "rf"
            if SIGNAL_NAMES and sn in SIGNAL_NAMES:
                return "u%d" % SIGNAL_NAMES.index(sn)
            if sn.startswith("E") and sn[1:].isdigit():
                return "u" + sn[1:]
            return "x:" + sn

        def mk(i):
            def st(chart, e):
                kind = sig_kind(e)
                log.append((i, kind))
                if counter is not None:
                    counter()
                if effects is not None:
                    effects(chart, i, kind, e)
                status = return_status.UNHANDLED
                par = fns[ch.parent[i]] if ch.parent[i] != 0 else chart.top
                if e.signal == signals.ENTRY_SIGNAL:
                    left.discard(i)
                if e.signal == signals.ENTRY_SIGNAL and ch.entryh[i]:
                    status = return_status.HANDLED
                    if getattr(ch, "silent_actions", False):
                        return None         # an entry action that does its work and ends with a bare `return`
                elif e.signal == signals.EXIT_SIGNAL and i in getattr(ch, "exit_none", ()):
                    return None             # the exit clause forgot its `return return_status.HANDLED`
                elif e.signal == signals.EXIT_SIGNAL and ch.exith[i]:
                    status = return_status.HANDLED
                    if i in getattr(ch, "super_none_after_exit", ()):
                        left.add(i)             # from now on (until it is entered again) this handler forgets its `return SUPER`
                elif e.signal == signals.INIT_SIGNAL and (ch.init.get(i) is not None or ch.inith[i]):
                    if ch.init.get(i) is not None:
                        status = chart.trans(fns[ch.init[i]])
                    else:
                        status = return_status.HANDLED
                        if getattr(ch, "silent_actions", False):
                            return None     # an init action without a transition and without a status
                elif kind[0] == "u" and int(kind[1:]) in ch.react[i]:
                    r = ch.react[i][int(kind[1:])]
                    if r[0] == "T":
                        code = getattr(ch, "tran_codes", {}).get((i, int(kind[1:])))
                        if code is None:
                            status = chart.trans(fns[r[1]])
                        else:
                            # Samek-style: set the target, answer with one of the other "transition" statuses the library reserves
                            chart.temp.fun = fns[r[1]]
                            status = return_status[code]
                    elif r[0] == "H":
                        if len(r) > 1 and r[1]:
                            # a transition that is swallowed: `chart.trans(X)` ... then the handler decides to stay: HANDLED
                            chart.trans(fns[r[1]])
                        status = return_status.HANDLED
                    elif r[0] == "U":
                        if len(r) > 1 and r[1]:
                            # a guard evaluated after the transition was set up: `status = chart.trans(X); if not ok: status = UNHANDLED`
                            chart.trans(fns[r[1]])
                        status = return_status.UNHANDLED
                    else:
                        return None
                else:
                    if kind == "em" and i in getattr(ch, "empty_none", ()):
                        return None         # a guarded state that has no answer when the processor asks again after UNHANDLED
                    if i in getattr(ch, "fallthrough", ()):
                        return None         # an if/elif ladder without a final else: no status for anything it has no clause for
                    if i in getattr(ch, "super_none", ()) or i in left:
                        chart.temp.fun = par    # the final else names the parent ... and forgets `return return_status.SUPER`
                        if hasattr(ch, "none_log"):
                            ch.none_log.append((i, kind))
                        return None
                    if via_callback:
                        return ASK_PARENT   # the handler itself (a function with the state's name) asks the chart for its parent
                    status, chart.temp.fun = return_status.SUPER, par
                    return status
                if after is not None:
                    after(chart, i, kind, e, status)
                return status
            st.__name__ = "state" if getattr(ch, "same_names", False) else "%s%d" % (name_prefix, i)
            st.__qualname__ = st.__name__
            st._vp_id = i           # (kept by functools.wraps on a decorating wrapper)
            if via_callback:
                # hand-written handler in the register_parent style: `with chart.parent_callback() as parent:` (no argument: the
                # chart works out who is asking), defined from source text so that the function really carries the state's name
                ns = {"_inner": st, "_ASK": ASK_PARENT, "return_status": return_status}
                exec("def %s(chart, e):\n"
                     "    status = _inner(chart, e)\n"
                     "    if status is _ASK:\n"
                     "        with chart.parent_callback() as parent:\n"
                     "            status, chart.temp.fun = return_status.SUPER, parent\n"
                     "    return status\n" % st.__name__, ns)
                st = ns[st.__name__]
            if getattr(ch, "node_style", False) and not spied:
                # every state is the SAME method of a different object (`node.handler`): states differ by the object they are bound to
                return _Node(i, st).handler
            if isinstance(spied, (set, frozenset, list, tuple)):
                return mhsm.spy_on(st) if i in spied else st       # only some states carry the decorator
            return mhsm.spy_on(st) if spied else st

        for i in range(1, self.n + 1):
            fns[i] = mk(i)
        return fns


class _Node:
    def __init__(self, i, inner):
        self.vp_id = i
        self.inner = inner

    def handler(self, chart, e):
        return self.inner(chart, e)


def fmt_log(log):
    return ",".join("%d.%s" % (i, k) for i, k in log)


# ---------------------------------------------------------------------------
# generators
# ---------------------------------------------------------------------------

def gen_tree(rng, n, chain_bias):
    parent = {}
    for i in range(1, n + 1):
        if i == 1:
            parent[i] = 0
        elif rng.random() < chain_bias:
            parent[i] = i - 1
        else:
            parent[i] = rng.randrange(0, i)
    return parent


def gen_chart(rng, nmax=14, nsig=3, malformed=False, flags=True):
    n = rng.randint(1, nmax)
    chain_bias = 0.88 if rng.random() < 0.4 else rng.choice([0.0, 0.3, 0.6])
    parent = gen_tree(rng, n, chain_bias)
    c = GenChart(n, parent, {i: {} for i in range(1, n + 1)}, {}, nsig=nsig)
    for i in range(1, n + 1):
        d = c.desc(i)
        c.init[i] = rng.choice(d) if d and rng.random() < 0.55 else None
        for s in range(nsig):
            r = rng.random()
            if r < 0.35:
                c.react[i][s] = ("T", rng.randrange(1, n + 1))
            elif r < 0.45:
                c.react[i][s] = ("H", rng.randrange(1, n + 1)) if rng.random() < 0.3 else ("H",)
            elif r < 0.57:
                # declines (closed guard); in a third of the cases after having set up a transition, i.e. with temp.fun moved
                c.react[i][s] = ("U", rng.randrange(1, n + 1)) if rng.random() < 0.33 else ("U",)
        if flags and rng.random() < 0.08:
            # this state answers with another status of the "transition" class (TRAN_HIST ...) for its transitions
            for sg, r in c.react[i].items():
                if r[0] == "T":
                    if not hasattr(c, "tran_codes"):
                        c.tran_codes = {}
                    c.tran_codes[(i, sg)] = rng.choice(["TRAN_HIST", "TRAN_INIT", "TRAN_EP", "TRAN_XP"])
        if flags:
            c.exith[i] = rng.random() < 0.7
            c.entryh[i] = rng.random() < 0.7
            c.inith[i] = rng.random() < 0.7
    if malformed:
        kind = rng.choice(["self", "sibling", "ancestor", "none"])
        i = rng.randrange(1, n + 1)
        c.malformed = (kind, i)
        if kind == "self":
            c.init[i] = i
        elif kind == "ancestor":
            anc = c.path(i)[1:]
            c.init[i] = rng.choice(anc) if anc else i
        elif kind == "sibling":
            others = [j for j in range(1, n + 1) if j != i and j not in c.desc(i)]
            c.init[i] = rng.choice(others) if others else i
        else:
            c.react[i][rng.randrange(nsig)] = ("N",)
    return c


def all_trees(n):
    """all parent arrays for n labelled states with parent[i] < i (covers every unlabelled shape)"""
    def rec(i, cur):
        if i > n:
            yield dict(cur)
            return
        for p in range(0, i):
            cur[i] = p
            yield from rec(i + 1, cur)
    yield from rec(1, {})


# ---------------------------------------------------------------------------
# running the real code
# ---------------------------------------------------------------------------

CALL_LIMIT = 20000


def probed_class(base):
    class Probed(base):
        _vp_calls = 0

        def _vp_count(self):
            self._vp_calls += 1
            if self._vp_calls > CALL_LIMIT:
                raise Diverged()

        def top(self, *args):
            self._vp_count()
            return super().top(*args)
    if hasattr(base, "signal_callback"):
        # template state functions consult the chart on every call: count those too (a cyclic nesting never reaches top)
        def signal_callback(self, e, name):
            self._vp_count()
            return base.signal_callback(self, e, name)
        Probed.signal_callback = signal_callback
    Probed.__name__ = "Probed" + base.__name__
    return Probed


# user signal number n -> its name; normally E<n>; a stream may install other names (any string is a legal signal name)
SIGNAL_NAMES = None
ODD_SIGNAL_NAMES = ["SET{level}", "REPORT{}", "OPEN{", "CLOSE}", "{0}", "100%", "%s", "a b", "\u00e9v\u00e9nement", "E-1"]


def sig_name(n):
    if SIGNAL_NAMES and n < len(SIGNAL_NAMES):
        return SIGNAL_NAMES[n]
    return "E%d" % n


def ev(n):
    return Event(signal=sig_name(n))


def state_id(fn, fns_inv):
    if fn is None:
        return -1
    f = getattr(fn, "__wrapped__", fn)
    if hasattr(getattr(f, "__self__", None), "vp_id"):
        return f.__self__.vp_id
    if hasattr(f, "_vp_id"):
        return f._vp_id
    name = getattr(f, "__name__", "?")
    if name == "top":
        return 0
    return fns_inv.get(name, -1)


def run_real(chart, ops, host="plain", spied=False, builder=None):
    """run ops on the real code; returns list of canonical strings (same format as the Lean driver)"""
    base = {"plain": mhsm.HsmEventProcessor, "instr": mhsm.InstrumentedHsmEventProcessor,
            "queued": mhsm.HsmWithQueues, "queued-off": mhsm.HsmWithQueues}[host]
    cls = probed_class(base)
    hsm = cls(instrumented=False) if host == "queued-off" else cls()
    log = []
    chart._host_has_parent_callback = hasattr(hsm, "register_parent")
    try:
        fns = (builder or chart.build)(log, spied=spied, counter=hsm._vp_count)
    finally:
        chart._host_has_parent_callback = False
    if getattr(chart, "parent_via_callback", False) and hasattr(hsm, "register_parent"):
        for i, f in fns.items():
            hsm.register_parent(f, fns[chart.parent[i]] if chart.parent[i] else hsm.top)
    inv = {getattr(getattr(f, "__wrapped__", f), "__name__"): i for i, f in fns.items()}
    out = []
    names = []
    hsm._vp_names = names
    hsm._vp_identity = []
    for o, a in ops:
        del log[:]
        if hasattr(chart, "none_log"):
            del chart.none_log[:]
        hsm._vp_calls = 0
        try:
            res = None
            if o == 0:
                hsm.start_at(fns[a])
            elif o == 1:
                hsm.dispatch(ev(a))
            elif o == 2:
                res = 1 if hsm.is_in(fns[a] if a else hsm.top) else 0
            else:
                got_fn = hsm.child_state(fns[a] if a else hsm.top)
                res = state_id(got_fn, inv)
                # the answer is one of the chart's states AS THE CHART WAS GIVEN THEM (what start_at / a transition target / a later
                # query accepts), not some other function of the same name
                if not any(got_fn == f for f in list(fns.values()) + [hsm.top]):
                    hsm._vp_identity.append((len(out), a, getattr(got_fn, "__qualname__", repr(got_fn))))
            st = state_id(hsm.state.fun, inv)
            tp = state_id(hsm.temp.fun, inv)
            rec = {"state_name": getattr(hsm, "state_name", None),
                   "state_fn": state_id(getattr(hsm, "state_fn", None), inv), "current_state": None}
            # (current_state() asks the current state function for its name: only a decorated one knows the question)
            if host == "queued" and spied and (not isinstance(spied, (list, set, tuple)) or st in spied):
                n_before = len(log)
                rec["current_state"] = hsm.current_state()
                del log[n_before:]
            if hasattr(chart, "none_log"):
                rec["none_answers"] = list(chart.none_log)
            names.append(rec)
            # (on a chart with mixed decoration the instrumentation's own question - REFLECTION - reaches the undecorated handlers too)
            vis = [(i, k) for i, k in log if not (isinstance(spied, (list, set, tuple)) and k == "rf")]
            head = "ok" if res is None else "ok res=%d" % res
            out.append("%s state=%d temp=%d log=%s" % (head, st, tp, fmt_log(vis)))
        except mhsm.HsmTopologyException:
            out.append("raise log=%s" % fmt_log(log))
            break
        except AssertionError:
            # child_state(P) with P not enclosing the current state: the caller may catch this and go on
            out.append("assert state=%d temp=%d log=%s" % (state_id(hsm.state.fun, inv), state_id(hsm.temp.fun, inv), fmt_log(log)))
            names.append({"state_name": getattr(hsm, "state_name", None),
                          "state_fn": state_id(getattr(hsm, "state_fn", None), inv), "current_state": None})
        except Diverged:
            out.append("diverge log=%s" % fmt_log(log))
            break
        except Exception as ex:  # any other exception class is reported as such
            out.append("error:%s log=%s" % (type(ex).__name__, fmt_log(log)))
            break
    return out, hsm, fns
