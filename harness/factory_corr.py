"""C17: a generated chart built three ways — hand-written handlers, `state_method_template` + registries
(or `Factory`), and the exec'd text returned by `to_code` — must run the same callbacks in the same order
and end in the same states; the `to_code` text itself is compared with the Lean ladder model."""
import os, sys, re, json, random
import charts, leanrun
from charts import mhsm, Event, signals, return_status, Diverged
import miros.activeobject as mao

SIGNAME = {"en": "ENTRY_SIGNAL", "in": "INIT_SIGNAL", "ex": "EXIT_SIGNAL"}
SIGCODE = {"en": 0, "in": 1, "ex": 2}


def registrations(c, rng=None, order_seed=0):
    """per state: list of (kind, cbkind, target) in registration order, derived from the GenChart"""
    regs = {}
    r = random.Random(order_seed)
    for i in range(1, c.n + 1):
        items = []
        if c.entryh[i]:
            items.append(("en", "H", 0))
        if c.init.get(i):
            items.append(("in", "T", c.init[i]))
        elif c.inith[i]:
            items.append(("in", "H", 0))
        if c.exith[i]:
            items.append(("ex", "H", 0))
        for s, rr in sorted(c.react[i].items()):
            if rr[0] in ("T", "H", "U", "N"):
                items.append(("u%d" % s, rr[0], rr[1] if rr[0] == "T" else 0))
        r.shuffle(items)            # registration order is arbitrary: to_code must sort it
        regs[i] = items
    return regs


def sig_of(kind):
    if kind in SIGNAME:
        return getattr(signals, SIGNAME[kind])
    return getattr(signals, "E" + kind[1:])


def lookup_state(name):
    """a flat state function in the documented look-up style: it asks the chart for the callback registered for (itself, signal)
    - handing ITSELF to signal_callback - and for its parent"""
    ns = {"return_status": return_status}
    exec("def %s(chart, e):\n"
         "    with chart.signal_callback(e, %s) as fn:\n"
         "        status = fn(chart, e)\n"
         "    if status == return_status.UNHANDLED:\n"
         "        with chart.parent_callback(%r) as parent:\n"
         "            status, chart.temp.fun = return_status.SUPER, parent\n"
         "    return status\n" % (name, name, name), ns)
    return ns[name]


# names of the template state functions (None: s1, s2, ...). A state's name is only a name: short ones, ones contained in one another
# or in `top`, ones that look like the library's own words (all valid identifiers - to_code emits `def <name>(chart, e)`)
STATE_NAMES = None
TEMPLATE_NAME_POOL = ["t", "o", "p", "to", "op", "stop", "topmost", "laptop", "a", "ab", "abc", "s", "s_1", "S1", "state1", "state10", "outer",
                      "inner", "init", "idle", "Idle", "on", "off", "x1", "x11", "super", "trans", "_", "__"]


def sname(i):
    return STATE_NAMES[i] if STATE_NAMES and i in STATE_NAMES else "s%d" % i


def canon_name(name):
    """the name of a template state back to s<i>"""
    if STATE_NAMES and name is not None:
        for i, nm in STATE_NAMES.items():
            if nm == name:
                return "s%d" % i
    return name


def build_template(c, regs, hsm, log, use_factory=False, name_handled=False, fns=None, bound=False, lookup=False, wrapped=False):
    """state_method_template + register_signal_callback + register_parent on `hsm`
    (fns: template state functions already in use by another chart, to be shared)"""
    cbs = {}
    if fns is None:
        fns = {}
        for i in range(1, c.n + 1):
            fns[i] = lookup_state(sname(i)) if lookup else mhsm.state_method_template(sname(i))

    def mk_cb(i, kind, cbk, tgt):
        def cb(chart, e):
            log.append((i, kind))
            if cbk == "T":
                return chart.trans(fns[tgt])
            if cbk == "H":
                return return_status.HANDLED
            if cbk == "N":
                return None                 # the callback forgot its return statement
            return return_status.UNHANDLED
        cb.__name__ = "handled" if (name_handled and cbk == "H") else "cb_%d_%s_%s%d" % (i, kind, cbk, tgt)
        return cb
    collaborator = None
    if bound:
        # handlers that are bound methods of ANOTHER object (a collaborator that knows the chart): the template calls them as fn(e)
        class Collaborator:
            def __init__(self, chart):
                self.chart = chart
                self.calls = 0
        collaborator = Collaborator(hsm)

        def mk_cb(i, kind, cbk, tgt):  # noqa: F811
            shape = (i * 7 + len(kind) + tgt) % 3

            def body(self, e, more):
                self.calls += 1
                if more or not hasattr(e, "signal_name"):
                    log.append((i, "called-with-wrong-arguments"))      # the handler of a collaborator takes the event, nothing else
                    return return_status.UNHANDLED
                log.append((i, kind))
                if cbk == "T":
                    return self.chart.trans(fns[tgt])
                if cbk == "H":
                    return return_status.HANDLED
                return return_status.UNHANDLED
            if shape == 0:
                def method(self, e):
                    return body(self, e, ())
            elif shape == 1:
                def method(self, e, *more):                 # tolerant signature
                    return body(self, e, more)
            else:
                def method(self, e, option=None):           # optional second parameter
                    return body(self, e, () if option is None else (option,))
            method.__name__ = "cb_%d_%s_%s%d" % (i, kind, cbk, tgt)
            setattr(Collaborator, method.__name__, method)
            return getattr(collaborator, method.__name__)
    for i in range(1, c.n + 1):
        for kind, cbk, tgt in regs[i]:
            cb = mk_cb(i, kind, cbk, tgt)
            if wrapped:
                # a callback that is callable but neither a plain function nor a bound method: a functools.partial, an object with __call__
                import functools
                inner_cb = cb
                if (i + len(kind) + tgt) % 2:
                    cb = functools.partial(inner_cb)
                else:
                    class CallableCallback:
                        def __init__(self, f):
                            self.f = f

                        def __call__(self, chart, e):
                            return self.f(chart, e)
                    cb = CallableCallback(inner_cb)
                cb.__name__ = inner_cb.__name__
            cbs[cb.__name__ + "@%d" % i] = cb
            hsm.register_signal_callback(fns[i], sig_of(kind), cb)
        if not regs[i]:
            # a state with no callbacks still needs an entry in the lookup table for to_code
            if not hasattr(hsm, "_lookup"):
                hsm._lookup = {}
            hsm._lookup.setdefault(sname(i), {})
        if getattr(c, "reparented", None) and i in c.reparented:
            # the design was re-nested before the chart was started: the state's parent is declared twice, the last declaration counts
            decoy = c.reparented[i]
            hsm.register_parent(fns[i], fns[decoy] if decoy else hsm.top)
        hsm.register_parent(fns[i], fns[c.parent[i]] if c.parent[i] else hsm.top)
    hsm._vp_mk_cb = mk_cb
    return fns, cbs


LADDER = re.compile(r"^\s+(?:if|elif)\(e\.signal == signals\.(\w+)\):\n\s+status = (.+)$", re.M)


def parse_to_code(text):
    """[(kind, 'H!' | callback name)] and the parent expression"""
    out = []
    for m in LADDER.finditer(text):
        sn, rhs = m.group(1), m.group(2).strip()
        kind = {"ENTRY_SIGNAL": "en", "INIT_SIGNAL": "in", "EXIT_SIGNAL": "ex"}.get(sn) or ("u" + sn[1:])
        if rhs == "return_status.HANDLED":
            out.append((kind, "H!"))
        else:
            out.append((kind, rhs.split("(")[0]))
    parent = re.search(r"status, chart\.temp\.fun = return_status\.SUPER, (\S+)", text).group(1)
    return out, parent


def encode_table(first_state, items, name_handled):
    toks = []
    rows = []
    if first_state:
        # register_signal_callback registers `handled` for ENTRY, INIT, EXIT when the lookup table is created
        rows += [(0, 1, 0, 1), (1, 1, 0, 1), (2, 1, 0, 1)]
    for kind, cbk, tgt in items:
        sc = SIGCODE[kind] if kind in SIGCODE else 10 + int(kind[1:])
        rows.append((sc, {"T": 0, "H": 1, "U": 2}[cbk], tgt, 1 if (name_handled and cbk == "H") else 0))
    toks = ["tocode", len(rows)]
    for r in rows:
        toks += list(r)
    return " ".join(str(t) for t in toks)


def run_build(c, regs, style, start, evs, name_handled=False, rereg=None):
    """returns (callback-invocation log, final state name, to_code texts or None)"""
    log = []
    hsm = charts.probed_class(mhsm.HsmWithQueues)()
    texts = None
    registered = set((i, k) for i in regs for k, _, _ in regs[i])
    if style == "hand":
        raw = []
        fns = c.build(raw, spied=True, counter=hsm._vp_count)
    else:
        shared = None
        if style == "template-shared":
            # another chart already uses (and has run) the same template state functions with its own callbacks
            other = charts.probed_class(mhsm.HsmWithQueues)()
            other_log = []
            shared, _ = build_template(c, regs, other, other_log, name_handled=name_handled)
            try:
                other.start_at(shared[start])
                for n in evs:
                    other.post_fifo(charts.ev(n))
                    other.next_rtc()
            except (mhsm.HsmTopologyException, Diverged):
                pass
        if style == "template-shared-other-tree":
            # ANOTHER design uses (and has run) the same template state functions: same states, nested differently, own callbacks
            r3 = random.Random(7919 * start + 31 * len(evs) + c.n)
            c2 = charts.GenChart(c.n, charts.gen_tree(r3, c.n, r3.choice([0.0, 0.3, 0.6, 0.88])), {i: dict(c.react[i]) for i in c.react}, {},
                                 nsig=c.nsig)
            other = charts.probed_class(mhsm.HsmWithQueues)()
            shared, _ = build_template(c2, registrations(c2, order_seed=r3.randrange(1 << 30)), other, [], name_handled=False)
            try:
                for st0 in sorted(range(1, c.n + 1), key=lambda i: -c2.depth_of(i))[:2]:
                    other.start_at(shared[st0])
                    for n in evs + list(range(c.nsig)):
                        other.post_fifo(charts.ev(n))
                        other.next_rtc()
            except (mhsm.HsmTopologyException, Diverged):
                pass
        tfns, cbs = build_template(c, regs, hsm, log, name_handled=name_handled, fns=shared, bound=(style == "template-bound"),
                                   lookup=(style == "lookup"), wrapped=(style == "template-wrapped"))
        if style == "template-other-design":
            # a different chart whose states happen to have the same names is assembled afterwards on another object
            r3 = random.Random(1000 * start + len(evs) + c.n)
            c2 = charts.gen_chart(r3, nmax=8)
            other2 = charts.probed_class(mhsm.HsmWithQueues)()
            build_template(c2, registrations(c2, order_seed=r3.randrange(1 << 30)), other2, [], name_handled=False)
        texts = {i: hsm.to_code(tfns[i]) for i in tfns}
        if style in ("template", "template-shared", "template-bound", "template-wrapped", "template-other-design", "template-shared-other-tree", "lookup"):
            fns = tfns
        else:
            ns = {"spy_on": mhsm.spy_on, "return_status": return_status, "signals": signals}
            flat = {}
            for key, cb in cbs.items():
                ns[cb.__name__] = cb          # NB: a shared name (`handled`) is inlined by to_code, never called
            # the callbacks must transition to the *flat* functions
            for i in sorted(texts):
                exec(texts[i], ns)
            flat = {i: ns[sname(i)] for i in texts}
            # re-create callbacks bound to the flat functions
            log2 = log

            def rebinding(i, kind, cbk, tgt):
                def cb(chart, e):
                    log2.append((i, kind))
                    if cbk == "T":
                        return chart.trans(flat[tgt])
                    if cbk == "H":
                        return return_status.HANDLED
                    return return_status.UNHANDLED
                return cb
            for i in regs:
                for kind, cbk, tgt in regs[i]:
                    nm = "handled" if (name_handled and cbk == "H") else "cb_%d_%s_%s%d" % (i, kind, cbk, tgt)
                    if nm != "handled":
                        ns[nm] = rebinding(i, kind, cbk, tgt)
            fns = flat
    saved_react = None
    head = []
    try:
        hsm.start_at(fns[start])
        for idx, n in enumerate(evs):
            if rereg is not None and idx == rereg[0]:
                # the program changes one state's reaction to one signal between two events
                _, ri, rs, rkind, rtgt = rereg
                if style == "hand":
                    saved_react = (ri, rs, c.react[ri].get(rs))
                    c.react[ri][rs] = (rkind, rtgt) if rkind == "T" else (rkind,)
                    # (the hand-written chart logs every offer; only offers to REGISTERED reactions count as callback runs)
                    head = [(i, k) for i, k in raw if (i, k) in registered]
                    del raw[:]
                    registered = set(registered) | {(ri, "u%d" % rs)}
                else:
                    hsm.register_signal_callback(fns[ri], sig_of("u%d" % rs), hsm._vp_mk_cb(ri, "u%d" % rs, rkind, rtgt))
            hsm.post_fifo(charts.ev(n))
            hsm.next_rtc()
        final = hsm.state_name if style == "hand" else canon_name(hsm.state_name)
        err = None
    except (mhsm.HsmTopologyException, Diverged) as ex:
        final, err = None, type(ex).__name__
    except Exception as ex:  # noqa  (a callback or the generated state failed: reported through the comparison)
        final, err = None, "%s: %s" % (type(ex).__name__, ex)
    if saved_react is not None:
        ri, rs, prev = saved_react
        if prev is None:
            c.react[ri].pop(rs, None)
        else:
            c.react[ri][rs] = prev
    if style == "hand":
        log = head + [(i, k) for i, k in raw if (i, k) in registered]
    return log, final, err, texts


AWKWARD_STATE_NAMES = ["init", "stop", "print", "trans", "queue", "thread", "rtc", "dispatch", "defer", "recall", "publish", "spy", "trace",
                       "states", "name", "live_spy", "post_fifo", "fabric", "writer", "subscribe"]


def run_factory(c, regs, start, evs, names):
    """the chart assembled with the Factory class (create / catch / nest / to_method) - an active object - and driven through its
    queue under the deterministic scheduler; returns (callback log, final state index, error)"""
    import dsched
    import miros.activeobject as mao
    log, errors, res = [], [], {}
    with dsched.Installed():
        sched = dsched.Sched(dsched.round_robin_chooser(), max_steps=20000, trace=False)
        dsched.Sched.current = sched
        try:
            def driver():
                chart = mao.Factory("F")
                bps = {i: chart.create(state=names[i]) for i in range(1, c.n + 1)}
                fns = {i: bps[i].to_method() for i in bps}

                def mk_cb(i, kind, cbk, tgt):
                    def cb(ch, e):
                        log.append((i, kind))
                        if cbk == "T":
                            return ch.trans(fns[tgt])
                        if cbk == "H":
                            return return_status.HANDLED
                        return return_status.UNHANDLED
                    cb.__name__ = "cb_%d_%s_%s%d" % (i, kind, cbk, tgt)
                    return cb
                for i in range(1, c.n + 1):
                    for kind, cbk, tgt in regs[i]:
                        bps[i].catch(signal=sig_of(kind), handler=mk_cb(i, kind, cbk, tgt))
                for i in range(1, c.n + 1):
                    if not regs[i]:
                        # (as in build_template: a state without any callback still needs its - empty - entry in the look-up table)
                        if not hasattr(chart, "_lookup"):
                            chart._lookup = {}
                        chart._lookup.setdefault(names[i], {})
                    chart.nest(fns[i], parent=fns[c.parent[i]] if c.parent[i] else None)
                chart.start_at(fns[start])
                for n in evs:
                    chart.post_fifo(charts.ev(n))
                me = sched.me()
                sched.yield_point("driver.settle", enabled=lambda: all(t is me or t.finished or not sched.is_enabled(t) for t in sched.threads))
                nm = getattr(chart.state.fun, "__name__", None)
                res["final"] = next((i for i in names if names[i] == nm), None)
                res["pending"] = len(chart.queue)
            sched.spawn(driver, (), name="D")
            sched.run()
            for t in sched.threads:
                if t.error is not None:
                    errors.append("%s: %s: %s" % (t.name, type(t.error).__name__, t.error))
        finally:
            sched.shutdown()
    return log, res.get("final"), (errors[0] if errors else None), res.get("pending")


def norm_(log, regs, name_handled):
    if not name_handled:
        return log
    h = set((i, k) for i in regs for k, cbk, _ in regs[i] if cbk == "H")
    return [x for x in log if x not in h]


def explore(run, n_random, none_rate=0.0):
    rng = run.rng
    lines, metas = [], []
    cases = []
    for _ in range(n_random):
        c = charts.gen_chart(rng, nmax=8)
        start = rng.randrange(1, c.n + 1)
        evs = [rng.randrange(c.nsig) for _ in range(rng.randint(1, 6))]
        name_handled = rng.random() < 0.3
        if rng.random() < 0.25:
            c.reparented = {}
            for i in range(1, c.n + 1):
                if rng.random() < 0.4:
                    options = [j for j in range(0, i) if j != c.parent[i]]      # (a smaller index: whichever declaration wins, the nesting stays a tree)
                    if options:
                        c.reparented[i] = rng.choice(options)
            if c.reparented:
                run.count("template chart with states whose parent was declared twice")
        if rng.random() < none_rate:
            # one callback returns no status: the chart is malformed, template build and hand-written build must both say so
            i0 = rng.choice(c.path(start)) if rng.random() < 0.7 else rng.randrange(1, c.n + 1)
            sg = rng.choice(evs)
            c.react[i0][sg] = ("N",)
            c.malformed = ("none", i0)
            name_handled = False
        regs = registrations(c, order_seed=rng.randrange(1 << 30))
        cases.append((c, regs, start, evs, name_handled))
    results = []
    global STATE_NAMES
    for c, regs, start, evs, name_handled in cases:
        STATE_NAMES = None
        if rng.random() < 0.4:
            pool = rng.sample(TEMPLATE_NAME_POOL, min(c.n, len(TEMPLATE_NAME_POOL)))
            # (states that are parents get the odd names first: a name matters most where other states refer to it)
            parents = [i for i in range(1, c.n + 1) if any(c.parent[j] == i for j in range(1, c.n + 1))]
            chosen = (rng.sample(parents, min(len(parents), rng.randint(1, 3))) if parents and rng.random() < 0.7 else []) + \
                rng.sample(range(1, c.n + 1), rng.randint(0, min(c.n, 2)))
            STATE_NAMES = {i: pool.pop() for i in dict.fromkeys(chosen)}
            run.count("template states with names of their own (short, contained in one another or in `top`)")
        cj = {"chart": c.to_json(), "start": start, "events": evs, "name_handled": name_handled,
              "reparented": {str(k): v for k, v in getattr(c, "reparented", {}).items()},
              "regs": {str(i): [list(x) for x in regs[i]] for i in regs}}
        if STATE_NAMES:
            cj["template_names"] = {str(k): v for k, v in STATE_NAMES.items()}
        hand = run_build(c, regs, "hand", start, evs)
        tmpl = run_build(c, regs, "template", start, evs, name_handled)
        if getattr(c, "malformed", None):
            run.traces_validated += 2
            run.count("template chart with a callback that returns no status (%s)" % ("reached" if hand[2] else "not reached"))
            if tmpl[0] != hand[0] or tmpl[1] != hand[1] or tmpl[2] != hand[2]:
                run.violate("%s/template-callback-without-status" % getattr(run, "factory_key", "C17"),
                            "a callback of state %d returns no status: the template chart ran %s and ended in %s (%s); the hand-written "
                            "chart %s, %s (%s)" % (c.malformed[1], tmpl[0][:30], tmpl[1], tmpl[2], hand[0][:30], hand[1], hand[2]), cj)
            run.case(cj, nontrivial=bool(hand[2]))
            continue
        flat = run_build(c, regs, "flat", start, evs, name_handled)
        shar = run_build(c, regs, "template-shared", start, evs, name_handled)
        oth = run_build(c, regs, "template-other-design", start, evs, name_handled)
        run.traces_validated += 1
        if norm_(oth[0], regs, name_handled) != norm_(tmpl[0], regs, name_handled) or oth[1] != tmpl[1] or oth[2] != tmpl[2]:
            run.violate("C17/other-chart-with-same-state-names", "after another template chart with states of the same names was assembled on another "
                        "object, this chart ran %s and ended in %s (%s); alone %s, %s (%s)" % (oth[0][:30], oth[1], oth[2], tmpl[0][:30], tmpl[1], tmpl[2]), cj)
        if not name_handled:
            wr = run_build(c, regs, "template-wrapped", start, evs, False)
            run.traces_validated += 1
            run.count("callbacks registered as functools.partial objects / objects with __call__")
            if wr[0] != tmpl[0] or wr[1] != tmpl[1] or wr[2] != tmpl[2]:
                run.violate("C17/callable-object-callbacks", "callbacks registered as functools.partial objects and as instances of a class with __call__ ran %s "
                            "and ended in %s (%s); the same callbacks as plain functions %s, %s (%s)" % (wr[0][:30], wr[1], wr[2], tmpl[0][:30], tmpl[1], tmpl[2]), cj)
            bnd = run_build(c, regs, "template-bound", start, evs, False)
            run.traces_validated += 1
            if bnd[0] != tmpl[0] or bnd[1] != tmpl[1] or bnd[2] != tmpl[2]:
                run.violate("C17/bound-method-callbacks", "callbacks registered as bound methods of a collaborator object ran %s and ended in %s "
                            "(%s); the same callbacks as plain functions %s, %s (%s)" % (bnd[0][:30], bnd[1], bnd[2], tmpl[0][:30], tmpl[1], tmpl[2]), cj)
        if not name_handled and len(evs) >= 2:
            # flat state functions in the look-up style; one reaction is registered anew (changed) between two events
            path_states = c.path(start)
            ri = rng.choice(path_states) if rng.random() < 0.7 else rng.randrange(1, c.n + 1)
            rs = rng.choice(evs)
            rkind = rng.choice(["T", "H", "U"])
            rereg = (rng.randrange(1, len(evs)), ri, rs, rkind, rng.randrange(1, c.n + 1) if rkind == "T" else 0)
            h2 = run_build(c, regs, "hand", start, evs, False, rereg=rereg)
            for st_name in ("lookup", "template"):
                l2 = run_build(c, regs, st_name, start, evs, False, rereg=rereg)
                run.traces_validated += 1
                run.count("%s build with a reaction registered anew between two events" % st_name)
                if l2[0] != h2[0] or l2[1] != h2[1] or l2[2] != h2[2]:
                    run.violate("%s/re-registered-reaction/%s" % (getattr(run, "factory_key", "C17"), st_name),
                                "%s-style chart, reaction of state %d to E%d registered anew as %s before event %d: it ran %s and ended in %s (%s); "
                                "the hand-written chart with the same change %s, %s (%s)" % (st_name, ri, rs, rkind, rereg[0], l2[0][:30], l2[1], l2[2],
                                                                                             h2[0][:30], h2[1], h2[2]), dict(cj, rereg=list(rereg)))
                    break
        if not name_handled and tmpl[2] is None and rng.random() < 0.35:
            # the same chart built with the Factory (an active object), its states named s<i> or after things a chart object has
            names = {i: "s%d" % i for i in range(1, c.n + 1)}
            awkward = rng.random() < 0.6
            if awkward:
                pool = rng.sample(AWKWARD_STATE_NAMES, min(c.n, len(AWKWARD_STATE_NAMES)))
                for i in rng.sample(range(1, c.n + 1), rng.randint(1, min(c.n, 3))):
                    names[i] = pool.pop()
            fl, ff, fe, fp = run_factory(c, regs, start, evs, names)
            run.traces_validated += 1
            run.count("Factory build" + (" with states named after attributes of the chart object" if awkward else ""))
            want_final = int(tmpl[1][1:]) if tmpl[1] else None
            if fe or fl != tmpl[0] or ff != want_final or fp:
                run.violate("%s/factory-vs-template" % getattr(run, "factory_key", "C17"),
                            "the chart built with Factory.create/catch/nest (states named %s) ran %s and ended in state %s (%s, %s events left "
                            "queued); the template build on a queued chart ran %s and ended in %s" % (
                                [names[i] for i in sorted(names)], fl[:30], ff, fe, fp, tmpl[0][:30], want_final), dict(cj, state_names=names))
        tre = run_build(c, regs, "template-shared-other-tree", start, evs, name_handled)
        run.traces_validated += 1
        if norm_(tre[0], regs, name_handled) != norm_(tmpl[0], regs, name_handled) or tre[1] != tmpl[1] or tre[2] != tmpl[2]:
            run.violate("%s/shared-template-functions-other-nesting" % getattr(run, "factory_key", "C17"),
                        "the template state functions are also used by another chart object that nests them differently (and ran "
                        "first): this chart ran %s and ended in %s (%s); with fresh template functions %s, %s (%s)"
                        % (tre[0][:30], tre[1], tre[2], tmpl[0][:30], tmpl[1], tmpl[2]), cj)
        run.traces_validated += 4
        if norm_(shar[0], regs, name_handled) != norm_(tmpl[0], regs, name_handled) or shar[1] != tmpl[1] or shar[2] != tmpl[2]:
            run.violate("C17/shared-template-functions", "a second chart using the same template state functions with its own callbacks ran %s "
                        "and ended in %s (%s); a chart with fresh template functions %s, %s (%s)"
                        % (shar[0][:30], shar[1], shar[2], tmpl[0][:30], tmpl[1], tmpl[2]), cj)
        run.count("states=%d" % c.n)
        if name_handled:
            run.count("callbacks named `handled`")
        # with callbacks named `handled` the inlined branches run no callback: compare on the others
        def norm(log):
            if not name_handled:
                return log
            h = set((i, k) for i in regs for k, cbk, _ in regs[i] if cbk == "H")
            return [x for x in log if x not in h]
        if norm(tmpl[0]) != norm(hand[0]) or tmpl[1] != hand[1] or tmpl[2] != hand[2]:
            run.violate("C17/template-vs-handwritten", "template chart ran callbacks %s and ended in %s (%s); the hand-written chart %s, %s (%s)"
                        % (tmpl[0][:30], tmpl[1], tmpl[2], hand[0][:30], hand[1], hand[2]), cj)
        if norm(flat[0]) != norm(tmpl[0]) or flat[1] != tmpl[1] or flat[2] != tmpl[2]:
            run.violate("C17/to_code-vs-template", "exec'd to_code text ran callbacks %s and ended in %s (%s); the template chart %s, %s (%s)"
                        % (flat[0][:30], flat[1], flat[2], tmpl[0][:30], tmpl[1], tmpl[2]), cj)
        # the text against the Lean ladder, state by state
        texts = tmpl[3]
        first = min(i for i in regs if regs[i]) if any(regs[i] for i in regs) else None
        first_registered = None
        for i in range(1, c.n + 1):
            if regs[i]:
                first_registered = i
                break
        for i in sorted(texts):
            lines.append(encode_table(i == first_registered, regs[i], name_handled))
            metas.append((cj, i, texts[i], c))
        run.case(cj, nontrivial=True)
    STATE_NAMES = None
    outs = leanrun.run_driver(lines)
    for (cj, i, text, c), mo in zip(metas, outs):
        ladder, parent = parse_to_code(text)
        got = []
        for kind, rhs in ladder:
            if rhs == "H!":
                got.append("%s:H!" % kind)
            else:
                m = re.match(r"cb_\d+_\w+?_([THU])(\d+)$", rhs)
                got.append("%s:%s" % (kind, ("T" + m.group(2)) if m.group(1) == "T" else m.group(1)))
        want_parent = "chart.top" if c.parent[i] == 0 else cj.get("template_names", {}).get(str(c.parent[i]), "s%d" % c.parent[i])
        run.traces_validated += 1
        if ",".join(got) != mo or parent != want_parent:
            run.disagree("to_code ladder", dict(cj, state=i), mo + " parent=" + want_parent, ",".join(got) + " parent=" + parent)


def replay(case):
    cc = case.get("case", case)
    c = charts.GenChart.from_json(cc["chart"])
    if cc.get("reparented"):
        c.reparented = {int(k): v for k, v in cc["reparented"].items()}
    regs = {int(i): [tuple(x) for x in v] for i, v in cc["regs"].items()}
    global STATE_NAMES
    STATE_NAMES = {int(k): v for k, v in cc["template_names"].items()} if cc.get("template_names") else None
    if cc.get("state_names"):
        print("factory", run_factory(c, regs, cc["start"], cc["events"], {int(k): v for k, v in cc["state_names"].items()}))
    rr = tuple(cc["rereg"]) if cc.get("rereg") else None
    for style in ("hand", "template", "lookup", "flat", "template-shared", "template-bound", "template-other-design", "template-shared-other-tree"):
        r = run_build(c, regs, style, cc["start"], cc["events"], cc.get("name_handled", False), rereg=rr if style in ("hand", "template", "lookup") else None)
        print(style, r[:3])
    return 0
