#!/usr/bin/env python3
"""dev tool: regenerate DESIGN.md §14 (the table of seeded changes) from seeded/*/meta.json."""
import json, os, glob, re

VERIF = os.path.dirname(os.path.dirname(os.path.abspath(__file__)))
BEGIN, END = "<!-- seeded-table:begin -->", "<!-- seeded-table:end -->"


def main():
    rows = []
    for p in sorted(glob.glob(os.path.join(VERIF, "seeded", "*", "meta.json"))):
        m = json.load(open(p))
        r = m.get("detection_result", {})
        line = (r.get("lines") or ["", ""])
        verdict = "caught, replay" if r.get("exit") == 1 and not line[0].endswith("no-failing-input-found") else \
                  ("caught, no-failing-input-found" if r.get("exit") == 1 else "MISSED")
        rows.append("| `seeded/%s` | %s | %s | %s | %s |" % (os.path.basename(os.path.dirname(p)), m["property"], m["change"],
                                                             m["needs_to_manifest"], verdict + " — " + m["detected_by"]))
    table = "\n".join([BEGIN, "", "## 14. Seeded changes: what breaks, what it needs, which check catches it", "",
                       "| dir | property | change | needs, to manifest | quick check of that property |", "|---|---|---|---|---|"]
                      + rows + ["", END])
    path = os.path.join(VERIF, "DESIGN.md")
    s = open(path).read()
    if BEGIN in s:
        s = s[:s.index(BEGIN)] + table + s[s.index(END) + len(END):]
    else:
        s = s.rstrip("\n") + "\n\n---------------------------------------------------------------------------\n\n" + table + "\n"
    open(path, "w").write(s)
    print(len(rows), "rows")


if __name__ == "__main__":
    main()
