"""C07: ActiveObject.subscribe / publish in every configuration, on real active objects under dsched,
against the outcome predicted by the Lean decision-logic model (`Conc.PS`, driver family `ps`)."""
import os, sys, json, itertools, random
import leanrun, dsched
import charts
from charts import mhsm, Event, signals, return_status
import miros.activeobject as mao

WHEN = ("before_start", "after_outside", "after_inside")


def all_configs():
    out = []
    for s_spied, s_when, kind, nothers, p_spied, p_when in itertools.product(
            (0, 1), WHEN, ("fifo", "lifo"), (0, 1, 2), (0, 1), WHEN):
        out.append({"sub_spied": s_spied, "sub_when": s_when, "kind": kind, "others": nothers,
                    "pub_spied": p_spied, "pub_when": p_when})
    return out


def encode(cfg, tags=9):
    # ps tags instrumented running others  (one line for the subscriber, one for the publisher)
    return "ps %d %d %d %d %d %d" % (tags, cfg["sub_spied"], int(cfg["sub_when"] != "before_start"), cfg["others"],
                                      cfg["pub_spied"], int(cfg["pub_when"] != "before_start"))


def make_chart(log, tag, spied, actions):
    """one-state chart; `actions[signal_name]` is run inside the handler (own-thread calls)"""
    def st(chart, e):
        sn = e.signal_name
        if sn in actions:
            actions[sn](chart)
            return return_status.HANDLED
        if sn == "PING":
            log.append((tag, "PING", e.payload))
            return return_status.HANDLED
        if e.signal in (signals.ENTRY_SIGNAL, signals.INIT_SIGNAL, signals.EXIT_SIGNAL):
            return return_status.HANDLED
        chart.temp.fun = chart.top
        return return_status.SUPER
    st.__name__ = "st_" + tag
    return mhsm.spy_on(st) if spied else st


def run_real(cfg, max_steps=6000):
    log = []
    errors = []
    with dsched.Installed():
        sched = dsched.Sched(dsched.round_robin_chooser(), max_steps=max_steps, trace=False)
        dsched.Sched.current = sched
        try:
            ping = Event(signal="PING", payload=1)
            kind = cfg["kind"]
            others = []
            for k in range(cfg["others"]):
                o = mao.ActiveObject(name="O%d" % k)
                o.subscribe(Event(signal="PING"), queue_type=kind)     # before start: meta event
                o.start_at(make_chart(log, "O%d" % k, True, {}))
                others.append(o)
            sub = mao.ActiveObject(name="A")
            pub = mao.ActiveObject(name="P")
            sub_actions = {"DO_SUB": lambda chart: chart.subscribe(Event(signal="PING"), queue_type=kind)}
            prio = cfg.get("priority", "default")

            def do_publish(obj):
                # with the default priority, or with one of the values a caller may pass (1 = "most urgent" in the class docstring)
                if prio == "default":
                    obj.publish(Event(signal="PING", payload=1))
                else:
                    obj.publish(Event(signal="PING", payload=1), priority=prio)
            pub_actions = {"DO_PUB": do_publish}
            if cfg.get("own_stop_first"):
                # the handler stops its own chart and THEN announces it: `chart.stop(); chart.publish(...)`
                pub_actions = {"DO_PUB": lambda obj: (obj.stop(), do_publish(obj))}
            sub_chart = make_chart(log, "A", cfg["sub_spied"], sub_actions)
            pub_chart = make_chart(log, "P", cfg["pub_spied"], pub_actions)

            def driver():
                # let the other subscribers settle
                if cfg["sub_when"] == "before_start":
                    sub.subscribe(Event(signal="PING"), queue_type=kind)
                    sub.start_at(sub_chart)
                else:
                    sub.start_at(sub_chart)
                    if cfg["sub_when"] == "after_outside":
                        sub.subscribe(Event(signal="PING"), queue_type=kind)
                    else:
                        sub.post_fifo(Event(signal="DO_SUB"))
                # wait (in scheduler terms) until the subscription could have taken effect
                for _ in range(60):
                    sched.yield_point("driver.pause")
                if cfg.get("clear_then_resub"):
                    # the program wipes the fabric's registry (as a test fixture does between tests) and the running object subscribes again
                    sub.fabric.clear()
                    if cfg["sub_when"] == "after_inside":
                        sub.post_fifo(Event(signal="DO_SUB"))
                    else:
                        sub.subscribe(Event(signal="PING"), queue_type=kind)
                    for _ in range(60):
                        sched.yield_point("driver.pause")
                if cfg["pub_when"] == "before_start":
                    do_publish(pub)
                    pub.start_at(pub_chart)
                else:
                    pub.start_at(pub_chart)
                    if cfg["pub_when"] == "after_outside":
                        do_publish(pub)
                    else:
                        pub.post_fifo(Event(signal="DO_PUB"))
            sched.spawn(driver, (), name="D")
            outcome = sched.run()
            for t in sched.threads:
                if t.error is not None:
                    errors.append("%s: %s: %s" % (t.name, type(t.error).__name__, t.error))
            fab = sub.fabric
            reg = fab.lifo_subscriptions if kind == "lifo" else fab.fifo_subscriptions
            registered = any(q is sub.queue for q in reg.get("PING", []))
        finally:
            leaked = sched.shutdown()
            if leaked:
                errors.append("leaked: %s" % leaked)
    got = {"A": sum(1 for x in log if x[0] == "A"), "others": [sum(1 for x in log if x[0] == "O%d" % k) for k in range(cfg["others"])]}
    return {"outcome": outcome, "registered": registered, "delivered": got, "errors": errors}


def run_position(cfg, max_steps=8000):
    """where does a published event land in the subscriber's pending-event queue?  The subscriber is stopped (its thread has
    ended, the fabric keeps running), two events are posted, then the fabric delivers a publication"""
    errors = []
    log = []
    saved_cap = mhsm.HsmWithQueues.QUEUE_SIZE
    if cfg.get("cap"):
        mhsm.HsmWithQueues.QUEUE_SIZE = cfg["cap"]
    try:
        return _run_position(cfg, max_steps, errors, log)
    finally:
        mhsm.HsmWithQueues.QUEUE_SIZE = saved_cap


def _run_position(cfg, max_steps, errors, log):
    with dsched.Installed():
        sched = dsched.Sched(dsched.round_robin_chooser(), max_steps=max_steps, trace=False)
        dsched.Sched.current = sched
        try:
            kind = cfg["kind"]
            sub = mao.ActiveObject(name="A")
            ref = mao.ActiveObject(name="B")      # reference: the same pending events, then a direct post_lifo / post_fifo
            kinds = ("fifo", "lifo") if kind == "both" else (kind,)

            def do_sub(chart):
                for kd in kinds:
                    chart.subscribe(Event(signal="PING"), queue_type=charts.string_as(kd, cfg.get("kind_form", "literal")))
            actions = {"DO_SUB": do_sub}
            chart = make_chart(log, "A", cfg["sub_spied"], actions)
            res = {}

            def quiet():
                me = sched.me()
                sched.yield_point("driver.settle", enabled=lambda: all(t is me or t.finished or not sched.is_enabled(t) for t in sched.threads))

            def driver():
                import collections
                for kd in cfg.get("deques_first", ()):
                    # somebody else's plain queue is registered for the signal before the active object subscribes
                    sub.fabric.subscribe(collections.deque(maxlen=50), Event(signal="PING"), queue_type=kd)
                if cfg["sub_when"] == "before_start":
                    do_sub(sub)
                    sub.start_at(chart)
                else:
                    sub.start_at(chart)
                    if cfg["sub_when"] == "after_outside":
                        do_sub(sub)
                    else:
                        sub.post_fifo(Event(signal="DO_SUB"))
                ref.start_at(make_chart(log, "B", cfg["sub_spied"], {}))
                quiet()
                sub.stop()
                ref.stop()
                for k in range(cfg.get("pending", 2)):
                    sub.post_fifo(Event(signal="X%d" % (k + 1)))
                    ref.post_fifo(Event(signal="X%d" % (k + 1)))
                sub.fabric.publish(Event(signal="PING", payload=7))
                for kd in kinds:
                    (ref.post_lifo if kd == "lifo" else ref.post_fifo)(Event(signal="PING", payload=7))
                quiet()
                res["pending"] = [e.signal_name for e in sub.queue.deque.raw() if e.signal_name != "STOP_ACTIVE_OBJECT_SIGNAL"]
                res["reference"] = [e.signal_name for e in ref.queue.deque.raw() if e.signal_name != "STOP_ACTIVE_OBJECT_SIGNAL"]
            sched.spawn(driver, (), name="D")
            outcome = sched.run()
            for t in sched.threads:
                if t.error is not None:
                    errors.append("%s: %s: %s" % (t.name, type(t.error).__name__, t.error))
        finally:
            leaked = sched.shutdown()
            if leaked:
                errors.append("leaked: %s" % leaked)
    return {"outcome": outcome, "pending": res.get("pending"), "reference": res.get("reference"), "errors": errors}


def run_position_race(cfg, chooser, max_steps=8000):
    """a stopped active object with an EMPTY queue, subscribed lifo; a publication is delivered by the fabric thread while another
    thread posts X1 (fifo) to the same object: whichever of the two lands first, the queue ends as [PING, X1]"""
    errors, log, res = [], [], {}
    with dsched.Installed():
        sched = dsched.Sched(chooser, max_steps=max_steps, trace=False)
        dsched.Sched.current = sched
        try:
            sub = mao.ActiveObject(name="A")
            sched.name_obj(sub.locking_deque.deque, "dq")       # its deque's operations are scheduling points
            chart = make_chart(log, "A", cfg["sub_spied"], {})

            def quiet():
                me = sched.me()
                sched.yield_point("driver.settle", enabled=lambda: all(t is me or t.finished or not sched.is_enabled(t) for t in sched.threads))
            go, taken = [False], [False]
            lq = sub.fabric.lifo_fabric_queue
            plain_get = lq.get

            def noting_get(*a, **k):
                item = plain_get(*a, **k)
                if go[0]:
                    taken[0] = True         # the lifo delivery thread holds the publication now
                return item
            lq.get = noting_get

            def poster():
                # start posting once the lifo delivery thread has taken the publication off its queue: the two then race for the object's queue
                sched.yield_point("poster.wait", enabled=lambda: go[0] and taken[0])
                for k in range(cfg["posts"]):
                    sub.post_fifo(Event(signal="X%d" % (k + 1)))

            def driver():
                sub.subscribe(Event(signal="PING"), queue_type="lifo")
                sub.start_at(chart)
                quiet()
                sub.stop()
                quiet()
                # drop the STOP event stop() left: the queue is really empty now
                sub.queue.clear()
                go[0] = True
                sub.fabric.publish(Event(signal="PING", payload=7))
                quiet()
                res["pending"] = [e.signal_name for e in sub.queue.deque.raw()]
            sched.spawn(driver, (), name="D")
            sched.spawn(poster, (), name="P")
            outcome = sched.run()
            for t in sched.threads:
                if t.error is not None:
                    errors.append("%s: %s: %s" % (t.name, type(t.error).__name__, t.error))
        finally:
            leaked = sched.shutdown()
            if leaked:
                errors.append("leaked: %s" % leaked)
    return {"outcome": outcome, "pending": res.get("pending"), "errors": errors}


def explore_position_race(run, n):
    """C09 with the delivery racing a direct post onto an empty queue (oracle only)"""
    rng = run.rng
    for _ in range(n):
        cfg = {"position_race": True, "sub_spied": rng.randrange(2), "posts": rng.randint(1, 2), "seed": rng.randrange(1 << 30)}
        r = run_position_race(cfg, dsched.random_chooser(random.Random(cfg["seed"])))
        run.traces_validated += 1
        run.count("lifo delivery racing a direct post onto an empty queue")
        want = ["PING"] + ["X%d" % (k + 1) for k in range(cfg["posts"])]
        if r["errors"]:
            run.violate("C09/thread-error", "a thread died: %s" % r["errors"][:2], cfg)
        elif r["pending"] is not None and r["pending"] != want:
            run.violate("C09/position/lifo", "an active object subscribed lifo with an empty queue: a delivered PING and %d direct fifo post(s) made at "
                        "the same time leave the queue as %s; front for the delivery, back for the posts gives %s in every order"
                        % (cfg["posts"], r["pending"], want), cfg)
        run.case(cfg, nontrivial=True)


def explore_position(run, focus="C09"):
    """C09 for active objects: every way of subscribing x fifo / lifo / both (nothing else subscribed anywhere);
    with focus C07 the same runs are judged on delivery only: the publication reaches the object's queue exactly once per
    subscription although other events are pending"""
    cfgs = [{"position": True, "sub_spied": spied, "sub_when": when, "kind": kind}
            for spied, when, kind in itertools.product((0, 1), WHEN, ("fifo", "lifo", "both"))]
    # pending-queue fill levels around a small capacity (the STOP event left by stop() occupies one slot): below, one short of
    # full, exactly full
    for kind in ("fifo", "lifo"):
        for cap, pending in ((4, 0), (4, 2), (4, 3), (4, 5), (3, 2), (2, 1)):
            cfgs.append({"position": True, "sub_spied": 1, "sub_when": "after_outside", "kind": kind, "cap": cap, "pending": pending})
    # plain deques already subscribed to the same signal (same kind, other kind, both) when the active object subscribes
    for k, first in enumerate((("lifo",), ("fifo",), ("lifo", "fifo"), ("lifo", "lifo"))):
        for kind in ("fifo", "lifo", "both"):
            cfgs.append({"position": True, "sub_spied": k % 2, "sub_when": WHEN[(k + len(kind)) % len(WHEN)], "kind": kind, "deques_first": list(first)})
    # the subscription kind given as an equal string that is not the literal (configuration file, JSON message, str subclass ...)
    for k, form in enumerate(charts.STRING_FORMS[1:]):
        for kind in ("fifo", "lifo", "both"):
            cfgs.append({"position": True, "sub_spied": k % 2, "sub_when": WHEN[(k + len(kind)) % len(WHEN)], "kind": kind, "kind_form": form})
    for cfg in cfgs:
        spied, when, kind = cfg["sub_spied"], cfg["sub_when"], cfg["kind"]
        if cfg.get("kind_form"):
            run.count("position: queue_type given as a string " + cfg["kind_form"])
        if cfg.get("deques_first"):
            run.count("position: plain deques subscribed to the signal first")
        r = run_position(cfg)
        run.traces_validated += 1
        run.count("position: subscribe %s%s" % (when, ", capacity %d with %d pending" % (cfg["cap"], cfg["pending"]) if cfg.get("cap") else ""))
        want = {"lifo": ["PING", "X1", "X2"], "fifo": ["X1", "X2", "PING"], "both": ["PING", "X1", "X2", "PING"]}[kind]
        if focus == "C07":
            n_want = 2 if kind == "both" else 1
            if r["errors"]:
                run.violate("C07/thread-error", "a thread died: %s" % r["errors"][:2], cfg)
            elif not cfg.get("cap") and (r["pending"] or []).count("PING") != n_want:
                run.violate("C07/not-delivered/pending-events", "active object subscribed %s (%s, %s chart) with X1, X2 pending: the published "
                            "PING is in its queue %d time(s): %s" % (kind, when, "spied" if spied else "un-spied",
                                                                     (r["pending"] or []).count("PING"), r["pending"]), cfg)
            run.case(cfg, nontrivial=True)
            continue
        if cfg.get("cap"):
            want = r["reference"]          # as post_lifo / post_fifo would, at this fill level
        if r["errors"]:
            run.violate("C09/thread-error", "a thread died: %s" % r["errors"][:2], cfg)
        elif r["pending"] != want:
            run.violate("C09/position/%s" % kind, "active object subscribed with queue_type=%s (%s, %s chart): with X1, X2 pending a published "
                        "PING left the queue as %s, expected %s (capacity %s)" % (kind, when, "spied" if spied else "un-spied", r["pending"], want, cfg.get("cap", 500)), cfg)
        run.case(cfg, nontrivial=True)


def run_publish_order(cfg, max_steps=8000):
    """an active object publishes several events with different priorities while the fifo delivery thread is held inside a slow
    subscriber (maximal lag): in which order do they reach an observer queue?"""
    import collections
    errors, log = [], []
    res = {}
    with dsched.Installed():
        sched = dsched.Sched(dsched.round_robin_chooser(), max_steps=max_steps, trace=False)
        dsched.Sched.current = sched
        try:
            released = [False]

            class Slow:
                """a subscriber whose append takes as long as the driver wants"""
                def append(self, e):
                    sched.yield_point("slow.append", enabled=lambda: released[0])
            pub = mao.ActiveObject(name="P")
            obs = collections.deque(maxlen=100)
            pubs = cfg["pubs"]

            objs = cfg.get("objs")        # build once, publish many: publication k hands over the kept event object objs[k]
            kept = {}

            def event_for(k):
                if objs is None:
                    return Event(signal="NEWS", payload=k)
                if objs[k] not in kept:
                    kept[objs[k]] = Event(signal="NEWS", payload=objs[k])
                return kept[objs[k]]

            def do_all(chart):
                for k, p in enumerate(pubs):
                    if p == "default":
                        chart.publish(event_for(k))
                    else:
                        chart.publish(event_for(k), priority=p)
            chart = make_chart(log, "P", cfg["pub_spied"], {"DO_ALL": do_all})

            def quiet():
                me = sched.me()
                sched.yield_point("driver.settle", enabled=lambda: all(t is me or t.finished or not sched.is_enabled(t) for t in sched.threads))

            def driver():
                pub.start_at(chart)
                af = pub.fabric
                af.subscribe(Slow(), Event(signal="HOLD"), queue_type="fifo")
                af.subscribe(obs, Event(signal="NEWS"), queue_type="fifo")
                af.publish(Event(signal="HOLD"), priority=1)
                quiet()                                   # the fifo delivery thread now sits in Slow.append
                if cfg["from_handler"]:
                    pub.post_fifo(Event(signal="DO_ALL"))
                else:
                    do_all(pub)
                quiet()
                released[0] = True
                quiet()
                res["order"] = [e.payload for e in obs]
            sched.spawn(driver, (), name="D")
            outcome = sched.run()
            for t in sched.threads:
                if t.error is not None:
                    errors.append("%s: %s: %s" % (t.name, type(t.error).__name__, t.error))
        finally:
            leaked = sched.shutdown()
            if leaked:
                errors.append("leaked: %s" % leaked)
    return {"outcome": outcome, "order": res.get("order"), "errors": errors}


def explore_publish_order(run, focus, n):
    """C08 (and C07) through the active object's own publish(): priorities given to ActiveObject.publish, spied and un-spied charts,
    from outside and from a handler, the delivery thread lagging behind all of them (oracle only)"""
    rng = run.rng
    for _ in range(n):
        cfg = {"publish_order": True, "pub_spied": rng.randrange(2), "from_handler": rng.randrange(2),
               "pubs": [rng.choice(["default", 1, 2, 5, 500, 1000, 1001, 0]) for _ in range(rng.randint(2, 5))]}
        if rng.random() < 0.4:
            # the same kept event objects published again and again (a heartbeat built once), other publications in between
            cfg["pubs"] = [rng.choice(["default", "default", 1000, 5, 5]) for _ in range(rng.randint(3, 6))]
            cfg["objs"] = [rng.randrange(2) if rng.random() < 0.6 else 2 + k for k in range(len(cfg["pubs"]))]
            run.count("kept event objects published several times")
        r = run_publish_order(cfg)
        run.traces_validated += 1
        run.count("publish order through an active object (%s chart, %s)" % ("spied" if cfg["pub_spied"] else "un-spied",
                                                                             "from a handler" if cfg["from_handler"] else "from outside"))
        val = lambda p: 1000 if p == "default" else p
        want = sorted(range(len(cfg["pubs"])), key=lambda k: (val(cfg["pubs"][k]), k))
        if r["errors"]:
            run.violate("%s/thread-error" % focus, "a thread died: %s" % r["errors"][:2], cfg)
        elif r["order"] is None:
            pass
        elif cfg.get("objs"):
            if r["order"] != [cfg["objs"][k] for k in want]:
                run.violate("%s/order/kept-event-objects" % focus, "publications 0..%d hand over the kept event objects %s with priorities %s while the "
                            "delivery thread lags: the objects arrive as %s, (priority, publish order) gives %s"
                            % (len(cfg["pubs"]) - 1, cfg["objs"], cfg["pubs"], r["order"], [cfg["objs"][k] for k in want]), cfg)
        elif sorted(r["order"]) != list(range(len(cfg["pubs"]))):
            run.violate("%s/not-delivered/through-active-object" % focus, "a%s active object published %d events (priorities %s) while the delivery "
                        "thread lagged: the observer received %s" % (" spied" if cfg["pub_spied"] else "n un-spied", len(cfg["pubs"]), cfg["pubs"], r["order"]), cfg)
        elif r["order"] != want:
            run.violate("%s/order/through-active-object" % focus, "a%s active object published events 0..%d with priorities %s (%s) while the delivery "
                        "thread lagged: they arrived as %s, (priority, publish order) gives %s"
                        % (" spied" if cfg["pub_spied"] else "n un-spied", len(cfg["pubs"]) - 1, cfg["pubs"],
                           "from a handler" if cfg["from_handler"] else "from outside", r["order"], want), cfg)
        run.case(cfg, nontrivial=True)


def explore(run, n):
    rng = run.rng
    cfgs = all_configs()
    if n < len(cfgs):
        cfgs = rng.sample(cfgs, n)
    else:
        run.exhaustive = True
    outs = leanrun.run_driver([encode(c) for c in cfgs])
    for cfg, mo in zip(cfgs, outs):
        cfg = dict(cfg, priority=rng.choice(["default", "default", 1, 1, 0, 2, 7, 1000, 1001, 1.0, True]))
        if cfg["pub_when"] not in ("before_start", "after_outside") and rng.random() < 0.35:
            cfg["own_stop_first"] = True
            run.count("the publishing handler stops its own chart first")
        if rng.random() < 0.25:
            cfg["clear_then_resub"] = True
            run.count("registry cleared, then the running object subscribes again")
        run.count("publish priority %r" % (cfg["priority"],))
        r = run_real(cfg)
        m = dict(kv.split("=") for kv in mo.split(" "))
        run.traces_validated += 1
        run.count("sub %s / pub %s" % (cfg["sub_when"], cfg["pub_when"]))
        run.count("subscriber %s" % ("spied" if cfg["sub_spied"] else "un-spied"))
        cj = dict(cfg)
        predicted = m["subscribed"] == "1" and m["published"] == "1"
        if (m["subscribed"] == "1") != r["registered"] or predicted != (r["delivered"]["A"] >= 1):
            run.disagree("subscribe/publish outcome per configuration", cj, mo, r)
        if r["errors"]:
            run.violate("C07/thread-error", "a thread died: %s" % r["errors"][:2], cj)
        if not r["registered"]:
            run.violate("C07/not-subscribed/%s/%s" % ("spied" if cfg["sub_spied"] else "unspied", cfg["sub_when"]),
                        "subscribe(PING, %s) by a%s chart (%s, %d other subscribers) did not register its queue with the fabric"
                        % (cfg["kind"], " spied" if cfg["sub_spied"] else "n un-spied", cfg["sub_when"], cfg["others"]), cj)
        elif r["delivered"]["A"] != 1:
            run.violate("C07/not-delivered/%s/%s" % ("spied" if cfg["pub_spied"] else "unspied", cfg["pub_when"]),
                        "publish(PING) by a%s chart (%s) reached the subscriber's chart %d times"
                        % (" spied" if cfg["pub_spied"] else "n un-spied", cfg["pub_when"], r["delivered"]["A"]), cj)
        for k, cnt in enumerate(r["delivered"]["others"]):
            if cnt != (0 if cfg.get("clear_then_resub") else 1):
                run.violate("C07/other-subscriber", "subscriber O%d received the publication %d times" % (k, cnt), cj)
        run.case(cj, nontrivial=True)


def replay(case):
    cc = case.get("case", case)
    if cc.get("position"):
        print(run_position(cc))
        return 0
    if cc.get("position_race"):
        print(run_position_race(cc, dsched.random_chooser(random.Random(cc["seed"]))))
        return 0
    if cc.get("publish_order"):
        print(run_publish_order(cc))
        return 0
    print(run_real(cc))
    print(leanrun.run_driver([encode(cc)]))
    return 0
