"""Layer-2 correspondence: Lean `Miros.Queue` model ↔ real `HsmWithQueues` on random
interleavings of external posts, handler posts, defer/recall, next_rtc and complete_circuit."""
import os, sys, json, re
import charts, leanrun
from charts import mhsm, Event, Diverged, signals, return_status

SIGCODE = {"en": 0, "ex": 1, "in": 2}
EFFK = {"F": 0, "L": 1, "D": 2, "R": 3, "S": 4}
STEP_BUDGET = 300


def sigcode(kind):
    if kind in SIGCODE:
        return SIGCODE[kind]
    if kind[0] == "u":
        return 10 + int(kind[1:])
    return {"su": 3, "em": 4, "rf": 5}[kind]


def gen_effects(rng, c, rate=0.25):
    """effects table: (state, kind) -> [(effkind, arg)]"""
    eff = {}
    kinds = ["en", "ex", "in"] + ["u%d" % s for s in range(c.nsig)]
    for i in range(1, c.n + 1):
        for k in kinds:
            if rng.random() < rate:
                lst = []
                for _ in range(rng.choice([1, 1, 1, 2, 3])):
                    ek = rng.choice(["F", "F", "L", "D", "R", "S"])
                    lst.append((ek, rng.randrange(c.nsig) if ek != "S" else rng.choice([0, 1, 2, 3, 4, 90, 91])))
                eff[(i, k)] = lst
    # hooks that ask the chart for its current state while they run (a handler may do that)
    for i in range(1, c.n + 1):
        for s, r in c.react[i].items():
            if r[0] == "H" and rng.random() < 0.25:
                eff.setdefault((i, "u%d" % s), []).append(("S", 90))
    return eff


def gen_qops(rng, c, nops):
    ops = [(0, rng.randrange(1, c.n + 1))]
    for _ in range(nops):
        r = rng.random()
        if r < 0.28:
            ops.append((4, rng.randrange(c.nsig)))
        elif r < 0.42:
            ops.append((5, rng.randrange(c.nsig)))
        elif r < 0.52:
            ops.append((6, rng.randrange(c.nsig)))
        elif r < 0.60:
            ops.append((7, 0))
        elif r < 0.93:
            ops.append((8, 0))
        else:
            ops.append((9, 0))
    return ops


def encode(c, eff, cap, ops, cfg=9, family="q"):
    head = c.encode([], cfg=cfg, family=family).split(" ")[:-1]  # drop nOps=0
    toks = head + ["U" if cap >= UNBOUNDED else cap]          # U: the unbounded model (Queue/Unbounded.lean)
    el = []
    for (i, k), lst in sorted(eff.items()):
        for ek, a in lst:
            el += [i, sigcode(k), EFFK[ek], a]
    toks += [len(el) // 4] + el + [len(ops)]
    for o, a in ops:
        toks += [o, a]
    return " ".join(str(t) for t in toks)


def evs(dq):
    return ",".join("%s.%s" % (e.signal_name[1:], e.payload) for e in dq)


class Twin:
    """another queued chart object, alive next to the one under test and busy between (and inside) its operations: whatever the
    library keeps per object must not leak from one object to the other"""

    def __init__(self, seed, instrumented=True):
        import random as _random
        self.rng = _random.Random(seed)
        self.hsm = mhsm.HsmWithQueues(instrumented=instrumented)
        self.n = 0

        def t1(chart, e):
            if e.signal in (signals.ENTRY_SIGNAL, signals.INIT_SIGNAL, signals.EXIT_SIGNAL):
                return return_status.HANDLED
            if e.signal_name == "TW0":
                return chart.trans(t2)
            if e.signal_name == "TW1":
                chart.defer(e)
                return return_status.HANDLED
            chart.temp.fun = chart.top
            return return_status.SUPER

        def t2(chart, e):
            if e.signal in (signals.ENTRY_SIGNAL, signals.EXIT_SIGNAL):
                return return_status.HANDLED
            if e.signal == signals.INIT_SIGNAL:
                return return_status.HANDLED
            if e.signal_name == "TW0":
                chart.recall()
                return chart.trans(t1)
            chart.temp.fun = t1
            return return_status.SUPER
        t1.__name__, t2.__name__ = "tw1", "tw2"
        if instrumented:
            t1, t2 = mhsm.spy_on(t1), mhsm.spy_on(t2)
        self.hsm.start_at(t1)

    def poke(self):
        for _ in range(self.rng.randint(0, 2)):
            r = self.rng.random()
            self.n += 1
            if r < 0.35:
                self.hsm.post_fifo(Event(signal="TW%d" % self.rng.randrange(3), payload=self.n))
            elif r < 0.5:
                self.hsm.post_lifo(Event(signal="TW%d" % self.rng.randrange(3), payload=self.n))
            elif r < 0.6:
                self.hsm.defer(Event(signal="TW2", payload=self.n))
            elif r < 0.7:
                self.hsm.recall()
            elif r < 0.95:
                self.hsm.next_rtc()
            else:
                self.hsm.clear_spy()
                self.hsm.clear_trace()


UNBOUNDED = 10 ** 6


def run_real(c, eff, cap, ops, spied=True, instrumented=True, want_spy=False, twin_seed=None):
    base = charts.probed_class(mhsm.HsmWithQueues)
    twin = Twin(twin_seed, instrumented=instrumented) if twin_seed is not None else None

    class Q(base):
        QUEUE_SIZE = None if cap >= UNBOUNDED else cap          # a subclass may ask for queues without a bound

        def dispatch(self, e):
            self._vp_disp.append(e)
            self._vp_marks.append(len(self._vp_log))
            return super().dispatch(e)

        def next_rtc(self):
            self._vp_steps += 1
            if self._vp_steps > self._vp_budget:
                raise Diverged()
            return super().next_rtc()

    hsm = Q(instrumented=instrumented)
    hsm._vp_disp = []
    hsm._vp_steps = 0
    hsm._vp_budget = 10 ** 9
    uid = [0]
    log = []
    hsm._vp_log = log
    hsm._vp_marks = []
    hsm._vp_info = []

    def mkev(sig):
        e = Event(signal="E%d" % sig, payload=uid[0])
        uid[0] += 1
        return e

    def effects(chart, i, kind, e):
        if twin is not None and kind in ("en", "ex") and twin.rng.random() < 0.3:
            twin.poke()
        for ek, a in eff.get((i, kind), ()):
            if ek == "F":
                chart.post_fifo(mkev(a))
            elif ek == "L":
                chart.post_lifo(mkev(a))
            elif ek == "D":
                chart.defer(mkev(a))
            elif ek == "R":
                chart.recall()
            else:
                if a >= 90 and hasattr(chart, "current_state"):
                    chart.current_state()      # a handler asking the chart for its state (no line, no effect)
                chart.scribble(charts.scribble_value(a))

    fns = c.build(log, spied=spied, counter=hsm._vp_count, effects=effects)
    inv = {getattr(getattr(f, "__wrapped__", f), "__name__"): i for i, f in fns.items()}
    out, spies = [], []
    for o, a in ops:
        if twin is not None:
            twin.poke()
        del log[:]
        del hsm._vp_marks[:]
        ndisp = len(hsm._vp_disp)
        hsm._vp_calls = 0
        ret = "-"
        try:
            if o == 0:
                hsm.start_at(fns[a])
            elif o == 4:
                hsm.post_fifo(mkev(a))
            elif o == 5:
                hsm.post_lifo(mkev(a))
            elif o == 6:
                hsm.defer(mkev(a))
            elif o == 7:
                r = hsm.recall()
                ret = "None" if r is None else "%s.%s" % (r.signal_name[1:], r.payload)
            elif o == 8:
                ret = str(hsm.next_rtc())
            else:
                hsm._vp_steps = 0
                hsm._vp_budget = STEP_BUDGET
                try:
                    hsm.complete_circuit()
                finally:
                    hsm._vp_budget = 10 ** 9
            cur = charts.state_id(hsm.state.fun, inv) if hasattr(hsm.state, "fun") else 0
            shown = charts.fmt_log(log) if o in (0, 8) else ""
            out.append("ok ret=%s cur=%d q=%s d=%s disp=%s log=%s" % (
                ret, cur, evs(hsm.queue), evs(hsm.defer_queue), evs(hsm._vp_disp), shown))
            hsm._vp_info.append({"log": list(log), "marks": list(hsm._vp_marks), "disp": [evs([e]) for e in hsm._vp_disp[ndisp:]]})
            if want_spy:
                spies.append({"rtc": hsm.spy_rtc() if instrumented else None,
                              "full": hsm.spy() if instrumented else None,
                              "trace": list(hsm.full.trace) if instrumented else None})
        except mhsm.HsmTopologyException:
            out.append("raise")
            break
        except Diverged:
            out.append("diverge")
            break
        except Exception as ex:
            out.append("error:%s" % type(ex).__name__)
            break
    return out, hsm, spies


def case_json(c, eff, cap, ops, **kw):
    d = {"chart": c.to_json(), "eff": [[i, k, lst] for (i, k), lst in sorted(eff.items())], "cap": cap,
         "ops": [list(o) for o in ops]}
    d.update(kw)
    return d


def from_json(d):
    c = charts.GenChart.from_json(d["chart"])
    eff = {(i, k): [tuple(x) for x in lst] for i, k, lst in d["eff"]}
    return c, eff, d["cap"], [tuple(o) for o in d["ops"]]


QLINE = re.compile(r"^ok ret=(\S*) cur=(\d+) q=(\S*) d=(\S*) disp=(\S*) log=(\S*)$")


def parse(line):
    m = QLINE.match(line)
    if not m:
        return None
    f = lambda s: [x for x in s.split(",") if x]
    return {"ret": m.group(1), "cur": m.group(2), "q": f(m.group(3)), "d": f(m.group(4)), "disp": f(m.group(5)),
            "log": f(m.group(6))}


def gen_case(rng, caps=(2, 3, 4, 5, 500), eff_rate=0.25, nops=(3, 14), nmax=8):
    c = charts.gen_chart(rng, nmax=nmax)
    eff = gen_effects(rng, c, rate=rng.choice([0.0, eff_rate, eff_rate, 0.5]))
    cap = rng.choice(caps)
    ops = gen_qops(rng, c, rng.randint(*nops))
    if rng.random() < 0.12 and len(ops) > 3:
        # the same chart object started again in the middle of its history (queues are kept)
        ops.insert(rng.randint(2, len(ops) - 1), (0, rng.randrange(1, c.n + 1)))
    return c, eff, cap, ops


def explore(run, focus, n_random):
    """tie (every op, complete observable state) + implementation-side oracles for C14/C15/C16"""
    rng = run.rng
    cases = []
    import glob
    for f in sorted(glob.glob(os.path.join(os.path.dirname(os.path.dirname(os.path.abspath(__file__))), "corpus", focus, "*.json"))):
        cases.append(from_json(json.load(open(f))))
        run.count("corpus")
    caps = (2, 3, 4, 5, 500, UNBOUNDED) if focus != "C16" else (1, 2, 3, 4, 500, UNBOUNDED)
    for _ in range(n_random):
        cases.append(gen_case(rng, caps=caps))
    outs = leanrun.run_driver([encode(*k) for k in cases])
    for k, o in zip(cases, outs):
        c, eff, cap, ops = k
        spied = rng.random() < 0.5
        twin_seed = rng.randrange(1 << 30) if rng.random() < 0.3 else None
        real, hsm, _ = run_real(c, eff, cap, ops, spied=spied, twin_seed=twin_seed)
        model = o.split(" | ")
        cj = case_json(c, eff, cap, ops, spied=spied, twin_seed=twin_seed)
        if twin_seed is not None:
            run.count("a second queued chart object busy alongside")
        run.traces_validated += 1
        if real != model:
            run.disagree("queued chart: queue/defer/dispatched/call log after every op", cj, model, real)
        interesting = queue_oracle(run, focus, c, eff, cap, ops, real, cj)
        if focus in ("C14", "C15"):
            deque_oracle(run, c, eff, cap, ops, real, hsm, cj)
        run.case(cj, nontrivial=interesting)


def queue_oracle(run, focus, c, eff, cap, ops, real, cj):
    prev = {"q": [], "d": [], "disp": []}
    hit = False
    for idx, (o, a) in enumerate(ops):
        if idx >= len(real):
            break
        r = parse(real[idx])
        if r is None:
            if real[idx] != "diverge":
                run.violate("%s/unexpected-%s" % (focus, real[idx]), "op %s ended with %s" % ((o, a), real[idx]), upto(cj, idx))
            break
        newdisp = r["disp"][len(prev["disp"]):]
        if focus == "C14":
            if o == 8:
                hit = True
                if prev["q"]:
                    run.count("next_rtc on non-empty queue")
                    if r["ret"] != "True" or newdisp[:1] != prev["q"][:1] or len(newdisp) != 1:
                        run.violate("C14/next_rtc-front", "next_rtc with queue %s dispatched %s (ret %s)" % (prev["q"], newdisp, r["ret"]), upto(cj, idx))
                else:
                    run.count("next_rtc on empty queue")
                    if r["ret"] != "False" or newdisp or r["q"] != prev["q"] or r["d"] != prev["d"]:
                        run.violate("C14/next_rtc-empty", "next_rtc on an empty queue: ret=%s dispatched=%s" % (r["ret"], newdisp), upto(cj, idx))
            if o == 4:
                hit = True
                run.count("post_fifo" + (" (full)" if len(prev["q"]) >= cap else ""))
                if not r["q"] or r["q"][-1].split(".")[0] != str(a) or r["q"][:-1] != (prev["q"] if len(prev["q"]) < cap else prev["q"][1:]):
                    run.violate("C14/post_fifo-back", "post_fifo(E%d) on %s gave %s" % (a, prev["q"], r["q"]), upto(cj, idx))
            if o == 5:
                hit = True
                run.count("post_lifo" + (" (full)" if len(prev["q"]) >= cap else ""))
                if not r["q"] or r["q"][0].split(".")[0] != str(a) or r["q"][1:] != (prev["q"] if len(prev["q"]) < cap else prev["q"][:-1]):
                    run.violate("C14/post_lifo-front", "post_lifo(E%d) on %s gave %s" % (a, prev["q"], r["q"]), upto(cj, idx))
            if o == 9:
                hit = True
                run.count("complete_circuit")
                if r["q"]:
                    run.violate("C14/complete_circuit", "complete_circuit returned with queue %s" % r["q"], upto(cj, idx))
            if len(set(r["disp"])) != len(r["disp"]):
                run.violate("C14/dispatched-twice", "an event object was dispatched twice: %s" % r["disp"], upto(cj, idx))
        if focus == "C15":
            if o == 7:
                hit = True
                if prev["d"]:
                    run.count("recall with deferred events")
                    ok = r["ret"] == prev["d"][0] and r["d"] == prev["d"][1:] and r["q"] and r["q"][-1] == prev["d"][0]
                    if not ok:
                        run.violate("C15/recall-oldest", "recall with deferred %s returned %s, deferred now %s, queue %s" % (prev["d"], r["ret"], r["d"], r["q"]), upto(cj, idx))
                else:
                    run.count("recall with nothing deferred")
                    if r["ret"] != "None" or r["q"] != prev["q"] or r["d"] != prev["d"]:
                        run.violate("C15/recall-empty", "recall with nothing deferred returned %s / changed the queues" % r["ret"], upto(cj, idx))
            if o == 6:
                hit = True
                run.count("defer" + (" (full)" if len(prev["d"]) >= cap else ""))
                if len(prev["d"]) < cap and (r["d"][:-1] != prev["d"] or r["d"][-1].split(".")[0] != str(a)):
                    run.violate("C15/defer-order", "defer(E%d) on %s gave %s" % (a, prev["d"], r["d"]), upto(cj, idx))
            for e in newdisp:
                if e in prev["d"] and e in r["d"]:
                    run.violate("C15/dispatched-while-deferred", "event %s was dispatched while still deferred" % e, upto(cj, idx))
            if set(r["disp"]) & set(r["d"]):
                run.violate("C15/dispatched-while-deferred", "events %s are both dispatched and deferred" % (set(r["disp"]) & set(r["d"])), upto(cj, idx))
        if focus == "C16":
            hit = True
            if len(r["q"]) > cap or len(r["d"]) > cap:
                run.violate("C16/queued-unbounded", "queue %d / deferred %d entries with capacity %d" % (len(r["q"]), len(r["d"]), cap), upto(cj, idx))
            if o == 4:
                full = len(prev["q"]) >= cap
                run.count("post_fifo on %s queue" % ("full" if full else "non-full"))
                if not r["q"] or r["q"][-1].split(".")[0] != str(a) or (full and r["q"][:-1] != prev["q"][1:]):
                    run.violate("C16/queued-fifo-full", "post_fifo(E%d) on %s (cap %d) gave %s" % (a, prev["q"], cap, r["q"]), upto(cj, idx))
            if o == 5:
                full = len(prev["q"]) >= cap
                run.count("post_lifo on %s queue" % ("full" if full else "non-full"))
                if not r["q"] or r["q"][0].split(".")[0] != str(a) or (full and r["q"][1:] != prev["q"][:-1]):
                    run.violate("C16/queued-lifo-full", "post_lifo(E%d) on %s (cap %d) gave %s" % (a, prev["q"], cap, r["q"]), upto(cj, idx))
        prev = r
    return hit


def explore_same_objects(run, focus, n):
    """the same few Event OBJECTS posted / deferred again and again (a program that keeps its events, a multi-shot post):
    the pending queue and the deferred list are compared, by object identity, with two plain lists driven by the same operations"""
    rng = run.rng
    for _ in range(n):
        instrumented = rng.random() < 0.5
        log = []

        def st(chart, e):
            if e.signal_name in ("A", "B", "C", "STOP_ACTIVE_OBJECT_SIGNAL", "PUBLISH_META_SIGNAL", "SUBSCRIBE_META_SIGNAL"):
                log.append(e)
                return return_status.HANDLED
            if e.signal in (signals.ENTRY_SIGNAL, signals.INIT_SIGNAL, signals.EXIT_SIGNAL):
                return return_status.HANDLED
            chart.temp.fun = chart.top
            return return_status.SUPER
        st.__name__ = "only"
        hsm = mhsm.HsmWithQueues()
        hsm.start_at(mhsm.spy_on(st) if instrumented else st)
        pool = [Event(signal=nm) for nm in ("A", "B", "C")[:rng.randint(1, 3)]]
        if rng.random() < 0.3:
            # events carrying one of the library's own signals travel through queues like any other event
            pool.append(Event(signal=rng.choice([signals.STOP_ACTIVE_OBJECT_SIGNAL, signals.PUBLISH_META_SIGNAL, signals.SUBSCRIBE_META_SIGNAL])))
        q, d = [], []
        ops = []
        bad = None
        for _ in range(rng.randint(3, 14)):
            r = rng.random()
            k = rng.randrange(len(pool))
            if r < 0.3:
                ops.append(("defer", k)); hsm.defer(pool[k]); d.append(pool[k])
            elif r < 0.5:
                ops.append(("post_fifo", k)); hsm.post_fifo(pool[k]); q.append(pool[k])
            elif r < 0.6:
                ops.append(("post_lifo", k)); hsm.post_lifo(pool[k]); q.insert(0, pool[k])
            elif r < 0.85:
                ops.append(("recall",)); got = hsm.recall()
                want = d.pop(0) if d else None
                if want is not None:
                    q.append(want)
                if got is not want:
                    bad = "recall() returned %s, expected %s" % (getattr(got, "signal_name", got), getattr(want, "signal_name", want))
            else:
                ops.append(("next_rtc",)); n0 = len(log); hsm.next_rtc()
                want = q.pop(0) if q else None
                gotl = log[n0:]
                if (want is None and gotl) or (want is not None and (len(gotl) != 1 or gotl[0] is not want)):
                    bad = "next_rtc dispatched %s, expected %s" % ([e.signal_name for e in gotl], getattr(want, "signal_name", None))
            if bad is None and ([id(x) for x in hsm.queue] != [id(x) for x in q] or [id(x) for x in hsm.defer_queue] != [id(x) for x in d]):
                bad = "after %s the queue is %s / deferred %s; two plain lists driven by the same operations hold %s / %s" % (
                    ops[-1], [e.signal_name for e in hsm.queue], [e.signal_name for e in hsm.defer_queue],
                    [e.signal_name for e in q], [e.signal_name for e in d])
            if bad:
                break
        cj = {"what": "same-objects", "pool": len(pool), "instrumented": instrumented, "ops": [list(o) for o in ops]}
        run.count("event objects reused (%s chart)" % ("instrumented" if instrumented else "un-instrumented"))
        run.traces_validated += 1
        if bad:
            run.violate("%s/same-event-object" % focus, "%d event objects posted and deferred repeatedly: %s" % (len(pool), bad), cj)
        run.case(cj, nontrivial=True)


def explore_failed_step(run, focus, n):
    """a run-to-completion step that fails (the handler raises, or returns no status so that the processor raises): the
    program catches the exception and goes on; every event is still dispatched at most once, in queue order"""
    rng = run.rng
    for _ in range(n):
        instrumented = rng.random() < 0.5
        circuit = rng.random() < 0.4
        how = rng.choice(["raises", "raises", "none"])
        exc_type = rng.choice([ValueError, IndexError, KeyError, LookupError, StopIteration, AttributeError, RuntimeError, TypeError,
                               AssertionError, ZeroDivisionError, OSError, type("HandlerFailed", (Exception,), {})])
        log = []

        def st(chart, e):
            sn = e.signal_name
            if sn in ("OK", "BAD", "LATER"):
                log.append((sn, e.payload))
                if sn == "BAD":
                    if posts_first:
                        chart.post_fifo(Event(signal="LATER", payload=e.payload))
                    if how == "raises":
                        raise exc_type("handler failed")
                    return None
                return return_status.HANDLED
            if e.signal in (signals.ENTRY_SIGNAL, signals.INIT_SIGNAL, signals.EXIT_SIGNAL):
                return return_status.HANDLED
            chart.temp.fun = chart.top
            return return_status.SUPER
        st.__name__ = "only"
        posts_first = rng.random() < 0.5
        hsm = mhsm.HsmWithQueues()
        hsm.start_at(mhsm.spy_on(st) if instrumented else st)
        script = [rng.choice(["OK", "OK", "BAD"]) for _ in range(rng.randint(2, 6))]
        if "BAD" not in script:
            script[rng.randrange(len(script))] = "BAD"
        want = []
        pending = []
        for k, sn in enumerate(script):
            hsm.post_fifo(Event(signal=sn, payload=k))
            pending.append((sn, k))
        # reference: a plain list; a failed step has consumed its event
        q = list(pending)
        while q:
            sn, k = q.pop(0)
            want.append((sn, k))
            if sn == "BAD" and posts_first:
                q.append(("LATER", k))
        failures = 0
        left_pending = None
        for _ in range(4 * len(script) + 4):
            try:
                if circuit:
                    hsm.complete_circuit()
                    if len(hsm.queue) != 0 and left_pending is None:
                        left_pending = len(hsm.queue)
                else:
                    hsm.next_rtc()
            except (exc_type, mhsm.HsmTopologyException):
                failures += 1
            if len(hsm.queue) == 0:
                break
        cj = {"what": "failed-step", "script": script, "instrumented": instrumented, "complete_circuit": circuit, "how": how,
              "posts_first": posts_first, "exception": exc_type.__name__}
        run.count("a failing step (%s), driver catches and continues" % (how if how == "none" else "raises " + exc_type.__name__))
        run.traces_validated += 1
        if left_pending is not None:
            run.violate("%s/complete-circuit-returned-with-events-pending" % focus, "script %s (BAD's handler raises %s): complete_circuit() "
                        "returned normally with %d event(s) still queued" % (script, exc_type.__name__, left_pending), cj)
        n_bad = sum(1 for sn, _ in log if sn == "BAD")
        if failures != n_bad and log == want:
            run.violate("%s/failed-step-exception-lost" % focus, "script %s: %d steps failed (handler %s) but the driver saw %d exceptions"
                        % (script, n_bad, "raises " + exc_type.__name__ if how == "raises" else "returns no status", failures), cj)
        if log != want:
            run.violate("%s/failed-step" % focus, "script %s (BAD's handler %s%s), driven by %s, exceptions caught: dispatched %s, a double-ended "
                        "queue driven by the same operations gives %s" % (script, "posts LATER and " if posts_first else "", "raises" if how == "raises"
                                                                          else "returns no status", "complete_circuit" if circuit else "next_rtc",
                                                                          log, want), cj)
        run.case(cj, nontrivial=True)


class HandlerFault(Exception):
    pass


def run_eager_recall(k, chain, instrumented, posts_after, raise_on=None):
    """k deferred events (payloads 0..k-1), an OTHER event (payload 1000+j) posted after the deferrals listed in posts_after, then
    recalls from outside until one returns None; returns (driver ops, dispatched, returned, still deferred, still queued, error)"""
    dispatched, returned, ops, raised = [], [], [], []

    class Eager(mhsm.HsmWithQueues):
        _running = False

        def _drain(self):
            if self._running:
                return
            self._running = True
            try:
                while self.next_rtc():
                    pass
            finally:
                self._running = False

        def post_fifo(self, e):
            super().post_fifo(e)
            self._drain()

        def post_lifo(self, e):
            super().post_lifo(e)
            self._drain()

    def st(chart, e):
        if e.signal_name in ("DEFERRED_WORK", "OTHER"):
            dispatched.append(e.payload)
            if raise_on is not None and e.payload == raise_on and not raised:
                raised.append(e.payload)
                raise HandlerFault("the handler of %r failed" % (e.payload,))      # once: the step fails, the event HAS been dispatched
            if chain and e.signal_name == "DEFERRED_WORK":
                r = chart.recall()
                returned.append(None if r is None else r.payload)
            return return_status.HANDLED
        if e.signal in (signals.ENTRY_SIGNAL, signals.INIT_SIGNAL, signals.EXIT_SIGNAL):
            return return_status.HANDLED
        chart.temp.fun = chart.top
        return return_status.SUPER
    st.__name__ = "only"
    hsm = Eager(instrumented=False) if not instrumented else Eager()
    hsm.start_at(mhsm.spy_on(st) if instrumented else st)
    err = None
    try:
        for i in range(k):
            hsm.defer(Event(signal="DEFERRED_WORK", payload=i))
            ops += [0, i]
            if i in posts_after:
                hsm.post_fifo(Event(signal="OTHER", payload=1000 + i))
                ops += [2, 1000 + i]
        for _j in range(k + 2):
            ops += [1, 0]
            try:
                r = hsm.recall()
            except HandlerFault:
                returned.append("fault")
                hsm._running = False
                continue
            returned.append(None if r is None else r.payload)
            if r is None:
                break
    except Exception as ex:  # noqa
        err = "%s: %s" % (type(ex).__name__, ex)
    return ops, dispatched, returned, [e.payload for e in hsm.defer_queue], [e.payload for e in hsm.queue], err


def explore_eager_recall(run, n):
    """C15 on a queued chart that runs as soon as something is posted (a subclass whose post_fifo / post_lifo step the chart until
    its queue is empty - the usual way to drive a queued chart without a thread) and whose handler recalls the next deferred event
    whenever it is handed one: a recall made from inside the step that an outer recall's post started. Every deferred event is
    dispatched exactly once, in deferral order; every recall returns the event it released. Tied to the Lean model
    `Queue.EagerRecall` (family `eager`): dispatch order, the recalls' return values in order of return, both queues"""
    rng = run.rng
    done = []
    for _ in range(n):
        k = rng.randint(1, 6)
        chain = rng.random() < 0.8          # the handler recalls the next one when handed a released event
        instrumented = rng.random() < 0.5
        posts_after = sorted(i for i in range(k) if rng.random() < 0.3)
        raise_on = rng.randrange(k) if rng.random() < 0.25 else None      # the handler of that event fails once (the exception escapes recall())
        ops, dispatched, returned, dq, q, err = run_eager_recall(k, chain, instrumented, posts_after, raise_on)
        cj = {"what": "eager-recall", "deferred": k, "chain": chain, "instrumented": instrumented, "posts_after": posts_after, "raise_on": raise_on}
        if raise_on is not None:
            run.count("a handler fails during the step a recall's post started")
            got = [d for d in dispatched if isinstance(d, int) and d < 1000]
            if err or sorted(got) != sorted(set(got)) or got != sorted(got):
                run.violate("C15/recall-after-failed-step", "%d events deferred in order; the handler of event %d raises once; recalls returned %s; dispatched %s "
                            "(each deferred event at most once, in deferral order)%s" % (k, raise_on, returned, got, "; " + err if err else ""), cj)
            run.case(cj, nontrivial=True)
            continue
        run.count("recall from inside the step an outer recall started" if chain else "recall on a chart that runs at every post")
        got = [d for d in dispatched if d < 1000]
        rets = [x for x in returned if x is not None]
        if err:
            run.violate("C15/recall-error", "%d deferred events, recalls from outside%s: %s" % (k, " and from the handler" if chain else "", err), cj)
        elif got != list(range(k)) or sorted(rets) != list(range(k)) or dq or q:
            run.violate("C15/recall-order", "%d events deferred in order 0..%d; dispatched %s, recalls returned %s, still deferred %s, still queued %s" % (
                k, k - 1, got, returned, dq, q), cj)
        done.append((cj, ops, dispatched, returned, dq, q, err))
        run.case(cj, nontrivial=chain and k >= 2)
    fmt = lambda l: ",".join("n" if x is None else str(x) for x in l) or "-"
    outs = leanrun.run_driver(["eager 9 %d %d %s" % (1 if cj["chain"] else 0, len(ops) // 2, " ".join(map(str, ops))) for cj, ops, *_ in done])
    for (cj, ops, dispatched, returned, dq, q, err), mo in zip(done, outs):
        run.traces_validated += 1
        want = "dispatched=%s returned=%s dq=%s q=%s failed=%d running=0" % (fmt(dispatched), fmt(returned), fmt(dq), fmt(q), 1 if err else 0)
        if mo.strip() != want and not err:
            run.disagree("recall re-entered from the step its own post started", cj, mo, want)


def explore_nested_circuit(run, focus, n):
    """handlers that call complete_circuit() on their own chart (besides posting): the nested call, too, returns only when the
    queue is empty, and the dispatch order is that of a double-ended queue driven by the same operations (oracle only; a
    one-state chart whose handlers all answer HANDLED, so a nested dispatch leaves the chart where it is)"""
    rng = run.rng
    names = ["A", "B", "C", "D", "E", "F", "G"]
    for _ in range(n):
        scripts = {}
        for i, nm in enumerate(names):
            acts = []
            for _k in range(rng.randint(0, 3)):
                r = rng.random()
                if r < 0.3 and i + 1 < len(names):
                    acts.append(("F", rng.choice(names[i + 1:])))
                elif r < 0.5 and i + 1 < len(names):
                    acts.append(("L", rng.choice(names[i + 1:])))
                elif r < 0.75:
                    acts.append(("C",))
            scripts[nm] = acts
        initial = [rng.choice(names[:4]) for _ in range(rng.randint(1, 4))]
        driver = rng.choice(["complete_circuit", "next_rtc"])
        instrumented = rng.random() < 0.5
        log, pending_after_nested = [], []

        def st(chart, e):
            sn = e.signal_name
            if sn in scripts:
                log.append(sn)
                for act in scripts[sn]:
                    if act[0] == "F":
                        chart.post_fifo(Event(signal=act[1]))
                    elif act[0] == "L":
                        chart.post_lifo(Event(signal=act[1]))
                    else:
                        chart.complete_circuit()
                        pending_after_nested.append(len(chart.queue))
                return return_status.HANDLED
            if e.signal in (signals.ENTRY_SIGNAL, signals.INIT_SIGNAL, signals.EXIT_SIGNAL):
                return return_status.HANDLED
            chart.temp.fun = chart.top
            return return_status.SUPER
        st.__name__ = "only"
        hsm = mhsm.HsmWithQueues()
        hsm.start_at(mhsm.spy_on(st) if instrumented else st)
        for nm in initial:
            hsm.post_fifo(Event(signal=nm))
        # reference: plain lists
        want, q = [], list(initial)

        def circuit():
            while q:
                step()

        def step():
            nm = q.pop(0)
            want.append(nm)
            for act in scripts[nm]:
                if act[0] == "F":
                    q.append(act[1])
                elif act[0] == "L":
                    q.insert(0, act[1])
                else:
                    circuit()
        err = None
        try:
            if driver == "complete_circuit":
                hsm.complete_circuit()
                circuit()
            else:
                for _k in range(200):
                    if len(hsm.queue) == 0:
                        break
                    hsm.next_rtc()
                while q:
                    step()
        except Exception as ex:  # noqa
            err = "%s: %s" % (type(ex).__name__, ex)
        cj = {"what": "nested-circuit", "scripts": scripts, "initial": initial, "driver": driver, "instrumented": instrumented}
        run.count("handlers calling complete_circuit (%d nested calls)" % min(3, len(pending_after_nested)))
        run.traces_validated += 1
        if err:
            run.violate("%s/nested-circuit-error" % focus, "handlers calling complete_circuit on their own chart: %s" % err, cj)
        elif any(pending_after_nested):
            run.violate("%s/complete-circuit-returned-with-events-pending" % focus, "a complete_circuit() called from a handler returned with %s "
                        "event(s) still queued (initial queue %s, driven by %s)" % ([x for x in pending_after_nested if x], initial, driver), cj)
        elif log != want:
            run.violate("%s/nested-circuit-order" % focus, "initial queue %s, handler scripts %s, driven by %s: dispatched %s, a double-ended queue "
                        "driven by the same operations gives %s" % (initial, {k: v for k, v in scripts.items() if v}, driver, log, want), cj)
        run.case(cj, nontrivial=bool(pending_after_nested))


def deque_oracle(run, c, eff, cap, ops, real, hsm, cj):
    """C14: the dispatch order and the queue after every op must be those of a double-ended queue driven by
    the same operations (client ops and the handlers' own posts, taken from the handlers' invocation record)"""
    q, d = [], []
    uid = [0]

    def push_back(l, x):
        l.append(x)
        if len(l) > cap:
            del l[0]

    def push_front(l, x):
        l.insert(0, x)
        if len(l) > cap:
            del l[-1]

    def mk(sig):
        e = "%d.%d" % (sig, uid[0])
        uid[0] += 1
        return e

    def apply_calls(calls):
        for i, k in calls:
            for ek, a in eff.get((i, k), ()):
                if ek == "F":
                    push_back(q, mk(a))
                elif ek == "L":
                    push_front(q, mk(a))
                elif ek == "D":
                    push_back(d, mk(a))
                elif ek == "R":
                    if d:
                        push_back(q, d.pop(0))
    info = getattr(hsm, "_vp_info", [])
    for idx, (o, a) in enumerate(ops):
        if idx >= len(info) or idx >= len(real) or parse(real[idx]) is None:
            return
        r = parse(real[idx])
        log, marks, disp = info[idx]["log"], info[idx]["marks"], info[idx]["disp"]
        if o == 4:
            push_back(q, mk(a))
        elif o == 5:
            push_front(q, mk(a))
        elif o == 6:
            push_back(d, mk(a))
        elif o == 7:
            if d:
                push_back(q, d.pop(0))
        elif o == 0:
            apply_calls(log)
        else:
            bounds = marks + [len(log)]
            want_disp = []
            for k in range(len(marks)):
                if not q:
                    run.violate("C14/dispatch-from-empty-deque", "an event was dispatched although the deque model is empty", upto(cj, idx))
                    return
                want_disp.append(q.pop(0))
                apply_calls(log[bounds[k]:bounds[k + 1]])
            if want_disp != disp:
                run.violate("C14/dispatch-order", "%s dispatched %s; a double-ended queue driven by the same operations gives %s"
                            % ("complete_circuit" if o == 9 else "next_rtc", disp, want_disp), upto(cj, idx))
                return
        if r["q"] != q or r["d"] != d:
            run.violate("C14/queue-differs-from-deque", "after op %s the queue is %s / deferred %s; the deque model has %s / %s"
                        % ((o, a), r["q"], r["d"], q, d), upto(cj, idx))
            return
    run.count("deque replay")


def upto(cj, idx):
    d = dict(cj)
    d["ops"] = cj["ops"][:idx + 1]
    return d


def replay(case):
    cc = case.get("case", case)
    if cc.get("what") == "eager-recall":
        print(run_eager_recall(cc["deferred"], cc["chain"], cc["instrumented"], cc.get("posts_after", []), cc.get("raise_on")))
        return 0
    if cc.get("what") in ("failed-step", "nested-circuit"):
        print(cc.get("what"), "case:", cc)
        return 0
    if cc.get("what") == "same-objects":
        print("sequence of operations on %d kept event objects (%s chart):" % (cc["pool"], "instrumented" if cc["instrumented"] else "un-instrumented"), cc["ops"])
        return 0
    c, eff, cap, ops = from_json(cc)
    real, _, _ = run_real(c, eff, cap, ops, spied=cc.get("spied", True), twin_seed=cc.get("twin_seed"))
    model = leanrun.run_driver([encode(c, eff, cap, ops)])[0].split(" | ")
    for i, o in enumerate(ops):
        print("op", o)
        print("  impl :", real[i] if i < len(real) else "-")
        print("  model:", model[i] if i < len(model) else "-")
    return 0
