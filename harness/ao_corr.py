"""Active-object system correspondence (timed sources, cancel_event(s), stop): Lean `Conc.AO` ↔ real
`ActiveObject` under dsched with a virtual clock; implementation-side oracles for C10, C11, C12, C31."""
import os, sys, json, random, uuid as _uuid
import leanrun, dsched, conc_corr, charts
from charts import mhsm, Event, signals, return_status
import miros.activeobject as mao

NSIG = 3
HORIZON = 9


def yield_filter(label):
    if label.startswith(("dq.", "tok.", "call.", "sleep", "DLock.acquire")) or label in ("begin", "thread.join"):
        return True
    if label in ("run.is_set", "fab.is_set"):
        return True
    return False


class AoScenario:
    def __init__(self, calls, max_timers, posters=None):
        self.calls = calls            # [(name, a, b, c, d, e)]  one control client
        self.max_timers = max_timers
        self.posters = posters or []  # [[(kind, sig)]]

    def to_json(self):
        return {"calls": self.calls, "max_timers": self.max_timers, "posters": self.posters}

    @staticmethod
    def from_json(d):
        return AoScenario([tuple(c) for c in d["calls"]], d["max_timers"], [[tuple(x) for x in p] for p in d.get("posters", [])])

    def encode(self, sched, tags=9, alg=9, cap=500):
        toks = ["ao", tags, alg, cap, 0, self.max_timers, len(self.posters)]
        for i, p in enumerate(self.posters):
            toks += [len(p)]
            for j, (k, sg) in enumerate(p):
                toks += [conc_corr.KINDC[k], sg, 1000 * i + j]
        toks += [1, len(self.calls)]
        code = {"timed": 0, "cancel_event": 1, "cancel_events": 2, "stop": 3}
        for c in self.calls:
            toks += [code[c[0]]] + [int(x) for x in c[1:6]]
        toks += [len(sched)] + list(sched)
        return " ".join(str(t) for t in toks)


def gen_scenario(rng, focus):
    max_timers = rng.choice([2, 3, 3, 4]) if focus == "C31" else rng.choice([3, 4, 6])
    calls = []
    tracked = []      # timer indices currently tracked
    ntimers = 0
    n = rng.randint(2, 7)
    stopped = False
    for _ in range(n):
        r = rng.random()
        p_timed = 0.75 if focus in ("C10", "C31") else 0.5
        if r < p_timed or not tracked:
            kind = rng.choice(["F", "F", "L"])
            sig = rng.randrange(NSIG)
            period = rng.randint(1, 3)
            total = rng.choice([0, 1, 1, 2, 3])
            if total and rng.random() < 0.12:
                period = 0          # a legal period: every activation is due at once
            deferred = rng.random() < 0.6
            calls.append(("timed", conc_corr.KINDC[kind], sig, period, total, int(deferred)))
            if len(tracked) < max_timers:
                tracked.append((ntimers, sig))
                ntimers += 1
        elif r < p_timed + (1 - p_timed) * 0.45:
            idx, _ = rng.choice(tracked)
            same = rng.random() < 0.4
            calls.append(("cancel_event", idx, int(same), 0, 0, 0))
            tracked = [t for t in tracked if t[0] != idx]
        elif r < p_timed + (1 - p_timed) * 0.85:
            _, sig = rng.choice(tracked)
            same = rng.random() < 0.4
            calls.append(("cancel_events", sig, int(same), 0, 0, 0))
            tracked = [t for t in tracked if t[1] != sig]
        else:
            if focus == "C12" or rng.random() < 0.3:
                calls.append(("stop", 0, 0, 0, 0, 0))
                stopped = True
                break
    if focus == "C12" and not stopped:
        calls.append(("stop", 0, 0, 0, 0, 0))
    posters = []
    if rng.random() < 0.3:
        posters = [[(rng.choice("FL"), rng.randrange(NSIG)) for _ in range(rng.randint(1, 3))]]
    return AoScenario(calls, max_timers, posters)


def gen_id_reuse(rng):
    """sources with the SAME signal on one object, one of them cancelled, a new one posted in the freed slot, then an OLDER survivor
    cancelled by its id: every id names one source for good, whatever was freed or reused in between"""
    sig = rng.randrange(NSIG)
    k = rng.randint(2, 3)
    calls = [("timed", conc_corr.KINDC["F"], sig, rng.randint(1, 2), 0, int(rng.random() < 0.5)) for _ in range(k)]
    first = rng.randrange(k)
    calls.append(("cancel_event", first, int(rng.random() < 0.4), 0, 0, 0))
    calls.append(("timed", conc_corr.KINDC["F"], sig, rng.randint(1, 2), 0, int(rng.random() < 0.5)))
    survivors = [i for i in range(k) if i != first]
    calls.append(("cancel_event", rng.choice(survivors), int(rng.random() < 0.4), 0, 0, 0))
    if rng.random() < 0.4:
        calls.append(("timed", conc_corr.KINDC["F"], sig, 1, 0, 1))
        calls.append(("cancel_event", k, int(rng.random() < 0.4), 0, 0, 0))
    return AoScenario(calls, rng.choice([4, 6]), [])


class AoRun:
    pass


def run_real(sc, chooser, max_steps=2500):
    ar = AoRun()
    ar.errors = []
    ar.over_capacity = []
    saved_cap = mhsm.HsmWithQueues.QUEUE_SIZE
    saved_pp = mao.pp
    mao.pp = lambda x: None
    with dsched.Installed():
        def stop_when(s):
            k = [t for t in s.threads if t.name == "K0"]
            return bool(k) and k[0].finished and s.now >= HORIZON
        sched = dsched.Sched(chooser, max_steps=max_steps, yield_filter=yield_filter)
        dsched.Sched.current = sched
        try:
            ar.dispatched = []

            class AO(mao.ActiveObject):
                QUEUE_SIZE = sc.max_timers

            def s1(chart, e):
                sn = e.signal_name
                if sn.startswith("E") and sn[1:].isdigit():
                    ar.dispatched.append("%s.%s" % (sn[1:], e.payload))
                    return return_status.HANDLED
                if e.signal in (signals.ENTRY_SIGNAL, signals.INIT_SIGNAL, signals.EXIT_SIGNAL):
                    return return_status.HANDLED
                chart.temp.fun = chart.top
                return return_status.SUPER
            ao = AO(name="C")
            sched.name_obj(ao.locking_deque.deque, "dq")
            sched.name_obj(ao.locking_deque.locking_queue, "tok")
            sched.name_obj(ao.activeobject_task_event, "run")
            if hasattr(ao, "posted_events_lock"):
                # the lock around the tracked-source list: a scheduling point only when it has to wait, not a step of the models
                ao.posted_events_lock = dsched.DLockQuiet()
                sched.name_obj(ao.posted_events_lock, "trk")
            ao.start_at(s1)
            sched.name_obj(ao.fabric_task_event, "fab")
            ids = []
            results = []
            call_done_at = []       # trace index at which each call had returned
            call_start_at = []      # trace index at which each call began
            ended_at = {}           # timer thread name -> trace index at which the scheduler first saw it ended
            sched.monitors.append(lambda s_, st_: [ended_at.setdefault(t_.name, len(s_.trace)) for t_ in s_.threads
                                                   if t_.finished and t_.name.startswith("timer")])

            def client():
                for c in sc.calls:
                    sched.yield_point("call." + c[0])
                    mark = len(sched.trace) - 1
                    call_start_at.append(mark)
                    if c[0] == "timed":
                        _, kind, sig, period, total, deferred = c
                        e = Event(signal="E%d" % sig, payload=500000 + len(ids))
                        try:
                            tracked_before = len(ao.posted_events_queue)
                            tid = charts.timed_post(ao, "F" if kind == 0 else "L", e, period, total, bool(deferred), len(ids) + sig + period)
                            ids.append(tid)
                            results.append(len(ids))
                            sched.trace[mark][2] = "ok"
                            if tracked_before >= sc.max_timers:
                                ar.over_capacity.append((len(results), tracked_before))
                        except mao.ActiveObjectOutOfPostedEventResources:
                            results.append(0)
                            sched.trace[mark][2] = "rejected"
                    elif c[0] == "cancel_event":
                        the_id = ids[c[1]]
                        if c[2]:
                            other = the_id
                        elif isinstance(the_id, _uuid.UUID):
                            other = _uuid.UUID(str(the_id))           # an equal id that is a different object
                        elif isinstance(the_id, str):
                            other = "".join(list(the_id))
                        else:
                            import copy
                            other = copy.deepcopy(the_id)
                        ao.cancel_event(other)
                    elif c[0] == "cancel_events":
                        name = "E%d" % c[1]
                        if not c[2]:
                            name = "".join(list(name))       # an equal string that is a different object
                            ev = Event(signal=name)
                            ev.signal_name = name
                        else:
                            ev = Event(signal=name)
                            # the identical string object the sources were registered with
                            for pe in ao.posted_events_queue:
                                if pe.signal_name == name:
                                    ev.signal_name = pe.signal_name
                                    break
                        ao.cancel_events(ev)
                    else:
                        ao.stop()
                    call_done_at.append(len(sched.trace))
            for i, p in enumerate(sc.posters):
                def poster(i=i, p=p):
                    for j, (k, sg) in enumerate(p):
                        e = Event(signal="E%d" % sg, payload=1000 * i + j)
                        charts.plain_post(ao, k, e, i + 2 * j)
                sched.spawn(poster, (), name="P%d" % i)
            sched.spawn(client, (), name="K0")
            ar.outcome = sched.run(stop_when=stop_when)
            ar.trace = sched.trace
            ar.steps = sched.steps
            ar.now = sched.now
            ar.results = results
            ar.call_done_at = call_done_at
            ar.call_start_at = call_start_at
            ar.ended_at = ended_at
            ar.finished = {t.name: t.finished for t in sched.threads}
            for t in sched.threads:
                if t.error is not None:
                    ar.errors.append("%s: %s: %s" % (t.name, type(t.error).__name__, t.error))
            ld = ao.locking_deque
            ar.final = {"dq": [conc_corr.ev_str(e) for e in ld.deque.raw()], "tok": ld.locking_queue._qsize()}
            timers = sorted([t for t in sched.threads if t.name.startswith("timer")], key=lambda t: int(t.name[5:]))
            ar.timers = []
            tracked_ids = set(str(pe.uuid) for pe in ao.posted_events_queue)
            for k, t in enumerate(timers):
                spec = t.args[0]
                placed = [int(e[4]) for e in sched.trace if e[0] == t.name and e[1] in ("dq.append", "dq.appendleft")]
                ar.timers.append({"flag": int(spec.task_run_event._flag), "tracked": int(k < len(ids) and str(ids[k]) in tracked_ids),
                                  "placed": placed, "spec": (spec.period, spec.total_times, spec.deferred, spec.queue_type)})
        finally:
            leaked = sched.shutdown()
            mhsm.HsmWithQueues.QUEUE_SIZE = saved_cap
            mao.pp = saved_pp
            if leaked:
                ar.errors.append("leaked: %s" % leaked)
    return ar


def tid_of(name):
    if name == "clock":
        return 1000
    if name == "C":
        return 0
    if name.startswith("P") and name[1:].isdigit():
        return 1 + int(name[1:])
    if name.startswith("timer"):
        return 200 + int(name[5:])
    if name.startswith("K") and name[1:].isdigit():
        return 300 + int(name[1:])
    return None


def real_label(name, label, result):
    if name == "clock":
        return "clock"
    if label == "begin":
        return "begin"
    if label.startswith("sleep"):
        return "sleep"
    if label == "DLock.acquire":
        return "lock.acquire"
    if label == "call.timed":
        return "call.timed=%s" % result
    if label.startswith("call.") or label == "thread.join":
        return label
    return conc_corr.real_label(label, result)


def modelled_steps(ar):
    out = []
    for name, label, result, enabled, now in ar.trace:
        tid = tid_of(name)
        if tid is None:
            continue
        if label == "begin" and not name.startswith("timer"):
            continue
        if label.startswith("trk."):
            continue
        en = sorted(set(t for t in (tid_of(n) for n in enabled) if t is not None))
        out.append((tid, real_label(name, label, result), en))
    return out


def compare(sc, ar, out):
    steps = modelled_steps(ar)
    body, final = out.split(" || ")
    msteps = [x for x in body.split(" | ") if x]
    for i, (tid, lbl, en) in enumerate(steps):
        if i >= len(msteps):
            return False, "model produced %d steps, implementation %d" % (len(msteps), len(steps))
        mt, ml, men = msteps[i].split(":", 2)
        men = ",".join(x for x in men.split(",") if x and x != "1000")
        got = "%s:%s:%s" % (mt, ml, men)
        want = "%d:%s:%s" % (tid, lbl, ",".join(str(x) for x in en)) if tid != 1000 else "1000:clock:" + men
        if got != want:
            return False, "step %d: implementation %s, model %s" % (i, want, got)
    mf = dict(kv.split("=", 1) for kv in final.split(" "))
    timers = ";".join("%d/%d/%d/%s" % (k, t["flag"], t["tracked"], ",".join(str(x) for x in t["placed"])) for k, t in enumerate(ar.timers))
    mt = ";".join("/".join(x.split("/")[:3] + x.split("/")[4:]) for x in mf["timers"].split(";")) if mf["timers"] else ""
    real = {"dq": ",".join(ar.final["dq"]), "tok": str(ar.final["tok"]), "disp": ",".join(ar.dispatched),
            "now": str(int(ar.now)), "results": ",".join(str(r) for r in ar.results)}
    for k, v in real.items():
        if mf.get(k) != v:
            return False, "final %s: implementation %r, model %r" % (k, v, mf.get(k))
    if mt != timers:
        return False, "final timers (id/flag/tracked/placed-at): implementation %r, model %r" % (timers, mt)
    return True, None


def oracle(run, focus, sc, ar, cj):
    if ar.errors:
        run.violate("%s/thread-error" % focus, "a thread died: %s" % ar.errors[:2], cj)
    # per-timer creation instant and interference
    created_at = {}
    k = 0
    trace = ar.trace
    for idx, e in enumerate(trace):
        if e[0] == "K0" and e[1] == "call.timed" and e[2] == "ok":
            created_at[k] = int(e[4])
            k += 1
    accepted = sum(1 for r in ar.results if r)
    rejected = sum(1 for r in ar.results if r == 0)
    if len(ar.timers) != accepted:
        run.violate("C31/rejected-source-has-a-thread", "%d timed posts accepted but %d timer threads were started (rejected: %d)"
                    % (accepted, len(ar.timers), rejected), cj)
    if rejected:
        run.count("rejected timed post")
    for nth, tracked_n in ar.over_capacity:
        run.violate("C31/accepted-beyond-capacity", "timed post number %d was accepted although %d sources were already tracked "
                    "(capacity %d, some of them finished but not cancelled)" % (nth, tracked_n, sc.max_timers), cj)
    # which timers were cancelled (by a call that can match) and when did that call return
    cancelled_after = {}
    cancelled_by = {}
    requested_total = []        # what the CALLER asked for, per accepted source (not what the source object says it was given)
    tracked = []
    nt = 0
    ntimed = 0
    for ci, c in enumerate(sc.calls):
        done = ar.call_done_at[ci] if ci < len(ar.call_done_at) else None
        if c[0] == "timed":
            if ntimed < len(ar.results) and ar.results[ntimed]:
                tracked.append((nt, c[2]))
                requested_total.append(c[4])
                nt += 1
            ntimed += 1
        elif c[0] == "cancel_event":
            if done is not None and any(t[0] == c[1] for t in tracked):
                cancelled_after[c[1]] = done
                cancelled_by[c[1]] = ci
                tracked = [t for t in tracked if t[0] != c[1]]
                run.count("cancel_event by %s id" % ("identical" if c[2] else "equal"))
        elif c[0] == "cancel_events":
            if done is not None:
                for t in [t for t in tracked if t[1] == c[1]]:
                    cancelled_after[t[0]] = done
                    cancelled_by[t[0]] = ci
                tracked = [t for t in tracked if t[1] != c[1]]
                run.count("cancel_events by %s name" % ("identical" if c[2] else "equal"))
        elif c[0] == "stop":
            if done is not None:
                for t in tracked:
                    cancelled_after[t[0]] = done
                    cancelled_by[t[0]] = ci
                tracked = []
                run.count("stop()")
                # C12: the consumer thread has ended, nothing is dispatched afterwards
                if not ar.finished.get("C"):
                    run.violate("C12/thread-not-ended", "stop() returned but the active object's thread is still alive", cj)
                later = [e for e in trace[done:] if e[0] == "C" and e[1] == "dq.popleft"]
                if later:
                    run.violate("C12/step-after-stop", "a run-to-completion step started after stop() returned", cj)
    for ti, t in enumerate(ar.timers):
        period, total, deferred, qtype = t["spec"]
        if ti < len(requested_total):
            total = requested_total[ti]
        placed_idx = [i for i, e in enumerate(trace) if e[0] == "timer%d" % ti and e[1] in ("dq.append", "dq.appendleft")]
        if ti in cancelled_after:
            late = [i for i in placed_idx if i >= cancelled_after[ti]]
            if late:
                run.violate("C11/post-after-cancel-returned" if not any(c[0] == "stop" for c in sc.calls) else "C12/post-after-stop-returned",
                            "timed source %d placed an event in the queue after the cancelling call had returned" % ti, cj)
            if t["flag"]:
                run.violate("C11/not-cancelled", "timed source %d still has its run flag set after it was cancelled" % ti, cj)
            starts = getattr(ar, "call_start_at", [])
            if not total and ti in cancelled_by and cancelled_by[ti] < len(starts) and \
                    getattr(ar, "ended_at", {}).get("timer%d" % ti, len(trace) + 1) <= starts[cancelled_by[ti]]:
                run.violate("C10/forever-source-ended", "timed source %d (period %d, times 0 / None: every period, for ever) had ended by itself after %d "
                            "post(s) before the call that cancels it was made" % (ti, period, len(t["placed"])), cj)
            if cj.get("eager") and not total and ti in created_at and cancelled_after[ti] < len(trace):
                # armed for ever and cancelled later: under a lazy clock every post that was due well before the cancelling call
                # returned has happened (a source that ended by itself after its first post is seen here)
                t0c = created_at[ti]
                first_c = t0c + period if deferred else t0c
                t_done = int(trace[cancelled_after[ti]][4])
                due = [first_c + j * period for j in range(1000) if first_c + j * period < t_done - period]
                if len(t["placed"]) < len(due):
                    run.violate("C10/missing-post", "timed source %d (period %d, times 0 / None: for ever, created at %d, cancelled by a call that returned at "
                                "%d) posted at %s, expected at least %s" % (ti, period, t0c, t_done, t["placed"], due), cj)
            continue
        # not cancelled: C10 count and instants
        t0 = created_at.get(ti, 0)
        first = t0 + period if deferred else t0
        want = [first + j * period for j in range(total if total else 1000)]
        got = t["placed"]
        run.count("C10 timer checked (times=%d, %s)" % (total, "deferred" if deferred else "immediate"))
        eager = cj.get("eager")
        if eager:
            # the clock only moves when no thread can run: posts happen exactly on the grid
            if got != want[:len(got)]:
                run.violate("C10/instants", "timed source %d (period %d, times %d, deferred %s, created at %d) posted at %s, expected %s…"
                            % (ti, period, total, deferred, t0, got, want[:max(len(got), 3)]), cj)
            horizon_ok = [w for w in want if w < int(ar.now)]   # strictly before the last instant reached: must have happened
            if ar.outcome in ("stopped", "quiescent") and len(got) < len(horizon_ok) and ar.steps < 2400:
                run.violate("C10/missing-post", "timed source %d posted %d times by virtual time %d, expected at least %d"
                            % (ti, len(got), int(ar.now), len(horizon_ok)), cj)
        else:
            # arbitrary delays: never early, and at least a period apart
            if any(g < w for g, w in zip(got, want)):
                run.violate("C10/early-post", "timed source %d (period %d, deferred %s, created at %d) posted at %s, earlier than %s"
                            % (ti, period, deferred, t0, got, want[:len(got)]), cj)
            if any(b - a < period for a, b in zip(got, got[1:])):
                run.violate("C10/period-too-short", "timed source %d (period %d) posted at %s" % (ti, period, got), cj)
        if not total and (not t["flag"] or ar.finished.get("timer%d" % ti)):
            run.violate("C10/forever-source-ended", "timed source %d (period %d, times 0 / None: every period, for ever) was not cancelled and has cleared its "
                        "run flag after %d post(s)" % (ti, period, len(got)), cj)
        if ar.outcome == "quiescent" and total and len(got) != total:
            run.violate("C10/wrong-count", "timed source %d posted %d times, times=%d (all threads finished)" % (ti, len(got), total), cj)
        if total and len(got) > total:
            run.violate("C10/too-many-posts", "timed source %d posted %d times, times=%d" % (ti, len(got), total), cj)
        if any(c[0] in ("cancel_event", "cancel_events") for c in sc.calls) and not t["flag"] and (total == 0 or len(got) < total):
            run.violate("C11/wrong-source-cancelled", "timed source %d was not the target of any cancel but its run flag is cleared after %d of %d posts"
                        % (ti, len(got), total), cj)


def explore(run, focus, n_random):
    rng = run.rng
    done = []
    for _ in range(n_random):
        sc = gen_id_reuse(rng) if (focus == "C11" and rng.random() < 0.2) else gen_scenario(rng, focus)
        seed = rng.randrange(1 << 30)
        r2 = random.Random(seed)
        eager = (focus == "C10" and r2.random() < 0.7) or r2.random() < 0.2
        if eager:
            base, kind = dsched.random_chooser(r2, clock_bias=0.0), "random-eager-clock"
        elif r2.random() < 0.5:
            base, kind = dsched.pct_chooser(r2, depth=r2.randint(1, 3), est_len=150), "pct"
        else:
            base, kind = dsched.random_chooser(r2, clock_bias=0.25), "random"
        ar = run_real(sc, base)
        cj = {"scenario": sc.to_json(), "chooser": kind, "seed": seed, "eager": eager, "schedule": [e[0] for e in ar.trace]}
        run.count("outcome " + str(ar.outcome))
        oracle(run, focus, sc, ar, cj)
        run.case({"scenario": sc.to_json(), "chooser": kind, "seed": seed, "steps": ar.steps}, nontrivial=len(sc.calls) >= 2)
        done.append((sc, ar, cj))
    lines = [sc.encode([t for t, _, _ in modelled_steps(ar)]) for sc, ar, _ in done]
    outs = leanrun.run_driver(lines)
    for (sc, ar, cj), out in zip(done, outs):
        ok, diff = compare(sc, ar, out)
        run.traces_validated += 1
        if not ok:
            run.disagree("active object with timers/cancel/stop under the same schedule", cj, diff, None)


def run_handler_armed(spec, chooser, max_steps=2500):
    """spec: {"arms": [(period, times, deferred, lifo, name)], "client_timed": [...], "pauses": n, "own_stop": bool}
    The chart's ARM handler arms the next timed source of spec["arms"] (signal T<name>); the control thread posts the ARM
    events, then calls stop() (or posts STOPME, whose handler calls stop() from inside the object)."""
    res = {"errors": []}
    saved_pp = mao.pp
    mao.pp = lambda x: None
    with dsched.Installed():
        def stop_when(s):
            k = [t for t in s.threads if t.name == "K0"]
            if spec["own_stop"] and not all(t.finished for t in s.threads if t.name == "C"):
                return False        # the object stops itself: run until its thread has ended (or nothing can run / the bound)
            return bool(k) and k[0].finished and s.now >= HORIZON
        sched = dsched.Sched(chooser, max_steps=max_steps, yield_filter=yield_filter)
        dsched.Sched.current = sched
        try:
            arms = [tuple(a) for a in spec["arms"]]
            armed = []
            steps = []

            def s1(chart, e):
                sn = e.signal_name
                if sn == "ARM":
                    steps.append(("ARM", len(sched.trace)))
                    if arms:
                        period, times, deferred, lifo, name = arms.pop(0)
                        try:
                            f = chart.post_lifo if lifo else chart.post_fifo
                            armed.append(f(Event(signal="T%d" % name, payload=600000 + len(armed)), period=period, times=times,
                                           deferred=bool(deferred)))
                        except mao.ActiveObjectOutOfPostedEventResources:
                            pass
                    return return_status.HANDLED
                if sn == "CAN":
                    steps.append(("CAN", len(sched.trace)))
                    chart.cancel_events(Event(signal="T%d" % e.payload))
                    return return_status.HANDLED
                if sn == "STOPME":
                    steps.append(("STOPME", len(sched.trace)))
                    chart.stop()
                    res["own_stop_returned_at"] = len(sched.trace)
                    return return_status.HANDLED
                if sn[0] == "T" and sn[1:].isdigit():
                    steps.append((sn, len(sched.trace)))
                    return return_status.HANDLED
                if e.signal in (signals.ENTRY_SIGNAL, signals.INIT_SIGNAL, signals.EXIT_SIGNAL):
                    return return_status.HANDLED
                chart.temp.fun = chart.top
                return return_status.SUPER
            ao = mao.ActiveObject(name="C")
            sched.name_obj(ao.locking_deque.deque, "dq")
            sched.name_obj(ao.locking_deque.locking_queue, "tok")
            sched.name_obj(ao.activeobject_task_event, "run")
            if hasattr(ao, "posted_events_lock"):
                # the lock around the tracked-source list: a scheduling point only when it has to wait, not a step of the models
                ao.posted_events_lock = dsched.DLockQuiet()
                sched.name_obj(ao.posted_events_lock, "trk")
            ao.start_at(s1)
            sched.name_obj(ao.fabric_task_event, "fab")

            def client():
                if spec.get("restart"):
                    sched.yield_point("call.restart")
                    ao.start_at(s1)
                for period, times, deferred, lifo in spec["client_timed"]:
                    sched.yield_point("call.timed")
                    (ao.post_lifo if lifo else ao.post_fifo)(Event(signal="T99", payload=500000), period=period, times=times,
                                                               deferred=bool(deferred))
                for _ in range(len(spec["arms"])):
                    sched.yield_point("call.post")
                    ao.post_fifo(Event(signal="ARM"))
                for nm in spec.get("cancels", ()):
                    for _ in range(spec["pauses"]):
                        sched.yield_point("call.pause")
                    mao.time.sleep(1)
                    sched.yield_point("call.post")
                    ao.post_fifo(Event(signal="CAN", payload=nm))
                for _ in range(spec["pauses"]):
                    sched.yield_point("call.pause")
                if spec["own_stop"]:
                    sched.yield_point("call.post")
                    ao.post_fifo(Event(signal="STOPME"))
                    for _ in range(spec.get("more", 0)):
                        sched.yield_point("call.post")
                        ao.post_fifo(Event(signal="ARM"))
                    if spec.get("late_stop"):
                        # the object stops itself; the program arms one more source on it and later calls stop() from outside
                        for _ in range(spec["late_stop"]["pauses"]):
                            sched.yield_point("call.pause")
                        period, times, deferred, lifo = spec["late_stop"]["source"]
                        sched.yield_point("call.timed")
                        (ao.post_lifo if lifo else ao.post_fifo)(Event(signal="T98", payload=700000), period=period, times=times,
                                                                   deferred=bool(deferred))
                        for _ in range(spec["late_stop"]["pauses"]):
                            sched.yield_point("call.pause")
                        sched.yield_point("call.stop")
                        ao.stop()
                        res["stop_returned_at"] = len(sched.trace)
                else:
                    sched.yield_point("call.stop")
                    ao.stop()
                    res["stop_returned_at"] = len(sched.trace)
            sched.spawn(client, (), name="K0")
            res["outcome"] = sched.run(stop_when=stop_when)
            res["trace"] = sched.trace
            res["steps"] = steps
            res["now"] = sched.now
            res["finished"] = {t.name: t.finished for t in sched.threads}
            for t in sched.threads:
                if t.error is not None:
                    res["errors"].append("%s: %s: %s" % (t.name, type(t.error).__name__, t.error))
            timers = sorted([t for t in sched.threads if t.name.startswith("timer")], key=lambda t: int(t.name[5:]))
            tracked_ids = set(str(pe.uuid) for pe in ao.posted_events_queue)
            res["timers"] = [{"name": t.name, "flag": int(t.args[0].task_run_event._flag), "finished": t.finished,
                              "signal": t.args[0].event.signal_name,
                              "tracked": int(k < len(armed) and str(armed[k]) in tracked_ids)} for k, t in enumerate(timers)]
            res["tracked"] = len(ao.posted_events_queue)
            res["run_flag"] = int(ao.activeobject_task_event._flag)
            res["queue"] = [e.signal_name for e in ao.locking_deque.deque.raw()]
        finally:
            leaked = sched.shutdown()
            mao.pp = saved_pp
            if leaked:
                res["errors"].append("leaked: %s" % leaked)
    return res


def armed_model_steps(spec, res):
    """the recorded schedule as macro steps of the Lean model `Conc.AOArm` (0 = k, 1 = c, 2+i = timer i), by linearisation
    point: K posts at its dq.append, clears + appends STOP at call.stop, joins, takes one source lock per cancel; the consumer
    tests the flag at run.is_set and takes its step at dq.popleft (or at the peek that sees STOP); timer i posts at its dq.append"""
    out = []
    nposts = 0
    cstate = "check"
    last_k = None
    trace = res["trace"]
    for idx, e in enumerate(trace):
        name, label = e[0], e[1]
        if name == "K0":
            if label == "dq.append" and nposts < len(spec["arms"]):
                nposts += 1
                out.append(0)
            elif label == "call.stop":
                out += [0, 0]               # post 0 -> stopClear; stopClear -> stopAppend (the flag is cleared before the next primitive)
            elif label == "dq.append":
                out.append(0)               # stopAppend -> join (STOP is in the queue)
            elif label in ("thread.join", "DLock.acquire"):
                out.append(0)
                last_k = len(out)
        elif name == "C":
            if label == "run.is_set":
                if cstate == "check":
                    out.append(1)
                    cstate = "wait" if e[2] else "fin"
            elif label == "dq.len" and cstate == "wait" and e[2] == 0:
                out.append(1000)            # woken by a surplus token with nothing queued: back to the loop test
                cstate = "check"
            elif label == "dq.popleft" or (label == "dq.peek" and getattr(e[2], "signal_name", "") == "STOP_ACTIVE_OBJECT_SIGNAL"):
                out.append(1)
                cstate = "check"
        elif name.startswith("timer") and label in ("dq.append", "dq.appendleft"):
            out.append(2 + int(name[5:]))
    if res.get("stop_returned_at") is not None and last_k is not None:
        out.insert(last_k, 0)               # cancel [] -> done: stop() returns in the same scheduling step as its last primitive
    return out


def own_model_steps(spec, res):
    """the recorded schedule as macro steps of the Lean model `Conc.AOOwn` (0 = k, 1 = c, 1000 = surplus wake-up, 2+i = timer i):
    K posts at its dq.append; the consumer tests the flag at run.is_set, takes its step at dq.popleft; inside the HALT handler:
    run.clear, dq.append (STOP), one source lock per cancel, and the handler's return"""
    out = []
    nk = 0
    narms = len(spec["arms"])
    cstate = "check"
    at = res.get("own_stop_returned_at")
    for idx, e in enumerate(res["trace"]):
        if at is not None and idx == at and cstate == "handler":
            out.append(1)                   # hCancel [] -> check: the handler returns
            cstate = "check"
        name, label = e[0], e[1]
        if name == "K0":
            if label == "dq.append":
                if nk == narms:
                    out.append(0)           # post 0 -> halt
                nk += 1
                out.append(0)
        elif name == "C":
            if cstate == "handler":
                if label in ("dq.append", "DLock.acquire"):
                    out.append(1)
            elif label == "run.is_set":
                if cstate == "check":
                    out.append(1)
                    cstate = "wait" if e[2] else "fin"
            elif label == "dq.len" and cstate == "wait" and e[2] == 0:
                out.append(1000)
                cstate = "check"
            elif label == "dq.popleft":
                out.append(1)
                cstate = "check"
                if getattr(e[2], "signal_name", "") == "STOPME":
                    out.append(1)           # hClear: the run flag is cleared before the handler's next primitive
                    cstate = "handler"
            elif label == "dq.peek" and getattr(e[2], "signal_name", "") == "STOP_ACTIVE_OBJECT_SIGNAL":
                out.append(1)
                cstate = "check"
        elif name.startswith("timer") and label in ("dq.append", "dq.appendleft"):
            out.append(2 + int(name[5:]))
    if at is not None and at >= len(res["trace"]) and cstate == "handler":
        out.append(1)
    out.append(0)                           # more 0 -> done
    return out


def explore_handler_armed(run, n, focus="C12"):
    """C12 stream: sources armed by a run-to-completion step that is in progress / still queued when stop() is called.
    Tied runs (fifo sources with distinct names, stop() from another thread) are replayed on the Lean model `Conc.AOArm`
    (family `aoarm`); the others (lifo sources, shared names, a client-armed source, stop() from a handler) are checked by
    the implementation-side oracle only"""
    rng = run.rng
    tied_done = []
    own_done = []
    for _ in range(n):
        tied = rng.random() < 0.6
        narms = rng.randint(1, 3)
        if tied:
            spec = {"arms": [(rng.randint(1, 3), rng.choice([0, 0, 1, 2, 3]), int(rng.random() < 0.7), 0, k) for k in range(narms)],
                    "client_timed": [], "pauses": rng.choice([0, 0, 1, 2, 4]), "own_stop": rng.random() < 0.4, "tied": True}
            if spec["own_stop"]:
                spec["more"] = rng.choice([0, 1, 2])
        else:
            spec = {"arms": [(rng.randint(1, 3), rng.choice([0, 0, 2, 3]), int(rng.random() < 0.7), int(rng.random() < 0.3), rng.randrange(2))
                             for _ in range(narms)],
                    "client_timed": [(rng.randint(1, 3), rng.choice([0, 2]), 1, 0)] if rng.random() < 0.4 else [],
                    "pauses": rng.choice([0, 0, 1, 2, 4]), "own_stop": rng.random() < 0.3, "tied": False}
            if rng.random() < 0.5:
                # some of the posted events make the chart cancel one of its own sources by name, from its handler
                spec["cancels"] = [rng.randrange(2) for _ in range(rng.randint(1, 2))]
            if spec["own_stop"]:
                spec["more"] = rng.choice([0, 1, 2])                  # a backlog behind the event whose handler calls stop()
                spec["restart"] = int(rng.random() < 0.4)             # start_at called again on the running object first
            if spec["own_stop"] and rng.random() < 0.6:
                spec["late_stop"] = {"pauses": rng.choice([0, 1, 3, 8, 20]), "source": (rng.randint(1, 2), rng.choice([0, 0, 3]), int(rng.random() < 0.5), 0)}
        seed = rng.randrange(1 << 30)
        r2 = random.Random(seed)
        if r2.random() < 0.5:
            base, kind = dsched.pct_chooser(r2, depth=r2.randint(1, 3), est_len=120), "pct"
        else:
            base, kind = dsched.random_chooser(r2, clock_bias=0.1), "random"
        res = run_handler_armed(spec, base)
        trace = res["trace"]
        cj = {"what": "handler-armed", "spec": spec, "chooser": kind, "seed": seed, "schedule": [e[0] for e in trace]}
        run.count("handler-armed stream: stop() from %s%s" % ("a handler" if spec["own_stop"] else "another thread", ", tied to the model" if tied else ""))
        if spec.get("restart"):
            run.count("handler-armed stream: start_at called again on the running object before the events")
        if res["errors"]:
            run.violate(focus + "/thread-error", "a thread died: %s" % res["errors"][:2], cj)
        if not spec["own_stop"]:
            done = res.get("stop_returned_at")
            if done is None:
                if res["outcome"] != "bound":
                    run.violate(focus + "/stop-never-returns", "stop() did not return (outcome %s)" % res["outcome"], cj)
                run.case(cj, nontrivial=True)
                continue
            if not res["finished"].get("C"):
                run.violate(focus + "/thread-not-ended", "stop() returned but the active object's thread is still alive", cj)
            if any(i >= done for _, i in res["steps"]):
                run.violate(focus + "/step-after-stop", "a run-to-completion step ran after stop() returned", cj)
            late = [e for e in trace[done:] if e[0].startswith("timer") and e[1] in ("dq.append", "dq.appendleft")]
            if late:
                run.violate(focus + "/post-after-stop-returned", "%s (armed by a handler: %d sources armed before stop() returned) placed an event "
                            "in the queue after stop() had returned" % (late[0][0], len(res["timers"])), cj)
            live = [t["name"] for t in res["timers"] if t["flag"]]
            if live:
                run.violate(focus + "/source-not-cancelled", "timed sources %s still have their run flag set after stop() returned "
                            "(%d still tracked)" % (live, res["tracked"]), cj)
            if any(i < done for nm, i in res["steps"] if nm == "ARM") and res["timers"]:
                run.count("handler-armed stream: a source was armed by a step before stop() returned")
            if tied:
                tied_done.append((spec, res, cj))
        else:
            # stop() from a handler: the thread ends after the current step
            at = res.get("own_stop_returned_at")
            if at is not None:
                if res["outcome"] == "quiescent" and not res["finished"].get("C"):
                    run.violate(focus + "/thread-not-ended", "stop() was called from a handler but the object's thread never ended", cj)
                later = [nm for nm, i in res["steps"] if i > at]
                if later:
                    run.violate(focus + "/step-after-own-stop", "steps %s ran after the step whose handler called stop()" % later, cj)
                after = set(t["name"] for t in res["timers"] if t["signal"] == "T98")       # armed by the client after the object stopped itself
                late = [e for e in trace[at:] if e[0].startswith("timer") and e[1] in ("dq.append", "dq.appendleft") and e[0] not in after]
                if late:
                    run.violate(focus + "/post-after-stop-returned", "%s placed an event in the queue after the stop() called from a handler "
                                "had returned" % late[0][0], cj)
                live = [t["name"] for t in res["timers"] if t["flag"] and t["name"] not in after]
                if live:
                    run.violate(focus + "/source-not-cancelled", "timed sources %s still have their run flag set after the stop() called "
                                "from a handler returned" % live, cj)
                if tied and res["outcome"] != "bound":
                    own_done.append((spec, res, cj))
            done = res.get("stop_returned_at")
            if spec.get("late_stop") and done is not None:
                run.count("handler-armed stream: stop() from a handler, then a source armed and stop() called from outside (%s)"
                          % ("thread had ended" if at is not None and at < done else "thread still running"))
                late2 = [e for e in trace[done:] if e[0].startswith("timer") and e[1] in ("dq.append", "dq.appendleft")]
                if late2:
                    run.violate(focus + "/post-after-stop-returned", "the object had stopped itself from a handler; a source armed afterwards posted (%s) "
                                "after the stop() called from outside had returned" % late2[0][0], cj)
                live2 = [t["name"] for t in res["timers"] if t["flag"]]
                if live2:
                    run.violate(focus + "/source-not-cancelled", "the object had stopped itself from a handler; after a later stop() from outside returned "
                                "the timed sources %s still have their run flag set" % live2, cj)
            elif spec.get("late_stop") and res["outcome"] == "quiescent" and not res["finished"].get("K0"):
                run.violate(focus + "/stop-never-returns", "stop() called from outside on an object that had stopped itself did not return", cj)
        run.case(cj, nontrivial=True)
    lines = []
    for spec, res, cj in tied_done:
        st = armed_model_steps(spec, res)
        toks = ["aoarm", 9, 500, len(spec["arms"])]
        for a in spec["arms"]:
            toks += [a[1], a[4]]
        toks += [len(spec["arms"]), len(st)] + st
        lines.append(" ".join(str(t) for t in toks))
    outs = leanrun.run_driver(lines) if lines else []
    for (spec, res, cj), out in zip(tied_done, outs):
        run.traces_validated += 1
        done = res["stop_returned_at"]
        trace = res["trace"]
        srcs = []
        for k, t in enumerate(res["timers"]):
            posts = [i for i, e in enumerate(trace) if e[0] == t["name"] and e[1] in ("dq.append", "dq.appendleft")]
            srcs.append("%d%d:%s:%d:%d" % (t["flag"], t["tracked"], t["signal"][1:], len(posts), sum(1 for i in posts if i >= done)))
        q = ",".join("a" if x == "ARM" else "s" if x == "STOP_ACTIVE_OBJECT_SIGNAL" else "t" + str([t["signal"] for t in res["timers"]].index(x))
                     for x in res["queue"])
        real = "c=%s k=done run=%d q=%s srcs=%s stopReturned=1 stepsAfterStop=%d blocked=0" % (
            "fin" if res["finished"].get("C") else "alive", res["run_flag"], q, ";".join(srcs), sum(1 for _, i in res["steps"] if i >= done))
        if out.strip() != real:
            run.disagree("stop() racing handlers that arm timed sources (lock granularity)", cj, "model: %s\nreal:  %s" % (out.strip(), real), None)
    lines = []
    for spec, res, cj in own_done:
        st = own_model_steps(spec, res)
        toks = ["aoown", 9, 9, 500, len(spec["arms"])]
        for a in spec["arms"]:
            toks += [a[1], a[4]]
        toks += [len(spec["arms"]), spec.get("more", 0), len(st)] + st
        lines.append(" ".join(str(t) for t in toks))
    outs = leanrun.run_driver(lines) if lines else []
    for (spec, res, cj), out in zip(own_done, outs):
        run.traces_validated += 1
        run.count("handler-armed stream: stop() from a handler replayed on the model (aoown)")
        at = res["own_stop_returned_at"]
        trace = res["trace"]
        srcs = []
        for k, t in enumerate(res["timers"]):
            posts = [i for i, e in enumerate(trace) if e[0] == t["name"] and e[1] in ("dq.append", "dq.appendleft")]
            srcs.append("%d%d:%s:%d:%d" % (t["flag"], t["tracked"], t["signal"][1:], len(posts), sum(1 for i in posts if i >= at)))
        names = [t["signal"] for t in res["timers"]]
        q = ",".join("a" if x == "ARM" else "h" if x == "STOPME" else "s" if x == "STOP_ACTIVE_OBJECT_SIGNAL" else "t" + str(names.index(x))
                     for x in res["queue"])
        real = "c=%s k=done run=%d q=%s srcs=%s haltDone=1 stepsAfterHalt=%d blocked=0" % (
            "fin" if res["finished"].get("C") else "alive", res["run_flag"], q, ";".join(srcs), sum(1 for _, i in res["steps"] if i > at))
        if out.strip() != real:
            run.disagree("stop() called from a handler (lock granularity)", cj, "model: %s\nreal:  %s" % (out.strip(), real), None)


def _basic_chart(log, on_entry=None):
    def s1(chart, e):
        sn = e.signal_name
        if sn[0] in "ET" and sn[1:].isdigit():
            log.append((sn, e.payload))
            return return_status.HANDLED
        if e.signal == signals.ENTRY_SIGNAL:
            if on_entry is not None:
                on_entry(chart)
            return return_status.HANDLED
        if e.signal in (signals.INIT_SIGNAL, signals.EXIT_SIGNAL):
            return return_status.HANDLED
        chart.temp.fun = chart.top
        return return_status.SUPER
    return s1


def run_fabric_stop(spec, chooser, max_steps=3000):
    """posts to an active object before and after ActiveFabric().stop() returned"""
    res = {"errors": [], "log": []}
    saved_pp = mao.pp
    saved_print = mao._print
    mao.pp = lambda x: None
    mao._print = lambda content: None
    live = bool(spec.get("live"))
    with dsched.Installed():
        # with live output on, every hand-over of a line to the writer thread is a scheduling point too
        sched = dsched.Sched(chooser, max_steps=max_steps,
                             yield_filter=(lambda l: yield_filter(l) or l.startswith("DQueue.")) if live else yield_filter)
        dsched.Sched.current = sched
        try:
            ao = mao.ActiveObject(name="C")
            sched.name_obj(ao.locking_deque.deque, "dq")
            sched.name_obj(ao.locking_deque.locking_queue, "tok")
            sched.name_obj(ao.activeobject_task_event, "run")
            if hasattr(ao, "posted_events_lock"):
                # the lock around the tracked-source list: a scheduling point only when it has to wait, not a step of the models
                ao.posted_events_lock = dsched.DLockQuiet()
                sched.name_obj(ao.posted_events_lock, "trk")
            chart = _basic_chart(res["log"])
            if live:
                chart = mhsm.spy_on(chart)
                ao.live_spy = True
                ao.register_live_spy_callback(lambda line: None)      # handed over through the writer thread
            ao.start_at(chart)
            sched.name_obj(ao.fabric_task_event, "fab")

            def client():
                for i in range(spec["before"]):
                    sched.yield_point("call.post")
                    ao.post_fifo(Event(signal="E0", payload=i))
                for _ in range(spec["pauses"]):
                    sched.yield_point("call.pause")
                sched.yield_point("call.fabstop")
                ao.fabric.stop()
                res["stop_at"] = len(sched.trace)
                for j in range(spec["after"]):
                    sched.yield_point("call.post")
                    (ao.post_lifo if spec["lifo"] else ao.post_fifo)(Event(signal="E1", payload=100 + j))
            sched.spawn(client, (), name="K0")
            res["outcome"] = sched.run()
            res["trace"] = sched.trace
            res["finished"] = {t.name: t.finished for t in sched.threads}
            res["live_fabric"] = [t.name for t in sched.threads if "active fabric" in t.name and not t.finished]
            for t in sched.threads:
                if t.error is not None:
                    res["errors"].append("%s: %s: %s" % (t.name, type(t.error).__name__, t.error))
            res["queue"] = [(e.signal_name, e.payload) for e in ao.locking_deque.deque.raw()]
        finally:
            leaked = sched.shutdown()
            mao.pp = saved_pp
            mao._print = saved_print
            if leaked:
                res["errors"].append("leaked: %s" % leaked)
    return res


def explore_fabric_stop(run, n):
    """C13 'stop() halts every active object at its next wake-up' (oracle on the real threads; the theorems
    C13_halts_active_objects_* are about the consumer model tied by the C04/C05 streams)"""
    rng = run.rng
    for _ in range(n):
        spec = {"before": rng.randint(0, 2), "pauses": rng.choice([0, 1, 3, 6]), "after": rng.randint(1, 3), "lifo": int(rng.random() < 0.3),
                "live": int(rng.random() < 0.4)}
        if spec["live"]:
            spec["before"] = rng.randint(1, 3)       # an instrumented object with live spy output, busy when the fabric is stopped
        seed = rng.randrange(1 << 30)
        r2 = random.Random(seed)
        base = dsched.pct_chooser(r2, depth=r2.randint(1, 3), est_len=100) if r2.random() < 0.5 else dsched.random_chooser(r2)
        res = run_fabric_stop(spec, base)
        trace = res["trace"]
        cj = {"what": "fabric-stop", "spec": spec, "seed": seed, "schedule": [e[0] for e in trace]}
        run.count("active object woken after the fabric was stopped%s" % (" (instrumented, live spy output)" if spec["live"] else ""))
        run.traces_validated += 1
        if res["errors"]:
            run.violate("C13/thread-error", "a thread died: %s" % res["errors"][:2], cj)
        at = res.get("stop_at")
        if at is None:
            if res["outcome"] != "bound":
                run.violate("C13/call-never-returns", "ActiveFabric().stop() did not return", cj)
        else:
            if res["live_fabric"]:
                run.violate("C13/thread-survives-stop", "delivery threads alive after stop(): %s" % res["live_fabric"], cj)
            woke = None
            for i, e in enumerate(trace):
                if e[0] == "C" and e[1] == "tok.get":
                    woke = i
                if e[0] == "C" and e[1] == "dq.popleft" and woke is not None and woke >= at:
                    run.violate("C13/active-object-runs-after-fabric-stop", "the active object woke up after ActiveFabric().stop() had returned "
                                "and still ran a run-to-completion step (dispatched so far: %s)" % res["log"][-3:], cj)
                    break
            if res["outcome"] == "quiescent" and not res["finished"].get("C"):
                run.violate("C13/active-object-not-halted", "the fabric was stopped and the active object was woken %d time(s) afterwards, "
                            "but its thread is still alive" % spec["after"], cj)
        run.case(cj, nontrivial=True)


def run_prestart(spec, chooser, max_steps=3000):
    """a timed source armed before the object's thread exists: in the start state's ENTRY handler, or on the unstarted object"""
    res = {"errors": [], "log": []}
    saved_pp = mao.pp
    mao.pp = lambda x: None
    with dsched.Installed():
        def stop_when(s):
            k = [t for t in s.threads if t.name == "K0"]
            return bool(k) and k[0].finished and s.now >= spec["horizon"]
        sched = dsched.Sched(chooser, max_steps=max_steps, yield_filter=yield_filter)
        dsched.Sched.current = sched
        try:
            ao = mao.ActiveObject(name="C")
            sched.name_obj(ao.locking_deque.deque, "dq")
            sched.name_obj(ao.locking_deque.locking_queue, "tok")
            sched.name_obj(ao.activeobject_task_event, "run")
            if hasattr(ao, "posted_events_lock"):
                # the lock around the tracked-source list: a scheduling point only when it has to wait, not a step of the models
                ao.posted_events_lock = dsched.DLockQuiet()
                sched.name_obj(ao.posted_events_lock, "trk")

            def arm(chart):
                f = chart.post_lifo if spec["lifo"] else chart.post_fifo
                f(Event(signal="T0", payload=7), period=spec["period"], times=spec["times"], deferred=bool(spec["deferred"]))

            def client():
                sched.yield_point("call.begin")
                if spec["where"] == "entry":
                    ao.start_at(_basic_chart(res["log"], on_entry=arm))
                elif spec["where"] == "started":
                    ao.start_at(_basic_chart(res["log"]))
                    sched.yield_point("call.timed")
                    res["armed_at"] = sched.now
                    arm(ao)
                else:
                    arm(ao)
                    if spec["wait"]:
                        mao.time.sleep(spec["wait"])
                    ao.start_at(_basic_chart(res["log"]))
                sched.name_obj(ao.fabric_task_event, "fab")
            sched.spawn(client, (), name="K0")
            res["outcome"] = sched.run(stop_when=stop_when)
            res["trace"] = sched.trace
            res["now"] = sched.now
            for t in sched.threads:
                if t.error is not None:
                    res["errors"].append("%s: %s: %s" % (t.name, type(t.error).__name__, t.error))
            res["posts"] = [e[4] for e in sched.trace if e[0].startswith("timer") and e[1] in ("dq.append", "dq.appendleft")]
            res["timer_finished"] = all(t.finished for t in sched.threads if t.name.startswith("timer"))
        finally:
            leaked = sched.shutdown()
            mao.pp = saved_pp
            if leaked:
                res["errors"].append("leaked: %s" % leaked)
    return res


def explore_prestart(run, n):
    """C10 for sources armed before the object's thread runs (oracle only: the Lean model arms sources from a client of a
    started object)"""
    rng = run.rng
    for _ in range(n):
        spec = {"where": rng.choice(["entry", "unstarted", "started", "started"]), "period": rng.randint(1, 3), "times": rng.choice([0, 1, 2, 3]),
                "deferred": int(rng.random() < 0.5), "lifo": int(rng.random() < 0.3), "wait": rng.choice([0, 0, 1, 2, 4]), "horizon": 14}
        bias = rng.choice([0.0, 0.1, 0.3])
        if spec["where"] == "started":
            # any period a caller may pass, not only whole ticks; the clock moves only when nothing else can run: exact instants
            spec["period"] = rng.choice([0.25, 0.5, 1, 1.25, 1.5, 2, 2.5, 3.75])
            bias = 0.0
        big = _ < max(2, n // 25)
        if big:
            # repeat counts well beyond the handful a test would wait for
            spec.update({"where": "started", "period": rng.choice([0.25, 0.5]), "times": rng.choice([255, 256, 257, 258, 300, 513]),
                         "deferred": int(rng.random() < 0.5)})
            spec["horizon"] = spec["times"] * spec["period"] + 4
            bias = 0.0
            run.count("timed source with a large repeat count")
        seed = rng.randrange(1 << 30)
        r2 = random.Random(seed)
        base = dsched.random_chooser(r2, clock_bias=bias)
        res = run_prestart(spec, base, max_steps=(30000 if big else 3000))
        cj = {"what": "prestart", "spec": spec, "seed": seed, "schedule": [e[0] for e in res["trace"]] if not big else []}
        run.count("timed source armed %s" % ("in the start state's ENTRY handler" if spec["where"] == "entry" else "on the unstarted object"))
        run.traces_validated += 1
        if res["errors"]:
            run.violate("C10/thread-error", "a thread died: %s" % res["errors"][:2], cj)
        got, n_t, p = res["posts"], spec["times"], spec["period"]
        if spec["where"] == "started" and "armed_at" in res and not res["errors"]:
            t0 = res["armed_at"] + (p if spec["deferred"] else 0)
            expect = [t0 + k * p for k in range(n_t if n_t else 1000) if t0 + k * p < res["now"] - 1e-9]
            run.count("period %s: instants checked" % p)
            if [round(x, 6) for x in got[:len(expect)]] != [round(x, 6) for x in expect] or (n_t and len(got) > n_t):
                run.violate("C10/instants", "a source with period %s, times %d, deferred %s armed at %s posted %d times at %s…, expected %d posts at "
                            "%s… (virtual time, the clock advances only when no thread can run)"
                            % (p, n_t, bool(spec["deferred"]), res["armed_at"], len(got), [round(x, 3) for x in got[:6]], len(expect),
                               [round(x, 3) for x in expect[:6]]), cj)
        if n_t and len(got) > n_t:
            run.violate("C10/too-many-posts", "a source armed before the thread started (times=%d) posted %d times" % (n_t, len(got)), cj)
        if res["outcome"] in ("stopped", "quiescent"):
            due = 1 + (int(res["now"]) - 1 - (p if spec["deferred"] else 0) - spec["wait"] * 0) // p if int(res["now"]) - 1 >= (p if spec["deferred"] else 0) else 0
            must = min(n_t, due) if n_t else min(due, 1)
            # only what is certainly due strictly before the last instant reached, with a wide margin for late timer threads
            if n_t and (res["outcome"] == "quiescent" or res["timer_finished"]) and len(got) != n_t:
                run.violate("C10/wrong-count", "a source armed %s (period %d, times %d, deferred %s) ended after %d posts"
                            % (spec["where"], p, n_t, bool(spec["deferred"]), len(got)), cj)
            elif res["outcome"] == "quiescent" and not n_t:
                run.violate("C10/wrong-count", "an endless source armed %s stopped by itself after %d posts" % (spec["where"], len(got)), cj)
        run.case(cj, nontrivial=True)


def run_track(spec, chooser, max_steps=40000):
    """several threads arm timed sources (long deferred periods: nothing fires) and cancel by name / by id on ONE object, every
    bytecode of __post_event / cancel_event / cancel_events a scheduling point; the object's lock around its tracked-source list
    is a scheduler-aware lock whose acquisitions are recorded"""
    import uuid as _u
    res = {"errors": []}
    saved_pp = mao.pp
    mao.pp = lambda x: None
    with dsched.Installed():
        def stop_when(s):
            ts = [t for t in s.threads if t.name.startswith("T") and t.name[1:].isdigit()]
            return bool(ts) and all(t.finished for t in ts)
        sched = dsched.Sched(chooser, max_steps=max_steps, yield_filter=lambda l: l == "op" or yield_filter(l))
        dsched.Sched.current = sched
        try:
            class AO(mao.ActiveObject):
                QUEUE_SIZE = spec["cap"]
            ao = AO(name="C")
            if hasattr(ao, "posted_events_lock"):
                ao.posted_events_lock = dsched.DLock()
                sched.name_obj(ao.posted_events_lock, "trk")
            codes = [mao.ActiveObject.cancel_event.__code__, mao.ActiveObject.cancel_events.__code__,
                     mao.ActiveObject._ActiveObject__post_event.__code__, mao.ActiveObject._ActiveObject__start.__code__]
            log_ = []
            sched.tracer = dsched.trace_opcodes(codes)
            mine = [[] for _ in spec["progs"]]

            def mk(i, prog):
                def f():
                    for kind, arg in prog:
                        if kind == "arm":
                            try:
                                mine[i].append(ao.post_fifo(Event(signal="N%d" % arg), period=1000, times=0, deferred=True))
                            except mao.ActiveObjectOutOfPostedEventResources:
                                mine[i].append(None)
                        elif kind == "cancelName":
                            ao.cancel_events(Event(signal="N%d" % arg))
                        elif kind == "start":
                            ao.start_at(_basic_chart(log_))         # the object is started while the others arm / cancel
                        else:
                            the_id = mine[i][arg] if arg < len(mine[i]) else None
                            ao.cancel_event(_u.UUID(str(the_id)) if isinstance(the_id, _u.UUID) else (the_id if the_id is not None else _u.uuid4()))
                return f
            for i, prog in enumerate(spec["progs"]):
                sched.spawn(mk(i, prog), (), name="T%d" % i)
            res["outcome"] = sched.run(stop_when=stop_when)
            res["order"] = [e[0] for e in sched.trace]
            res["acquisitions"] = [int(e[0][1:]) for e in sched.trace if e[1] == "trk.acquire" and e[0].startswith("T")]
            for t in sched.threads:
                if t.error is not None:
                    res["errors"].append("%s: %s: %s" % (t.name, type(t.error).__name__, t.error))
            res["finished"] = all(t.finished for t in sched.threads if t.name.startswith("T") and t.name[1:].isdigit())
            res["mine"] = [[None if x is None else str(x) for x in m] for m in mine]
            res["q"] = [(str(r.uuid), r.signal_name, int(r.task_run_event._flag)) for r in ao.posted_events_queue]
            timers = sorted([t for t in sched.threads if t.name.startswith("timer")], key=lambda t: int(t.name[5:]))
            res["sources"] = [(t.args[0].event.signal_name, int(t.args[0].task_run_event._flag)) for t in timers]
        finally:
            leaked = sched.shutdown()
            mao.pp = saved_pp
            if leaked:
                res["errors"].append("leaked: %s" % leaked)
    return res


def explore_start_vs_arm(run, focus, n):
    """oracle-only: one thread starts the object (start_at) while another arms its first timed source, every bytecode of
    __start / __post_event a scheduling point: afterwards the source is tracked (cancel and stop() can reach it)"""
    import uuid as _u
    rng = run.rng
    for _ in range(n):
        seed = rng.randrange(1 << 30)
        r2 = random.Random(seed)
        chooser = dsched.pct_chooser(r2, depth=r2.randint(1, 3), est_len=600) if r2.random() < 0.7 else dsched.random_chooser(r2)
        res = {"errors": []}
        saved_pp = mao.pp
        mao.pp = lambda x: None
        with dsched.Installed():
            sched = dsched.Sched(chooser, max_steps=20000, yield_filter=lambda l: l == "op" or yield_filter(l))
            dsched.Sched.current = sched
            try:
                ao = mao.ActiveObject(name="C")
                sched.tracer = dsched.trace_opcodes([mao.ActiveObject._ActiveObject__post_event.__code__, mao.ActiveObject._ActiveObject__start.__code__])
                got = {}
                log_ = []

                def starter():
                    ao.start_at(_basic_chart(log_))

                def armer():
                    got["id"] = ao.post_fifo(Event(signal="N1"), period=1000, times=0, deferred=True)
                sched.spawn(starter, (), name="T0")
                sched.spawn(armer, (), name="T1")
                sched.run(stop_when=lambda s: all(t.finished for t in s.threads if t.name in ("T0", "T1")))
                for t in sched.threads:
                    if t.error is not None:
                        res["errors"].append("%s: %s: %s" % (t.name, type(t.error).__name__, t.error))
                res["done"] = all(t.finished for t in sched.threads if t.name in ("T0", "T1"))
                res["tracked"] = [str(r.uuid) for r in ao.posted_events_queue]
                res["id"] = str(got.get("id"))
                res["order"] = [e[0] for e in sched.trace]
            finally:
                sched.shutdown()
                mao.pp = saved_pp
        cj = {"what": "start-vs-arm", "seed": seed, "schedule": res.get("order", [])}
        run.count("start_at racing the first timed post (bytecode level)")
        run.traces_validated += 1
        if res["errors"]:
            run.violate("%s/thread-error" % focus, "start_at racing a timed post: %s" % res["errors"][:2], cj)
        elif res.get("done") and res["id"] not in res["tracked"]:
            run.violate("%s/live-source-not-tracked" % focus, "one thread called start_at while another posted the object's first timed event: the "
                        "source %s runs but posted_events_queue holds %s, so no cancel or stop() can reach it" % (res["id"], res["tracked"]), cj)
        run.case(cj, nontrivial=True)


def explore_track(run, focus, n):
    """tie of the Lean model `Conc.Track` (family `track`) + oracle: 2-3 threads arming / cancelling on one object, bytecode-level
    interleaving. By `C11_track_refines_atomic` the outcome of any schedule is that of the calls executed one after the other in
    lock-acquisition order: the model runs exactly that sequence, the tracked list, every source's flag and the number of rejected
    posts are compared; oracle: every source whose flag is set is tracked (`C11_track_live_sources_are_tracked`)"""
    rng = run.rng
    done = []
    for _ in range(n):
        nt = rng.randint(2, 3)
        cap = rng.choice([2, 3, 4, 6])
        progs = []
        for _t in range(nt):
            p, arms = [], 0
            for _c in range(rng.randint(1, 4)):
                r = rng.random()
                if r < 0.5 or (arms == 0 and r < 0.7):
                    p.append(("arm", rng.randrange(3)))
                    arms += 1
                elif r < 0.8:
                    p.append(("cancelName", rng.randrange(3)))
                else:
                    p.append(("cancelMine", rng.randrange(max(1, arms))))
            progs.append(p)
        spec = {"cap": cap, "progs": progs}
        seed = rng.randrange(1 << 30)
        r2 = random.Random(seed)
        chooser = dsched.pct_chooser(r2, depth=r2.randint(1, 4), est_len=1500) if r2.random() < 0.5 else dsched.random_chooser(r2)
        res = run_track(spec, chooser)
        cj = {"what": "track", "spec": spec, "seed": seed, "schedule": res.get("order", [])}
        run.count("tracked-source list: %d threads arming / cancelling (bytecode level)" % nt)
        if res["errors"]:
            run.violate("%s/thread-error" % focus, "concurrent timed posts / cancels failed: %s" % res["errors"][:2], cj)
            run.case(cj, nontrivial=True)
            continue
        if not res.get("finished"):
            if res.get("outcome") == "quiescent":
                run.violate("%s/call-never-returns" % focus, "concurrent timed posts / cancels: a call never returned (no thread can run)", cj)
            run.case(cj, nontrivial=True)
            continue
        tracked_ids = set(u for u, _, _ in res["q"])
        live_untracked = []
        # sources in creation order = timer threads in creation order; their ids in the order the arms were accepted
        acq = res["acquisitions"]
        if len(acq) == sum(1 for p in progs for c in p if c[0] != "start"):
            pos = [0] * len(progs)
            arm_pos = [0] * len(progs)
            calls, gid, ids_in_order = [], {}, []
            for i in acq:
                while progs[i][pos[i]][0] == "start":
                    pos[i] += 1                     # starting the object does not touch the tracked list
                kind, arg = progs[i][pos[i]]
                pos[i] += 1
                if kind == "arm":
                    u = res["mine"][i][arm_pos[i]]
                    arm_pos[i] += 1
                    if u is not None:
                        gid[(i, arm_pos[i] - 1)] = len(ids_in_order)
                        ids_in_order.append(u)
                    calls.append((0, arg))
                elif kind == "cancelName":
                    calls.append((1, arg))
                else:
                    calls.append((2, gid.get((i, arg), 999)))
            index = {u: k for k, u in enumerate(ids_in_order)}
            for k, (nm, fl) in enumerate(res["sources"]):
                if fl and k < len(ids_in_order) and ids_in_order[k] not in tracked_ids:
                    live_untracked.append("N%s (source %d)" % (nm[1:], k))
            if live_untracked:
                run.violate("%s/live-source-not-tracked" % focus, "after concurrent timed posts and cancels the sources %s still have their run flag "
                            "set but are no longer in posted_events_queue: no cancel or stop() can reach them" % live_untracked, cj)
            real = "q=%s all=%s rejected=%d" % (",".join("%d:%s:%d" % (index.get(u, -1), nm[1:], fl) for u, nm, fl in res["q"]),
                                                  ",".join("%d:%s:%d" % (k, nm[1:], fl) for k, (nm, fl) in enumerate(res["sources"])),
                                                  sum(1 for m in res["mine"] for x in m if x is None))
            toks = ["track", 9, cap, 1, len(calls)] + [x for c in calls for x in c]
            nsteps = len(calls) * (2 * cap + 4)
            toks += [nsteps] + [0] * nsteps
            done.append((cj, real, " ".join(str(t) for t in toks)))
        else:
            run.count("tracked-source list: run without a usable acquisition log (the lock is gone?)")
            # no lock to order the calls by: the invariant alone
            for k, (nm, fl) in enumerate(res["sources"]):
                pass
            flags_set = sum(fl for _, fl in res["sources"])
            if flags_set > sum(fl for _, _, fl in res["q"]):
                run.violate("%s/live-source-not-tracked" % focus, "after concurrent timed posts and cancels %d sources have their run flag set but "
                            "only %d of them are in posted_events_queue" % (flags_set, sum(fl for _, _, fl in res["q"])), cj)
        run.case(cj, nontrivial=True)
    outs = leanrun.run_driver([l for _, _, l in done]) if done else []
    for (cj, real, _), out in zip(done, outs):
        run.traces_validated += 1
        model = " ".join(x for x in out.strip().split(" ") if x.split("=")[0] in ("q", "all", "rejected"))
        if model != real:
            run.disagree("tracked-source list under concurrent timed posts and cancels (calls in lock-acquisition order)", cj,
                         "model: %s\nreal:  %s" % (model, real), None)


def run_subclass_capacity(spec, chooser, max_steps=6000):
    """an ActiveObject subclass that raises QUEUE_SIZE above the base class's value, filled with timed sources up to ITS capacity"""
    res = {"errors": []}
    saved_pp = mao.pp
    saved_cap = mhsm.HsmWithQueues.QUEUE_SIZE
    mao.pp = lambda x: None
    with dsched.Installed():
        def stop_when(s):
            k = [t for t in s.threads if t.name == "K0"]
            return bool(k) and k[0].finished
        sched = dsched.Sched(chooser, max_steps=max_steps, yield_filter=yield_filter)
        dsched.Sched.current = sched
        try:
            mhsm.HsmWithQueues.QUEUE_SIZE = spec["base"]

            class Roomy(mao.ActiveObject):
                QUEUE_SIZE = spec["base"] + spec["extra"]
            ao = Roomy(name="C")
            if spec.get("live"):
                ao.live_spy, ao.live_trace = bool(spec["live"] & 1), bool(spec["live"] & 2)     # live output switched on: nothing else changes
            got = []

            def s1(chart, e):
                if e.signal_name[0] == "T":
                    got.append(e.signal_name)
                    return return_status.HANDLED
                if e.signal in (signals.ENTRY_SIGNAL, signals.INIT_SIGNAL, signals.EXIT_SIGNAL):
                    return return_status.HANDLED
                chart.temp.fun = chart.top
                return return_status.SUPER
            if spec.get("started", True):
                ao.start_at(s1)

            def client():
                sched.yield_point("call.begin")
                cap = Roomy.QUEUE_SIZE
                ids = []
                for k in range(cap):
                    ids.append(ao.post_fifo(Event(signal="T%d" % k), period=spec["period"], times=0, deferred=True))
                res["tracked_full"] = len(ao.posted_events_queue)
                try:
                    ao.post_fifo(Event(signal="TX"), period=1, times=1, deferred=False)
                    res["extra"] = "accepted"
                except mao.ActiveObjectOutOfPostedEventResources:
                    res["extra"] = "rejected"
                except Exception as ex:  # noqa
                    res["extra"] = "raised %s: %s" % (type(ex).__name__, ex)
                if not spec.get("started", True):
                    # an object that was never started: nothing is dispatched; the rejected source must not have posted, the others are cancelled
                    mao.time.sleep(2)
                    res["extra_fired"] = any(e.signal_name == "TX" for e in ao.locking_deque.deque.raw())
                    for k in range(cap):
                        ao.cancel_events(Event(signal="T%d" % k))
                    res["unstarted_done"] = True
                    return
                mao.time.sleep(2)
                res["extra_fired"] = "TX" in got
                # cancel the OLDEST source by an equal id, the second oldest by name
                import uuid as _u
                the_id = ids[0]
                ao.cancel_event(_u.UUID(str(the_id)) if isinstance(the_id, _u.UUID) else the_id)
                ao.cancel_events(Event(signal="T1"))
                del got[:]
                mao.time.sleep(spec["period"] + 1)
                res["after_cancel"] = sorted(set(got))
                res["tracked_after"] = len(ao.posted_events_queue)
                ao.stop()
                del got[:]
                mao.time.sleep(spec["period"] + 1)
                res["after_stop"] = sorted(set(got))
            sched.spawn(client, (), name="K0")
            res["outcome"] = sched.run(stop_when=stop_when)
            res["trace"] = sched.trace
            for t in sched.threads:
                if t.error is not None:
                    res["errors"].append("%s: %s: %s" % (t.name, type(t.error).__name__, t.error))
            res["live_flags"] = [t.args[0].event.signal_name for t in sched.threads if t.name.startswith("timer")
                                 and t.args[0].task_run_event._flag]
        finally:
            leaked = sched.shutdown()
            mhsm.HsmWithQueues.QUEUE_SIZE = saved_cap
            mao.pp = saved_pp
            if leaked:
                res["errors"].append("leaked: %s" % leaked)
    return res


def explore_subclass_capacity(run, focus, n):
    """C11 / C31 / C12 on an ActiveObject subclass whose QUEUE_SIZE is larger than the base class's (oracle only): it can track its
    own QUEUE_SIZE sources, the next timed post is rejected and never fires, the oldest source can still be cancelled by id or
    by name, stop() cancels them all"""
    rng = run.rng
    for _ in range(n):
        # (extra <= 2: the cap - 2 sources left after the cancels may all fire at one instant into an event queue of `base` places)
        spec = {"base": rng.randint(1, 4), "extra": rng.randint(1, 2), "period": rng.choice([3, 5]), "started": rng.random() < 0.65,
                "live": rng.choice([0, 0, 1, 2, 3])}
        seed = rng.randrange(1 << 30)
        res = run_subclass_capacity(spec, dsched.random_chooser(random.Random(seed), clock_bias=0.0))
        cj = {"what": "subclass-capacity", "spec": spec, "seed": seed, "schedule": [e[0] for e in res.get("trace", [])]}
        cap = spec["base"] + spec["extra"]
        run.count("subclass with QUEUE_SIZE above the base class's" + ("" if spec["started"] else " (object never started)"))
        run.traces_validated += 1
        if res["errors"]:
            run.violate("%s/thread-error" % focus, "a thread died: %s" % res["errors"][:2], cj)
        elif res.get("unstarted_done"):
            if res["tracked_full"] != cap:
                run.violate("%s/accepted-source-not-tracked" % focus, "a never-started object with QUEUE_SIZE = %d accepted %d timed sources and tracks "
                            "%d of them" % (cap, cap, res["tracked_full"]), cj)
            if res["extra"] != "rejected" or res["extra_fired"]:
                run.violate("%s/post-beyond-capacity" % focus, "a never-started object tracking its QUEUE_SIZE = %d sources: one more timed post was %s%s"
                            % (cap, res["extra"], " and its event was posted" if res["extra_fired"] else ""), cj)
        elif res.get("outcome") == "bound" or "after_stop" not in res:
            pass
        else:
            if res["tracked_full"] != cap:
                run.violate("%s/accepted-source-not-tracked" % focus, "a subclass with QUEUE_SIZE = %d (base class: %d) accepted %d timed "
                            "sources and tracks %d of them" % (cap, spec["base"], cap, res["tracked_full"]), cj)
            if res["extra"] != "rejected" or res["extra_fired"]:
                run.violate("%s/post-beyond-capacity" % focus, "with QUEUE_SIZE = %d sources tracked (base class: %d) one more timed post was %s%s"
                            % (cap, spec["base"], res["extra"], " and its event was dispatched" if res["extra_fired"] else ""), cj)
            late = [x for x in res["after_cancel"] if x in ("T0", "T1")]
            if late:
                run.violate("%s/cancelled-source-still-posts" % focus, "subclass with QUEUE_SIZE = %d (base class: %d): the sources %s, cancelled by id / "
                            "by name, posted again after the cancel calls returned" % (cap, spec["base"], late), cj)
            missing = [x for x in ("T%d" % k for k in range(2, cap)) if x not in res["after_cancel"]]
            if missing:
                run.violate("%s/other-source-stopped" % focus, "after cancelling T0 and T1 the sources %s no longer post" % missing, cj)
            if res["after_stop"] or res["live_flags"]:
                run.violate("%s/source-survives-stop" % focus, "subclass with QUEUE_SIZE = %d (base class: %d): after stop() returned the sources %s "
                            "posted / still have their run flag set: %s" % (cap, spec["base"], res["after_stop"], res["live_flags"]), cj)
        run.case(cj, nontrivial=True)


def run_timed_placement(spec, chooser, max_steps=3000):
    """events pending in the queue of an active object whose thread is not running yet, timed sources (fifo / lifo) firing on top"""
    saved_cap = mhsm.HsmWithQueues.QUEUE_SIZE
    if spec.get("cap"):
        mhsm.HsmWithQueues.QUEUE_SIZE = spec["cap"]
    try:
        res = _run_timed_placement(spec, chooser, max_steps)
        if res.get("queue") is not None and res.get("post_order") is not None and not res["errors"]:
            # reference: the same pending events, then the timed events posted directly, in the order the timers fired
            ref = mao.ActiveObject(name="R")
            for k in range(spec["pending"]):
                (ref.post_lifo if spec["pending_lifo"] else ref.post_fifo)(Event(signal="P%d" % k))
            for k in res["post_order"]:
                (ref.post_lifo if spec["sources"][k][0] else ref.post_fifo)(Event(signal="T%d" % k))
            res["reference"] = [e.signal_name for e in ref.locking_deque.deque]
        return res
    finally:
        mhsm.HsmWithQueues.QUEUE_SIZE = saved_cap


def _run_timed_placement(spec, chooser, max_steps=3000):
    res = {"errors": []}
    saved_pp = mao.pp
    mao.pp = lambda x: None
    with dsched.Installed():
        def stop_when(s):
            k = [t for t in s.threads if t.name == "K0"]
            return bool(k) and k[0].finished
        sched = dsched.Sched(chooser, max_steps=max_steps, yield_filter=yield_filter)
        dsched.Sched.current = sched
        try:
            ao = mao.ActiveObject(name="C")
            sched.name_obj(ao.locking_deque.deque, "dq")
            sched.name_obj(ao.locking_deque.locking_queue, "tok")
            sched.name_obj(ao.activeobject_task_event, "run")
            if hasattr(ao, "posted_events_lock"):
                # the lock around the tracked-source list: a scheduling point only when it has to wait, not a step of the models
                ao.posted_events_lock = dsched.DLockQuiet()
                sched.name_obj(ao.posted_events_lock, "trk")

            def client():
                sched.yield_point("call.begin")
                for k in range(spec["pending"]):
                    (ao.post_lifo if spec["pending_lifo"] else ao.post_fifo)(Event(signal="P%d" % k))
                for k, (lifo, period, times, deferred) in enumerate(spec["sources"]):
                    (ao.post_lifo if lifo else ao.post_fifo)(Event(signal="T%d" % k), period=period, times=times, deferred=bool(deferred))
                mao.time.sleep(spec["sleep"])
                res["queue"] = [e.signal_name for e in ao.locking_deque.deque.raw()]
                for k in range(len(spec["sources"])):
                    ao.cancel_events(Event(signal="T%d" % k))
            sched.spawn(client, (), name="K0")
            res["outcome"] = sched.run(stop_when=stop_when)
            res["trace"] = sched.trace
            for t in sched.threads:
                if t.error is not None:
                    res["errors"].append("%s: %s: %s" % (t.name, type(t.error).__name__, t.error))
            # the order in which the timer threads placed their events (whatever end they used)
            res["post_order"] = [int(e[0][5:]) for e in sched.trace if e[0].startswith("timer") and e[1] in ("dq.append", "dq.appendleft")
                                 and e[4] < spec["sleep"] + 1e-9] if all(len(e) > 4 for e in sched.trace if e[0].startswith("timer")) else None
        finally:
            leaked = sched.shutdown()
            mao.pp = saved_pp
            if leaked:
                res["errors"].append("leaked: %s" % leaked)
    return res


def explore_timed_placement(run, focus, n):
    """where a timed source's posts land when other events are pending (oracle only): an object that is not started yet holds
    `pending` events; each fifo source's events must be behind them, each lifo source's events in front of everything that was
    in the queue when it fired"""
    rng = run.rng
    for _ in range(n):
        nsrc = rng.randint(1, 2)
        spec = {"pending": rng.randint(1, 3), "pending_lifo": int(rng.random() < 0.3),
                "sources": [(int(rng.random() < 0.6), rng.choice([1, 2]), rng.choice([1, 1, 2]), int(rng.random() < 0.5)) for _ in range(nsrc)],
                "sleep": 7}
        if rng.random() < 0.3:
            # at and around a small capacity: ONE source, so that its posts do not interleave with another timer's inside the
            # overflow path of a post (which is not atomic; the properties exempt what overflow displaces)
            spec["cap"] = rng.choice([2, 3, 4])
            spec["pending"] = spec["cap"] - rng.choice([0, 0, 1])
            spec["sources"] = spec["sources"][:1]
        seed = rng.randrange(1 << 30)
        res = run_timed_placement(spec, dsched.random_chooser(random.Random(seed), clock_bias=0.0))
        cj = {"what": "timed-placement", "spec": spec, "seed": seed, "schedule": [e[0] for e in res.get("trace", [])]}
        run.count("timed %s source(s) firing onto %d pending event(s)" % ("+".join("lifo" if s[0] else "fifo" for s in spec["sources"]), spec["pending"]))
        run.traces_validated += 1
        if res["errors"]:
            run.violate("%s/thread-error" % focus, "a thread died: %s" % res["errors"][:2], cj)
            run.case(cj, nontrivial=True)
            continue
        q = res.get("queue")
        order = res.get("post_order")
        if q is None or order is None:
            run.case(cj, nontrivial=False)
            continue
        fired = [order.count(k) for k in range(len(spec["sources"]))]
        due = [src[2] for src in spec["sources"]]            # every source is finite and has run out long before the client looks
        if fired != due:
            run.violate("%s/timed-post-count" % focus, "timed sources %s (lifo?, period, times, deferred) onto a queue of capacity %s holding %d "
                        "events: they placed %s events in %d ticks, expected %s" % (spec["sources"], spec.get("cap", 500), spec["pending"], fired,
                                                                                      spec["sleep"], due), cj)
            run.case(cj, nontrivial=True)
            continue
        pend = ["P%d" % k for k in range(spec["pending"])]
        if spec["pending_lifo"]:
            pend.reverse()
        want = list(pend)
        for k in order:
            if spec["sources"][k][0]:
                want.insert(0, "T%d" % k)
            else:
                want.append("T%d" % k)
        if spec.get("cap"):
            # at and around a small capacity: what direct post_fifo / post_lifo calls in the same order leave in the queue
            want = res.get("reference", want)
            pend = pend[-spec["cap"]:]
            run.count("timed sources firing onto a queue of capacity %d holding %d" % (spec["cap"], spec["pending"]))
        counts_ok = spec.get("cap") or sorted(x for x in q if x[0] == "T") == sorted(x for x in want if x[0] == "T")
        if counts_ok and q != want:
            kinds = {("T%d" % k): ("lifo" if s[0] else "fifo") for k, s in enumerate(spec["sources"])}
            run.violate("%s/timed-post-placement" % focus, "an object not started yet held %s; timed sources %s fired in the order %s; the queue is %s, "
                        "a double-ended queue (fifo = back, lifo = front) gives %s" % (pend, kinds, ["T%d" % k for k in order], q, want), cj)
        run.case(cj, nontrivial=True)


def replay(case):
    cc = case.get("case", case)
    if cc.get("what") == "track":
        res = run_track(cc["spec"], dsched.scripted_chooser(cc["schedule"], then=dsched.round_robin_chooser()))
        print({k: v for k, v in res.items() if k != "order"})
        return 0
    if cc.get("what") == "subclass-capacity":
        res = run_subclass_capacity(cc["spec"], dsched.scripted_chooser(cc["schedule"], then=dsched.round_robin_chooser()))
        print({k: v for k, v in res.items() if k != "trace"})
        return 0
    if cc.get("what") == "timed-placement":
        res = run_timed_placement(cc["spec"], dsched.scripted_chooser(cc["schedule"], then=dsched.round_robin_chooser()))
        print({k: v for k, v in res.items() if k != "trace"})
        return 0
    if cc.get("what") == "fabric-stop":
        res = run_fabric_stop(cc["spec"], dsched.scripted_chooser(cc["schedule"], then=dsched.round_robin_chooser()))
        print({k: v for k, v in res.items() if k != "trace"})
        return 0
    if cc.get("what") == "prestart":
        res = run_prestart(cc["spec"], dsched.scripted_chooser(cc["schedule"], then=dsched.round_robin_chooser()),
                           max_steps=30000 if cc["spec"]["times"] > 100 else 3000)
        print({k: v for k, v in res.items() if k != "trace"})
        return 0
    if cc.get("what") == "handler-armed":
        res = run_handler_armed(cc["spec"], dsched.scripted_chooser(cc["schedule"], then=dsched.round_robin_chooser()))
        print({k: v for k, v in res.items() if k != "trace"})
        return 0
    sc = AoScenario.from_json(cc["scenario"])
    ar = run_real(sc, dsched.scripted_chooser(cc["schedule"], then=dsched.round_robin_chooser()))
    out = leanrun.run_driver([sc.encode([t for t, _, _ in modelled_steps(ar)])])[0]
    print("outcome", ar.outcome, "results", ar.results, "timers", ar.timers, "dispatched", ar.dispatched, "errors", ar.errors)
    print("model agrees:", compare(sc, ar, out))
    return 0
