"""Statements that use a thread-safe attribute, as real source lines (the descriptor inspects the
calling frame's source line, so these must live in a file)."""


def do_read(o):
    y = o.x
    return y


def do_assign(o, v):
    o.x = v


def do_aug(o, d):
    o.x += d


def do_misread(o):
    if o.x <= 10 ** 9: pass


def do_lock_form(o):
    _, _lock = o.x
    return _lock
