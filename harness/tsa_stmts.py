"""Statements that use a thread-safe attribute, as real source lines (the descriptor inspects the
calling frame's source line, so these must live in a file)."""


def do_read(o):
    y = o.x
    return y


def do_class_read(o):
    y = type(o).x
    return y


def do_hasattr(o):
    return hasattr(type(o), 'x')


def do_assign(o, v):
    o.x = v


def do_aug(o, d):
    o.x += d


def do_aug_hashkey(holder, d):
    holder['#tag'].x += d


def do_aug_hashkey2(holder, d):
    holder["#id"].x -= -d


def do_aug_two_lines(o, d):
    o.x += \
        d


def do_misread(o):
    if o.x <= 10 ** 9: pass


def do_lock_form(o):
    _, _lock = o.x
    return _lock


# one source line per augmented-assignment operator (the library classifies the statement from its source text)
def aug_sub(o, d):
    o.x -= d


def aug_mul(o, d):
    o.x *= d


def aug_truediv(o, d):
    o.x /= d


def aug_floordiv(o, d):
    o.x //= d


def aug_mod(o, d):
    o.x %= d


def aug_pow(o, d):
    o.x **= d


def aug_rshift(o, d):
    o.x >>= d


def aug_lshift(o, d):
    o.x <<= d


def aug_and(o, d):
    o.x &= d


def aug_xor(o, d):
    o.x ^= d


def aug_or(o, d):
    o.x |= d


def read_y(o):
    r = o.y
    return r


def aug_x_by_y(o):
    o.x += read_y(o)


# statements that involve two instances of the class
def two_aug_from(b, a):
    b.x += a.x


def two_assign_from(b, a):
    b.x = a.x + 1


def two_swap(a, b):
    a.x, b.x = b.x, a.x


def two_accumulate_then_assign(a, b, v):
    total = 0
    total += a.x
    b.x = v
    return total


def two_compare_then_assign(a, b, v):
    if a.x <= 10 ** 9:
        b.x = v


def two_sub_from(b, a):
    b.x -= a.x


def two_read_both(a, b):
    return a.x + b.x


import operator as _op
AUG_OPS = {"+=": (do_aug, _op.add), "-=": (aug_sub, _op.sub), "*=": (aug_mul, _op.mul), "/=": (aug_truediv, _op.truediv),
           "//=": (aug_floordiv, _op.floordiv), "%=": (aug_mod, _op.mod), "**=": (aug_pow, _op.pow), ">>=": (aug_rshift, _op.rshift),
           "<<=": (aug_lshift, _op.lshift), "&=": (aug_and, _op.and_), "^=": (aug_xor, _op.xor), "|=": (aug_or, _op.or_)}
