"""C16 (active-object half): real `LockingDeque` driven by one thread ↔ Lean `Conc.LD.seqStep`,
operation by operation, plus the bounded-deque / one-token-per-event / clear-always-succeeds oracles."""
import os, sys, json
import charts, leanrun
from charts import mhsm, Event
import miros.activeobject as mao

OPS = {"append": 0, "appendleft": 1, "pop": 2, "popleft": 3, "clear": 4, "len": 5}


def gen_ops(rng, cap):
    n = rng.randint(3, 4 * cap + 6) if cap <= 5 else rng.randint(3, 40)
    ops = []
    uid = 0
    bias = rng.choice(["fill", "mixed", "mixed"])
    for _ in range(n):
        r = rng.random()
        if bias == "fill" and r < 0.7:
            r = r * 0.55 / 0.7
        if r < 0.35:
            ops.append(("append", rng.randrange(3), uid)); uid += 1
        elif r < 0.55:
            ops.append(("appendleft", rng.randrange(3), uid)); uid += 1
        elif r < 0.65:
            ops.append(("pop", 0, 0))
        elif r < 0.78:
            ops.append(("popleft", 0, 0))
        elif r < 0.88:
            ops.append(("clear", 0, 0))
        else:
            ops.append(("len", 0, 0))
    return ops


def encode(cap, ops, alg=9, acks=9):
    toks = ["lds", alg, cap, acks, len(ops)]
    for o, sg, uid in ops:
        toks += [OPS[o], sg, uid]
    return " ".join(str(t) for t in toks)


def ev(e):
    return "%s.%s" % (e.signal_name[1:], e.payload)


def run_real(cap, ops):
    saved = mhsm.HsmWithQueues.QUEUE_SIZE
    mhsm.HsmWithQueues.QUEUE_SIZE = cap
    out = []
    try:
        ld = mao.LockingDeque()
        for o, sg, uid in ops:
            try:
                if o == "append":
                    r = ld.append(Event(signal="E%d" % sg, payload=uid))
                elif o == "appendleft":
                    r = ld.appendleft(Event(signal="E%d" % sg, payload=uid))
                elif o == "pop":
                    r = ev(ld.pop())
                elif o == "popleft":
                    r = ev(ld.popleft())
                elif o == "clear":
                    r = ld.clear()
                else:
                    r = len(ld)
                ret = str(r)
            except Exception as ex:
                ret = type(ex).__name__
            out.append("%s dq=%s tok=%d unf=%d" % (ret, ",".join(ev(e) for e in ld.deque), ld.locking_queue.qsize(),
                                                     ld.locking_queue.unfinished_tasks))
    finally:
        mhsm.HsmWithQueues.QUEUE_SIZE = saved
    return out


def explore(run, n_random):
    rng = run.rng
    cases = []
    for _ in range(n_random):
        cap = rng.choice([1, 2, 3, 4, 5, 500])
        cases.append((cap, gen_ops(rng, cap)))
    # the historical witnesses first
    cases.insert(0, (3, [("clear", 0, 0)]))
    cases.insert(1, (3, [("append", 0, 0), ("append", 1, 1), ("append", 2, 2), ("appendleft", 0, 3)]))
    outs = leanrun.run_driver([encode(c, o) for c, o in cases])
    for (cap, ops), mo in zip(cases, outs):
        real = run_real(cap, ops)
        model = mo.split(" | ")
        cj = {"cap": cap, "ops": [list(o) for o in ops]}
        run.traces_validated += 1
        if real != model:
            run.disagree("LockingDeque single-thread operations", cj, model, real)
        idle = True
        prev_dq = []
        for idx, ((o, sg, uid), line) in enumerate(zip(ops, real)):
            ret, rest = line.split(" ", 1)
            f = dict(kv.split("=", 1) for kv in rest.split(" "))
            dq = [x for x in f["dq"].split(",") if x]
            tok = int(f["tok"])
            sub = {"cap": cap, "ops": [list(x) for x in ops[:idx + 1]]}
            me = "%d.%d" % (sg, uid)
            if len(dq) > cap or tok > cap:
                run.violate("C16/ld-unbounded", "deque %d / tokens %d with capacity %d" % (len(dq), tok, cap), sub)
            if o == "append":
                run.count("append on %s deque" % ("full" if len(prev_dq) >= cap else "non-full"))
                if ret != "None" or not dq or dq[-1] != me:
                    run.violate("C16/ld-append", "append(%s) on %s -> %s, deque %s" % (me, prev_dq, ret, dq), sub)
            if o == "appendleft":
                run.count("appendleft on %s deque" % ("full" if len(prev_dq) >= cap else "non-full"))
                if ret != "None" or not dq or dq[0] != me:
                    run.violate("C16/ld-appendleft", "appendleft(%s) on %s -> %s, deque %s (the new event must be at the front)"
                                % (me, prev_dq, ret, dq), sub)
            if o == "clear":
                run.count("clear")
                idle = True
                if ret != "None" or dq or tok != 0:
                    run.violate("C16/ld-clear", "clear() -> %s, deque %s, tokens %d" % (ret, dq, tok), sub)
            if o in ("pop", "popleft"):
                idle = False
                if prev_dq:
                    want = prev_dq[-1] if o == "pop" else prev_dq[0]
                    if ret != want:
                        run.violate("C16/ld-pop", "%s() on %s returned %s" % (o, prev_dq, ret), sub)
            if o == "len" and ret != str(len(prev_dq)):
                run.violate("C16/ld-len", "len() on %s returned %s" % (prev_dq, ret), sub)
            if idle and tok != len(dq):
                run.violate("C16/ld-token-per-event", "idle queue holds %d events but %d tokens" % (len(dq), tok), sub)
            if tok < len(dq) and o in ("append", "appendleft"):
                run.violate("C16/ld-token-per-event", "after a post %d events but only %d tokens" % (len(dq), tok), sub)
            prev_dq = dq
        run.case(cj, nontrivial=True)


def replay(case):
    cc = case.get("case", case)
    ops = [tuple(o) for o in cc["ops"]]
    real = run_real(cc["cap"], ops)
    model = leanrun.run_driver([encode(cc["cap"], ops)])[0].split(" | ")
    for o, r, m in zip(ops, real, model):
        print(o, "\n  impl :", r, "\n  model:", m)
    return 0
