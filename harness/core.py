"""Common check driver: Lean obligations + tie + oracle → verdict, evidence, exit code.

Exit codes: 0 pass (KNOWN-FINDING lines allowed), 1 VIOLATION, 2 the check itself is broken
(time-out, my own Lean error, harness exception) — never a verdict.
"""
import os, sys, json, time, random, hashlib, traceback, importlib

HERE = os.path.dirname(os.path.abspath(__file__))
VERIF = os.path.dirname(HERE)
sys.path.insert(0, HERE)
import leanrun  # noqa: E402

TRUSTED_BASE = [
    "Lean 4.33 kernel (axioms allowed: propext, Classical.choice, Quot.sound; no native_decide/bv_decide)",
    "harness/gen_constants.py (ast translator of tables, literals and site tags)",
    "harness correspondence check (model driver vs real miros on generated cases, this run's seed)",
    "CPython semantics of deque/Queue/PriorityQueue/threading/json/re as modelled (see DESIGN §5)",
]


class Violation:
    def __init__(self, key, what, case):
        self.key = key          # finding key: call site + input class (matched against known_findings.json)
        self.what = what        # human text
        self.case = case        # JSON-able replay


class Run:
    """accumulates what one check run covered"""

    def __init__(self, prop, tier, seed):
        self.prop, self.tier, self.seed = prop, tier, seed
        self.rng = random.Random("%s-%s-%d" % (prop, tier, seed))
        self.evaluations = 0
        self.distinct = set()
        self.samples = []
        self.traces_validated = 0
        self.disagreements = []     # (stream, case, model, impl)
        self.violations = []        # Violation
        self.hist = {}
        self.notes = []
        self.exhaustive = False
        self.assumptions = []
        self.extra = {}

    def fork(self, name):
        """a fresh random stream for the streams that follow: what they generate no longer depends on how much randomness the
        streams before them consumed (which, for streams that run real threads against a changed tree, can depend on timing)"""
        self.rng = random.Random("%s-%s-%d-%s" % (self.prop, self.tier, self.seed, name))

    def count(self, key, n=1):
        self.hist[key] = self.hist.get(key, 0) + n

    def case(self, obj, nontrivial=True):
        self.evaluations += 1
        if nontrivial:
            h = hashlib.sha1(json.dumps(obj, sort_keys=True, default=str).encode()).hexdigest()
            self.distinct.add(h)
        if len(self.samples) < 3:
            self.samples.append(obj)

    def disagree(self, stream, case, model, impl):
        self.disagreements.append({"stream": stream, "case": case, "model": model, "impl": impl})

    def violate(self, key, what, case):
        self.violations.append(Violation(key, what, case))


def load_findings():
    p = os.path.join(VERIF, "known_findings.json")
    if not os.path.exists(p):
        return {"findings": [], "fixed": []}
    return json.load(open(p))


def write_evidence(run, lean, wall, nviol):
    cov = {
        "obligations": lean["obligations"],
        "discharged": lean["discharged"],
        "checker_cmd": lean["checker_cmd"],
        "trusted_base": TRUSTED_BASE,
        "theorems": lean["theorems"],
        "axioms": lean["axioms"],
        "translator": lean["translator"],
        "leanchecker": lean.get("leanchecker", "not run (thorough tier only)"),
        "lean_build_s": lean.get("build_s"),
        "evaluations": run.evaluations,
        "distinct_nontrivial": len(run.distinct),
        "rule": run.extra.get("rule", "cases are generated from one PRNG seeded by (property, tier, VERIF_SEED); "
                                       "distinct = different canonical JSON of the case; non-trivial = reaches the "
                                       "property's mechanism (see histogram)"),
        "samples": run.samples[:3] or ["(no generated case; obligations only)"],
        "traces_validated_against_impl": run.traces_validated,
        "disagreements": len(run.disagreements),
        "histogram": run.hist,
        "exhaustive": run.exhaustive,
        "notes": run.notes,
    }
    for k, v in run.extra.items():
        if k != "rule":
            cov[k] = v
    ev = {
        "property_id": run.prop, "tier": run.tier, "seed": run.seed, "level": "proof",
        "coverage": cov,
        "assumptions": run.assumptions + ["see DESIGN.md §5 (trusted base) and §12 (limits)"],
        "wall_s": round(wall, 2), "violations": nviol,
    }
    os.makedirs(os.path.join(VERIF, "evidence"), exist_ok=True)
    tmp = os.path.join(VERIF, "evidence", run.prop + ".json.tmp")
    with open(tmp, "w") as f:
        json.dump(ev, f, indent=1, default=str)
    os.replace(tmp, os.path.join(VERIF, "evidence", run.prop + ".json"))


def lean_obligations(prop, tier):
    """regenerate constants, build the property's theorems, audit axioms"""
    res = {"obligations": 0, "discharged": 0, "theorems": [], "axioms": {}, "broken": [], "my_bug": None,
           "checker_cmd": "cd lean && lake build MirosModel.Props.%s && lake env lean <#print axioms of every theorem>" % prop,
           "translator": None}
    with leanrun.Lock():
        tr = leanrun.regen_constants()
        res["translator"] = tr
        pinned = leanrun.constants_pinned()
        for f in tr.get("failures", []):
            res["broken"].append("translator extraction failed: %s (%s)" % (f["extraction"], f["error"]))
        theorems, src = leanrun.prop_theorems(prop)
        res["theorems"] = theorems
        res["obligations"] = len(theorems)
        # the driver is needed by the correspondence whatever happens to the proofs
        ok_drv, out_drv, _ = leanrun.lake_build(["MirosModel.Drive.All"])
        if not ok_drv:
            if pinned:
                res["my_bug"] = "driver does not build on pinned constants:\n" + out_drv
            else:
                res["broken"].append("model/driver no longer elaborates with the regenerated constants")
            res["driver_ok"] = False
        else:
            res["driver_ok"] = True
        ok, out, secs = leanrun.lake_build(leanrun.prop_modules(prop))
        res["build_s"] = round(secs, 1)
        if not ok:
            if pinned and not tr.get("failures"):
                res["my_bug"] = "Props.%s does not build on pinned constants:\n%s" % (prop, out)
            else:
                import re
                bad = sorted(set(re.findall(r"error: (\S+?\.lean:\d+)", out)))
                res["broken"].append("proof obligations of MirosModel.Props.%s no longer check against the "
                                     "regenerated constants (%s)" % (prop, ", ".join(bad[:5]) or "build error"))
                res["build_output"] = out[-1500:]
            return res
        hits = leanrun.grep_forbidden(leanrun.all_lean_sources())
        if hits:
            res["my_bug"] = "forbidden construct in Lean sources: " + "; ".join(hits[:5])
            return res
        ax, txt, rc = leanrun.audit(prop, theorems)
        res["axioms"] = ax
        for t, a in ax.items():
            if a is None:
                res["my_bug"] = "axiom audit produced no answer for %s:\n%s" % (t, txt[-800:])
                return res
            extra = [x for x in a if x not in leanrun.ALLOWED_AXIOMS]
            if extra:
                res["my_bug"] = "theorem %s depends on non-allowed axioms %s" % (t, extra)
                return res
        res["discharged"] = len(theorems)
        if tier == "thorough":
            okc, outc = leanrun.leanchecker(leanrun.prop_modules(prop))
            res["leanchecker"] = "ok" if okc else outc[-500:]
            if not okc:
                res["my_bug"] = "leanchecker rejected MirosModel.Props.%s: %s" % (prop, outc[-500:])
    return res


def finding_matches(f, v, prop):
    return f.get("property") == prop and f.get("key") == v.key


def main(argv):
    import argparse
    ap = argparse.ArgumentParser()
    ap.add_argument("prop")
    ap.add_argument("--tier", default=os.environ.get("VERIF_TIER", "quick"))
    ap.add_argument("--replay")
    a = ap.parse_args(argv)
    prop = a.prop
    tier = a.tier if a.tier in ("quick", "thorough") else "quick"
    seed = int(os.environ.get("VERIF_SEED", "0") or 0)
    t0 = time.time()
    try:
        mod = importlib.import_module("props." + prop)
    except Exception:
        traceback.print_exc()
        print("CHECK-BROKEN: no harness module for", prop)
        return 2
    if a.replay:
        case = json.load(open(a.replay))
        return mod.replay(case)
    run = Run(prop, tier, seed)
    try:
        lean = lean_obligations(prop, tier)
        if lean["my_bug"]:
            print("CHECK-BROKEN:", lean["my_bug"])
            return 2
        try:
            if lean.get("driver_ok"):
                mod.explore(run, lean)
            else:
                mod.explore(run, lean) if getattr(mod, "NEEDS_DRIVER", True) is False else None
        except Exception as ex:
            # a correspondence stream that cannot be carried through on this tree (the implementation no longer offers what the
            # stream drives it through, or answers with something the comparison cannot read) no longer checks: reported like a
            # disagreement (with the traceback), after whatever the streams before it found. On the unchanged tree this is a
            # defect of the harness and shows as an alarm all the same.
            tb = traceback.format_exc()
            sys.stderr.write(tb)
            run.disagreements.append({"stream": "a correspondence stream could not be carried through (%s: %s)" % (type(ex).__name__, str(ex)[:120]),
                                      "case": None, "model": None, "impl": tb[-1500:]})
    except Exception:
        traceback.print_exc()
        print("CHECK-BROKEN: harness exception")
        return 2
    kf = load_findings()
    known, fresh = [], []
    for v in run.violations:
        hit = [f for f in kf.get("findings", []) if finding_matches(f, v, prop)]
        (known if hit else fresh).append(v)
    printed = set()
    for v in known:
        if v.key not in printed:
            printed.add(v.key)
            print("KNOWN-FINDING: property=%s %s [%s]" % (prop, v.what, v.key))
    broken = list(lean["broken"])
    if run.disagreements:
        d = run.disagreements[0]
        broken.append("correspondence stream '%s' disagrees on %d case(s)" % (d["stream"], len(run.disagreements)))
    try:
        import dsched as _ds
        if _ds.Sched.stuck_seen:
            broken.append("%d scheduled run(s) ended with a thread blocked in a primitive the deterministic scheduler does not manage (a lock, queue "
                          "or wait the code under test now creates with the real threading module): %s - the replay on the model is not possible"
                          % (len(_ds.Sched.stuck_seen), _ds.Sched.stuck_seen[0]))
    except ImportError:
        pass
    rc = 0
    os.makedirs(os.path.join(VERIF, "replays"), exist_ok=True)
    if fresh:
        v = fresh[0]
        path = os.path.join("replays", "%s-%s-%d.json" % (prop, tier, seed))
        json.dump({"property": prop, "key": v.key, "what": v.what, "case": v.case,
                   "broken_obligations": broken}, open(os.path.join(VERIF, path), "w"), indent=1, default=str)
        print("VIOLATION property=%s replay=%s" % (prop, path))
        print("  " + v.what)
        rc = 1
    elif broken:
        path = os.path.join("replays", "%s-%s-%d.json" % (prop, tier, seed))
        json.dump({"property": prop, "no_failing_input_found": True, "no_longer_checks": broken,
                   "theorems": lean["theorems"], "first_disagreement": (run.disagreements or [None])[0],
                   "build_output": lean.get("build_output")},
                  open(os.path.join(VERIF, path), "w"), indent=1, default=str)
        for b in broken:
            print("  broken: " + b)
        print("VIOLATION property=%s replay=%s no-failing-input-found" % (prop, path))
        rc = 1
    write_evidence(run, lean, time.time() - t0, len(fresh))
    if rc == 0:
        print("PASS property=%s tier=%s seed=%d obligations=%d/%d cases=%d distinct=%d traces=%d wall=%.1fs" % (
            prop, tier, seed, lean["discharged"], lean["obligations"], run.evaluations, len(run.distinct),
            run.traces_validated, time.time() - t0))
    return rc


if __name__ == "__main__":
    sys.exit(main(sys.argv[1:]))
