"""Concurrency correspondence: Lean `Conc.LD` transition system ↔ real `ActiveObject` /
`LockingDeque` threads under the deterministic scheduler, primitive for primitive; plus the
implementation-side oracles for C04 / C05 / C16 (LockingDeque half)."""
import os, sys, json, random, re
import charts, leanrun, dsched
from charts import mhsm, Event, signals, return_status

import miros.activeobject as mao

VERIF = os.path.dirname(os.path.dirname(os.path.abspath(__file__)))
KINDC = {"F": 0, "L": 1}


class Scenario:
    """posters' programs, handler self-posts, capacity"""

    def __init__(self, progs, selfposts, cap, nsig=3):
        self.progs = progs              # [[(kind, sig)]], uid = 1000*i + j
        self.selfposts = selfposts      # {sig: [(kind, sig)]}
        self.cap = cap
        self.nsig = nsig

    def to_json(self):
        return {"progs": self.progs, "selfposts": {str(k): v for k, v in self.selfposts.items()}, "cap": self.cap,
                "nsig": self.nsig}

    @staticmethod
    def from_json(d):
        return Scenario([[tuple(x) for x in p] for p in d["progs"]],
                        {int(k): [tuple(x) for x in v] for k, v in d["selfposts"].items()}, d["cap"], d.get("nsig", 3))

    def encode(self, sched, alg=9, refl=0):
        toks = ["ld", alg, self.cap, refl, 99, len(self.selfposts)]
        for sg, l in sorted(self.selfposts.items()):
            toks += [sg, len(l)]
            for k, s2 in l:
                toks += [KINDC[k], s2]
        toks += [len(self.progs)]
        for i, p in enumerate(self.progs):
            toks += [len(p)]
            for j, (k, sg) in enumerate(p):
                toks += [KINDC[k], sg, 1000 * i + j]
        toks += [len(sched)] + list(sched)
        return " ".join(str(t) for t in toks)


def gen_scenario(rng, max_posters=3, max_posts=4, caps=(2, 3, 4, 500), self_rate=0.3):
    np_ = rng.randint(1, max_posters)
    nsig = 3
    progs = []
    lifo_rate = rng.choice([0.0, 0.3, 0.5])
    for i in range(np_):
        progs.append([("L" if rng.random() < lifo_rate else "F", rng.randrange(nsig)) for _ in range(rng.randint(1, max_posts))])
    selfposts = {}
    if rng.random() < self_rate:
        sg = rng.randrange(nsig)
        # handler posts must not re-trigger themselves for ever: post only larger signals
        tg = [s for s in range(nsig) if s > sg]
        if tg:
            selfposts[sg] = [(rng.choice("FL"), rng.choice(tg)) for _ in range(rng.randint(1, 2))]
    return Scenario(progs, selfposts, rng.choice(caps), nsig)


def ev_str(e):
    if e.signal_name == "STOP_ACTIVE_OBJECT_SIGNAL":
        return "99.800000"          # the model's stopSig / stopUid
    return "%s.%s" % (e.signal_name[1:], e.payload)


class RealRun:
    def __init__(self):
        self.trace = []
        self.dispatched = []
        self.overlap = False
        self.outcome = None
        self.final = {}
        self.errors = []
        self.finished = {}
        self.script_error = None


def run_real(sc, chooser, max_steps=6000, settle=None, extra=None, live=False):
    """run the scenario on the real ActiveObject under dsched; returns RealRun"""
    rr = RealRun()
    saved_cap = mhsm.HsmWithQueues.QUEUE_SIZE
    mhsm.HsmWithQueues.QUEUE_SIZE = sc.cap
    with dsched.Installed():
        sched = dsched.Sched(chooser, max_steps=max_steps)
        dsched.Sched.current = sched
        try:
            in_rtc = [0]
            selfuid = [900000]

            def s1(chart, e):
                sn = e.signal_name
                if sn.startswith("E") and sn[1:].isdigit():
                    in_rtc[0] += 1
                    if in_rtc[0] > 1:
                        rr.overlap = True
                    rr.dispatched.append(ev_str(e))
                    for k, s2 in sc.selfposts.get(int(sn[1:]), ()):
                        ne = Event(signal="E%d" % s2, payload=selfuid[0])
                        selfuid[0] += 1
                        (chart.post_fifo if k == "F" else chart.post_lifo)(ne)
                    in_rtc[0] -= 1
                    return return_status.HANDLED
                if e.signal == signals.ENTRY_SIGNAL or e.signal == signals.INIT_SIGNAL or e.signal == signals.EXIT_SIGNAL:
                    return return_status.HANDLED
                chart.temp.fun = chart.top
                return return_status.SUPER
            class SubAO(mao.ActiveObject):
                # a subclass with its own (larger) QUEUE_SIZE: the pending-event queue and its wake-up tokens take their
                # capacity from one place (HsmWithQueues.QUEUE_SIZE = sc.cap here), whatever the subclass says
                QUEUE_SIZE = sc.cap + 2
            ao = SubAO(name="C")
            if live:
                # an instrumented chart with live spy output on: the output loop at the end of every step is a place where other
                # threads run (one scheduling point per line handed to the callback)
                s1 = mhsm.spy_on(s1)
                ao.live_spy = True
                ao.register_live_spy_callback(lambda line: sched.yield_point("live.spy"))
            sched.name_obj(ao.locking_deque.deque, "dq")
            sched.name_obj(ao.locking_deque.locking_queue, "tok")
            sched.name_obj(ao.activeobject_task_event, "run")
            ao.start_at(s1)
            sched.name_obj(ao.fabric_task_event, "fab")

            def poster(i):
                for j, (k, sg) in enumerate(sc.progs[i]):
                    e = Event(signal="E%d" % sg, payload=1000 * i + j)
                    charts.plain_post(ao, k, e, 3 * i + j)
            for i in range(len(sc.progs)):
                sched.spawn(poster, (i,), name="P%d" % i)
            if extra is not None:
                extra(sched, ao)
            rr.outcome = sched.run()
            rr.script_error = getattr(sched, "script_error", None)
            rr.trace = sched.trace
            ld = ao.locking_deque
            rr.final = {"dq": [ev_str(e) for e in ld.deque.raw()], "tok": ld.locking_queue._qsize(),
                        "unf": ld.locking_queue.unfinished_tasks}
            for t in sched.threads:
                rr.finished[t.name] = t.finished
                if t.error is not None:
                    rr.errors.append("%s: %s: %s" % (t.name, type(t.error).__name__, t.error))
            rr.steps = sched.steps
        finally:
            leaked = sched.shutdown()
            mhsm.HsmWithQueues.QUEUE_SIZE = saved_cap
            if leaked:
                rr.errors.append("leaked threads: %s" % leaked)
    return rr


def tid_of(name):
    if name == "C":
        return 0
    if name.startswith("P") and name[1:].isdigit():
        return int(name[1:]) + 1
    return None


def real_label(label, result):
    """canonical label of a real primitive, in the model's vocabulary"""
    if label in ("tok.put",):
        return "tok.put=%s" % result
    if label in ("tok.qsize", "dq.len", "tok.full", "run.is_set", "fab.is_set"):
        return "%s=%s" % (label, result)
    if label in ("dq.peek", "dq.popleft"):
        return "%s=%s" % (label, ev_str(result) if hasattr(result, "signal_name") else result)
    if label == "tok.task_done":
        return "tok.task_done" if result == "ok" else "tok.task_done=%s" % result
    if label == "tok.get":
        return "tok.get"
    return label


def modelled_steps(rr, nposters):
    """[(tid, label, enabled tids)] for the modelled threads, 'begin' steps dropped"""
    out = []
    for name, label, result, enabled, _now in rr.trace:
        tid = tid_of(name)
        if tid is None or label == "begin" or label.split(".")[0] not in ("dq", "tok", "run", "fab"):
            continue        # (live output: the callback's own scheduling points and the writer's queue are not part of the model)
        en = sorted(t for t in (tid_of(n) for n in enabled) if t is not None)
        out.append((tid, real_label(label, result), en))
    return out


def compare(sc, rr, alg=9, out=None):
    """feed the real schedule to the model; returns (ok, first difference description, model_final)"""
    steps = modelled_steps(rr, len(sc.progs))
    sched = [t for t, _, _ in steps]
    if out is None:
        out = leanrun.run_driver([sc.encode(sched, alg=alg)])[0]
    body, final = out.split(" || ")
    msteps = [x for x in body.split(" | ") if x]
    for i, (tid, lbl, en) in enumerate(steps):
        if i >= len(msteps):
            return False, "model produced %d steps, implementation %d" % (len(msteps), len(steps)), final
        mt, ml, men = msteps[i].split(":", 2)
        want = "%d:%s:%s" % (tid, lbl, ",".join(str(x) for x in en))
        if msteps[i] != want:
            return False, "step %d: implementation %s, model %s" % (i, want, msteps[i]), final
    mf = dict(kv.split("=", 1) for kv in final.split(" "))
    rf = rr.final
    if mf["dq"] != ",".join(rf["dq"]) or int(mf["tok"]) != rf["tok"] or int(mf["unf"]) != rf["unf"] \
            or mf["disp"] != ",".join(rr.dispatched):
        return False, "final state: implementation dq=%s tok=%s unf=%s disp=%s, model %s" % (
            rf["dq"], rf["tok"], rf["unf"], rr.dispatched, final), final
    return True, None, final


def posted(sc):
    return ["%d.%d" % (sg, 1000 * i + j) for i, p in enumerate(sc.progs) for j, (k, sg) in enumerate(p)]


def oracle(run, focus, sc, rr, cj):
    """implementation-side checks"""
    np_ = len(sc.progs)
    all_done = all(rr.finished.get("P%d" % i) for i in range(np_))
    total_posts = sum(len(p) for p in sc.progs)
    if rr.errors:
        run.violate("%s/thread-error" % focus, "a thread died: %s" % rr.errors[:2], cj)
    if rr.overlap:
        run.violate("C04/rtc-overlap", "two run-to-completion steps overlapped", cj)
    if len(set(rr.dispatched)) != len(rr.dispatched):
        run.violate("C04/dispatched-twice", "an event was dispatched twice: %s" % rr.dispatched, cj)
    extern = [d for d in rr.dispatched if int(d.split(".")[1]) < 900000]
    if not set(extern) <= set(posted(sc)):
        run.violate("C04/phantom-event", "dispatched events %s were never posted" % (set(extern) - set(posted(sc))), cj)
    if rr.outcome == "quiescent":
        run.count("quiescent")
        if focus in ("C04", "C05", "C16"):
            if not all_done:
                run.violate("C05/post-never-returns", "quiescent (no thread enabled) but posters %s have not returned" % [
                    i for i in range(np_) if not rr.finished.get("P%d" % i)], cj)
            if rr.final["dq"] and all_done:
                run.violate(("C16/no-token-for-pending-event" if focus == "C16" else "C04/lost-wake-up"), "all posts returned, no thread can run, but %s is still in the queue with %d tokens"
                            % (rr.final["dq"], rr.final["tok"]), cj)
            if all_done and not rr.final["dq"] and total_posts <= sc.cap and sc.cap >= 50:
                missing = set(posted(sc)) - set(rr.dispatched)
                if missing:
                    run.violate("C04/event-lost", "no overflow possible (capacity %d) yet %s were never dispatched" % (sc.cap, missing), cj)
        # per-poster fifo order
        for i, p in enumerate(sc.progs):
            if all(k == "F" for k, _ in p) and sc.cap >= 50:
                mine = [d for d in rr.dispatched if int(d.split(".")[1]) // 1000 == i]
                want = ["%d.%d" % (sg, 1000 * i + j) for j, (k, sg) in enumerate(p)]
                if mine != [w for w in want if w in mine]:
                    run.violate("C04/fifo-order", "poster %d's fifo posts were dispatched as %s" % (i, mine), cj)
    elif rr.outcome == "bound":
        run.count("step bound hit")
        if focus == "C05":
            run.violate("C05/no-quiescence", "still running after %d scheduler steps under a fair suffix" % rr.steps, cj)


def fair_suffix(chooser, after):
    """use `chooser` for `after` steps, then round-robin (fair) for the rest"""
    rr_ch = dsched.round_robin_chooser()

    def choose(s, enabled, sleepers):
        if s.steps < after:
            return chooser(s, enabled, sleepers)
        return rr_ch(s, enabled, sleepers)
    return choose


def corpus(prop):
    import glob
    out = []
    for f in sorted(glob.glob(os.path.join(VERIF, "corpus", prop, "*.json"))):
        d = json.load(open(f))
        out.append((Scenario.from_json(d["scenario"]), d.get("schedule")))
    return out


def explore(run, focus, n_random, escalate=False):
    rng = run.rng
    cases = [(sc, sch) for sc, sch in corpus(focus)]
    for _ in range(n_random):
        if focus == "C16":
            sc = gen_scenario(rng, caps=(1, 2, 3), max_posters=2, max_posts=5)
        else:
            sc = gen_scenario(rng)
        cases.append((sc, None))
    done = []
    for sc, script in cases:
        seed = rng.randrange(1 << 30)
        r2 = random.Random(seed)
        if script is not None:
            base = dsched.scripted_chooser(script, then=dsched.round_robin_chooser())
            kind = "corpus"
        elif r2.random() < 0.5:
            base = dsched.pct_chooser(r2, depth=r2.randint(1, 3), est_len=60 * sum(len(p) for p in sc.progs))
            kind = "pct"
        else:
            base = dsched.random_chooser(r2)
            kind = "random"
        chooser = fair_suffix(base, 1500)
        rr = run_real(sc, chooser, max_steps=8000)
        cj = {"scenario": sc.to_json(), "chooser": kind, "seed": seed,
              "schedule": [e[0] for e in rr.trace]}
        run.count("chooser " + kind)
        run.count("posters=%d" % len(sc.progs))
        if rr.script_error:
            run.notes.append(rr.script_error)
        oracle(run, focus, sc, rr, cj)
        if any("tok.put=full" in real_label(l, r) for _, l, r, _, _n in rr.trace):
            run.count("token queue full hit")
        if any(l == "dq.rotate" for _, l, _, _, _n in rr.trace):
            run.count("overflow branch (rotate) hit")
        small = {"scenario": sc.to_json(), "chooser": kind, "seed": seed, "steps": rr.steps}
        run.case(small, nontrivial=len(sc.progs) >= 2 or bool(sc.selfposts))
        done.append((sc, rr, cj))
    # ---- tie: one driver batch ----
    lines = [sc.encode([t for t, _, _ in modelled_steps(rr, len(sc.progs))]) for sc, rr, _ in done]
    outs = leanrun.run_driver(lines)
    for (sc, rr, cj), out in zip(done, outs):
        ok, diff, final = compare(sc, rr, out=out)
        run.traces_validated += 1
        if not ok:
            run.disagree("LockingDeque/consumer primitives under the same schedule", cj, diff, None)
    if (escalate or run.disagreements) and not run.violations:
        # the tie or an obligation is broken and random schedules showed no failing input: search systematically
        bounded_preemption_search(run, focus, budget_s=240 if run.tier == "quick" else 1500)


def explore_live(run, focus, n):
    """posters racing the consumer of an INSTRUMENTED active object with live spy output on (the posts write their own spy
    lines while the consumer hands the lines of the step it finished to the live callback); the same oracles and the same
    replay on the Lean model as the plain stream"""
    rng = run.rng
    done = []
    for _ in range(n):
        sc = gen_scenario(rng, caps=(4, 500), max_posters=2, max_posts=3, self_rate=0.2)
        seed = rng.randrange(1 << 30)
        r2 = random.Random(seed)
        base = dsched.pct_chooser(r2, depth=r2.randint(1, 3), est_len=200) if r2.random() < 0.4 else dsched.random_chooser(r2)
        rr = run_real(sc, fair_suffix(base, 2500), max_steps=12000, live=True)
        cj = {"scenario": sc.to_json(), "chooser": "live", "seed": seed, "live": True, "schedule": [e[0] for e in rr.trace]}
        run.count("instrumented consumer with live spy output")
        oracle(run, focus if focus in ("C04", "C05", "C16") else "C04", sc, rr, cj)
        if focus == "C07" and rr.errors:
            run.violate("C07/thread-error", "a thread died: %s" % rr.errors[:2], cj)
        run.case(cj, nontrivial=True)
        done.append((sc, rr, cj))
    lines = [sc.encode([t for t, _, _ in modelled_steps(rr, len(sc.progs))], refl=1) for sc, rr, _ in done]
    outs = leanrun.run_driver(lines)
    for (sc, rr, cj), out in zip(done, outs):
        ok, diff, final = compare(sc, rr, out=out)
        run.traces_validated += 1
        if not ok:
            run.disagree("LockingDeque/consumer primitives under the same schedule (instrumented, live spy)", cj, diff, None)


def explore_fabric_stop(run, n):
    """C13 'stop() halts every active object at its next wake-up': posters, the consumer and a thread that calls
    ActiveFabric().stop(), all interleavings; the recorded schedule is replayed on the Lean system `Conc.LDFab` (family `ldfab`,
    step 500 = the fabric flag goes down) and an implementation-side oracle looks at every wake-up after stop() returned"""
    rng = run.rng
    done = []
    for _ in range(n):
        sc = gen_scenario(rng, caps=(3, 4, 500), max_posters=2, max_posts=3, self_rate=0.15)
        seed = rng.randrange(1 << 30)
        r2 = random.Random(seed)
        base = dsched.pct_chooser(r2, depth=r2.randint(1, 3), est_len=150) if r2.random() < 0.5 else dsched.random_chooser(r2)
        info = {}

        def extra(sched, ao):
            def stopper():
                sched.yield_point("call.fabstop")
                ao.fabric.stop()
                info["stop_at"] = len(sched.trace)
            sched.spawn(stopper, (), name="S0")
        rr = run_real(sc, fair_suffix(base, 1500), max_steps=8000, extra=extra)
        trace = rr.trace
        cj = {"what": "fabric-stop", "scenario": sc.to_json(), "seed": seed, "schedule": [e[0] for e in trace]}
        run.count("fabric stopped while posters and the consumer run")
        errs = [e for e in rr.errors if not e.startswith("leaked")]
        if errs:
            run.violate("C13/thread-error", "a thread died: %s" % errs[:2], cj)
        at = info.get("stop_at")
        if at is None:
            if rr.outcome != "bound":
                run.violate("C13/call-never-returns", "ActiveFabric().stop() did not return", cj)
        else:
            woke = None
            for i, e in enumerate(trace):
                if e[0] == "C" and e[1] == "tok.get":
                    woke = i
                if e[0] == "C" and e[1] == "dq.popleft" and woke is not None and woke >= at:
                    run.violate("C13/active-object-runs-after-fabric-stop", "the active object woke up after ActiveFabric().stop() had returned "
                                "and still ran a run-to-completion step (dispatched: %s)" % rr.dispatched[-3:], cj)
                    break
        # the schedule in the model's terms
        steps, stopped = [], False
        for name, label, result, enabled, _now in trace:
            if name == "S0":
                if label == "fab.clear":        # the primitive of ActiveFabric().stop() that lowers the flag
                    en = sorted([t for t in (tid_of(nm) for nm in enabled) if t is not None] + [500])
                    steps.append((500, "fabstop", en))
                    stopped = True
                continue
            tid = tid_of(name)
            if tid is None or label == "begin":
                continue
            if tid == 0 and label == "run.clear":
                continue        # the model lowers the run flag in the step that sees the fabric flag down (only the consumer reads it here)
            en = sorted([t for t in (tid_of(nm) for nm in enabled) if t is not None] + ([500] if (not stopped and "S0" in enabled) else []))
            steps.append((tid, real_label(label, result), en))
        run.case(cj, nontrivial=True)
        done.append((sc, rr, cj, steps))
    lines = [sc.encode([t for t, _, _ in steps]).replace("ld ", "ldfab ", 1) for sc, _, _, steps in done]
    outs = leanrun.run_driver(lines)
    for (sc, rr, cj, steps), out in zip(done, outs):
        run.traces_validated += 1
        body, final = out.split(" || ")
        msteps = [x for x in body.split(" | ") if x]
        diff = None
        for i, (tid, lbl, en) in enumerate(steps):
            want = "%d:%s:%s" % (tid, lbl, ",".join(str(x) for x in en))
            if i >= len(msteps) or msteps[i] != want:
                diff = "step %d: implementation %s, model %s" % (i, want, msteps[i] if i < len(msteps) else None)
                break
        if diff is None:
            mf = dict(kv.split("=", 1) for kv in final.split(" "))
            rf = rr.final
            if mf["dq"] != ",".join(rf["dq"]) or int(mf["tok"]) != rf["tok"] or mf["disp"] != ",".join(rr.dispatched):
                diff = "final state: implementation dq=%s tok=%s disp=%s, model %s" % (rf["dq"], rf["tok"], rr.dispatched, final)
        if diff:
            run.disagree("posters / consumer / fabric stop under the same schedule (family ldfab)", cj, diff, None)


def explore_first_use(run, focus, n):
    """oracle-only: the very first use of a fresh active object's queue by several threads at once - the consumer's first wait and
    the first posts - with every bytecode of LockingDeque a scheduling point and NOTHING of the object touched beforehand by the
    harness: every post returns, every event is handled exactly once, the system comes to rest with an empty queue"""
    import small_corr
    rng = run.rng
    for _ in range(n):
        progs = [[rng.choice("FFL") for _ in range(rng.randint(1, 2))] for _ in range(rng.randint(1, 3))]
        seed = rng.randrange(1 << 30)
        r2 = random.Random(seed)
        base = dsched.pct_chooser(r2, depth=r2.randint(1, 4), est_len=400) if r2.random() < 0.6 else dsched.random_chooser(r2)
        res = {}
        handled = []
        with dsched.Installed():
            sched = dsched.Sched(fair_suffix(base, 3000), max_steps=12000)
            dsched.Sched.current = sched
            sched.tracer = dsched.trace_opcodes(small_corr.class_codes(mao.LockingDeque))
            try:
                def s1(chart, e):
                    if e.signal_name == "E1":
                        handled.append(e.payload)
                        return return_status.HANDLED
                    if e.signal in (signals.ENTRY_SIGNAL, signals.INIT_SIGNAL, signals.EXIT_SIGNAL):
                        return return_status.HANDLED
                    chart.temp.fun = chart.top
                    return return_status.SUPER

                def starter():
                    ao = mao.ActiveObject(name="C")
                    res["ao"] = ao
                    ao.start_at(s1)
                    for i in range(len(progs)):
                        sched.spawn(poster, (ao, i), name="P%d" % i)

                def poster(ao, i):
                    for j, kd in enumerate(progs[i]):
                        e = Event(signal="E1", payload=1000 * i + j)
                        (ao.post_fifo if kd == "F" else ao.post_lifo)(e)
                sched.spawn(starter, (), name="K0")
                res["outcome"] = sched.run()
                res["finished"] = {t.name: t.finished for t in sched.threads}
                res["errors"] = ["%s: %s: %s" % (t.name, type(t.error).__name__, t.error) for t in sched.threads if t.error is not None]
                ao = res.get("ao")
                res["pending"] = len(ao.queue) if ao is not None else None
                res["schedule"] = [e[0] for e in sched.trace]
            finally:
                sched.shutdown()
        cj = {"what": "first-use", "progs": progs, "seed": seed, "schedule": res.get("schedule", [])}
        posted = sorted(1000 * i + j for i, p in enumerate(progs) for j in range(len(p)))
        run.count("first use of a fresh object's queue by %d posters and its own thread (bytecode level)" % len(progs))
        run.traces_validated += 1
        posters_done = all(v for k, v in res.get("finished", {}).items() if k.startswith("P") or k == "K0")
        if res.get("errors"):
            run.violate("%s/thread-error" % focus, "first use of the queue: %s" % res["errors"][:2], cj)
        elif res.get("outcome") == "quiescent" and not posters_done:
            run.violate("C05/post-never-returns", "first use of a fresh object's queue: a post never returned", cj)
        elif res.get("outcome") == "quiescent" and (sorted(handled) != posted or res.get("pending")):
            run.violate("%s/not-quiescent" % focus, "first use of a fresh object's queue (%s): all posts returned and no thread can run, but the "
                        "events handled are %s of %s and %s event(s) are still queued" % (progs, sorted(handled), posted, res.get("pending")), cj)
        run.case(cj, nontrivial=True)


def explore_posters_only(run, focus, n):
    """oracle-only: several threads post to an active object's queue that nobody consumes (the object is not started), at and
    around capacity: every post returns (never blocks), the queue never exceeds its capacity, one token per pending event"""
    rng = run.rng
    for _ in range(n):
        cap = rng.choice([1, 2, 2, 3, 4])
        progs = [[rng.choice("FFL") for _ in range(rng.randint(1, 4))] for _ in range(rng.randint(2, 3))]
        pre = rng.randint(0, cap)
        seed = rng.randrange(1 << 30)
        r2 = random.Random(seed)
        base = dsched.pct_chooser(r2, depth=r2.randint(1, 4), est_len=80) if r2.random() < 0.5 else dsched.random_chooser(r2)
        saved_cap = mhsm.HsmWithQueues.QUEUE_SIZE
        mhsm.HsmWithQueues.QUEUE_SIZE = cap
        res = {}
        try:
            with dsched.Installed():
                sched = dsched.Sched(base, max_steps=4000)
                dsched.Sched.current = sched
                try:
                    ld = mao.LockingDeque()
                    sched.name_obj(ld.deque, "dq")
                    sched.name_obj(ld.locking_queue, "tok")
                    for k in range(pre):
                        ld.append(Event(signal="E0", payload=5000 + k))
                    maxlen = [0]

                    def poster(i):
                        for j, kd in enumerate(progs[i]):
                            e = Event(signal="E1", payload=1000 * i + j)
                            (ld.append if kd == "F" else ld.appendleft)(e)
                            maxlen[0] = max(maxlen[0], ld.deque.raw_len())
                    for i in range(len(progs)):
                        sched.spawn(poster, (i,), name="P%d" % i)
                    res["outcome"] = sched.run()
                    res["finished"] = [t.finished for t in sched.threads]
                    res["errors"] = ["%s: %s: %s" % (t.name, type(t.error).__name__, t.error) for t in sched.threads if t.error is not None]
                    res["dq"] = ld.deque.raw_len()
                    res["tok"] = ld.locking_queue._qsize()
                    res["schedule"] = [e[0] for e in sched.trace]
                finally:
                    sched.shutdown()
        finally:
            mhsm.HsmWithQueues.QUEUE_SIZE = saved_cap
        cj = {"what": "posters-only", "cap": cap, "pre": pre, "progs": progs, "seed": seed, "schedule": res.get("schedule", [])}
        run.count("posters only, capacity %d" % cap)
        run.traces_validated += 1
        if res.get("errors"):
            run.violate("%s/thread-error" % focus, "a poster died: %s" % res["errors"][:2], cj)
        elif res.get("outcome") == "quiescent" and not all(res["finished"]):
            run.violate("C16/post-blocks" if focus == "C16" else "C05/post-never-returns", "capacity %d, %d events queued, nobody consuming: a post_fifo/"
                        "post_lifo call blocked for ever (posters finished: %s)" % (cap, pre, res["finished"]), cj)
        elif res.get("outcome") == "quiescent":
            if res["dq"] > cap or maxlen[0] > cap:
                run.violate("C16/over-capacity", "the queue held %d events, capacity %d" % (max(res["dq"], maxlen[0]), cap), cj)
            if res["tok"] < res["dq"]:
                run.violate("C16/no-token-for-pending-event", "at rest the queue holds %d events and %d wake-up tokens" % (res["dq"], res["tok"]), cj)
            elif res["tok"] > res["dq"]:
                run.count("surplus wake-up tokens at rest (racing posters; harmless: the consumer finds the queue empty)")
        run.case(cj, nontrivial=True)


def clear_after_stop_probe(run):
    """sequential (round-robin schedule): an active object is started, handed 0-2 events, stopped (its thread takes the stop
    request's wake-up token, leaves the request at the head of the queue and ends), then `queue.clear()` is called: it must
    succeed and leave the queue empty; and the same on a bare LockingDeque after waits that were acknowledged (oracle only)"""
    for k in (0, 1, 2):
        res = {}
        with dsched.Installed():
            sched = dsched.Sched(dsched.round_robin_chooser(), max_steps=4000, trace=False)
            dsched.Sched.current = sched
            try:
                def s1(chart, e):
                    if e.signal in (signals.ENTRY_SIGNAL, signals.INIT_SIGNAL, signals.EXIT_SIGNAL) or e.signal_name == "E1":
                        return return_status.HANDLED
                    chart.temp.fun = chart.top
                    return return_status.SUPER

                def client():
                    ao = mao.ActiveObject(name="C")
                    ao.start_at(s1)
                    for j in range(k):
                        ao.post_fifo(Event(signal="E1", payload=j))
                    ao.stop()
                    res["left"] = len(ao.queue)
                    try:
                        ao.queue.clear()
                        res["after"] = len(ao.queue)
                    except Exception as ex:  # noqa
                        res["error"] = "%s: %s" % (type(ex).__name__, ex)
                sched.spawn(client, (), name="K0")
                res["outcome"] = sched.run()
                res["done"] = sched.threads[0].finished
            finally:
                sched.shutdown()
        cj = {"what": "clear-after-stop", "posts": k}
        run.count("queue.clear() on a stopped active object")
        run.traces_validated += 1
        if res.get("error") or not res.get("done") or res.get("after") != 0:
            run.violate("C16/clear-raises", "start_at, %d post(s), stop(), then queue.clear() (%s event(s) left in the queue): %s"
                        % (k, res.get("left"), res.get("error") or ("clear() did not return" if not res.get("done") else "%s events remain" % res.get("after"))), cj)
        run.case(cj, nontrivial=True)


def explore_clear_race(run, n):
    """oracle-only (the concurrent Lean model has posters and the consumer only): a client thread calls queue.clear() while
    posters and the consumer run; clear() must return normally, nobody may die, the system must come to rest"""
    rng = run.rng
    for _ in range(n):
        sc = gen_scenario(rng, caps=(2, 3, 500), max_posters=2, max_posts=4, self_rate=0.0)
        nclear = rng.randint(1, 2)
        seed = rng.randrange(1 << 30)
        r2 = random.Random(seed)
        base = dsched.pct_chooser(r2, depth=r2.randint(1, 4), est_len=200) if r2.random() < 0.6 else dsched.random_chooser(r2)
        returned = []

        def extra(sched, ao):
            def clearer():
                for _ in range(nclear):
                    sched.yield_point("call.clear")
                    ao.queue.clear()
                    returned.append(1)
            sched.spawn(clearer, (), name="X0")
        rr = run_real(sc, fair_suffix(base, 1500), max_steps=8000, extra=extra)
        cj = {"what": "clear-race", "scenario": sc.to_json(), "clears": nclear, "seed": seed, "schedule": [e[0] for e in rr.trace]}
        run.count("clear() racing posters and the consumer")
        run.traces_validated += 1
        mine = [e for e in rr.errors if e.startswith("X0:")]
        if any(e.startswith("C:") for e in rr.errors):
            run.count("clear() racing the consumer killed the consumer thread (outside the properties: see DESIGN)")
        if mine:
            run.violate("C16/clear-raises", "queue.clear() racing the consumer: %s" % mine[:2], cj)
        elif len(returned) != nclear and rr.outcome != "bound":
            run.violate("C16/clear-never-returns", "queue.clear() did not return (outcome %s)" % rr.outcome, cj)
        run.case(cj, nontrivial=True)


def preemption_chooser(preempts):
    """run the current thread while it is enabled; at scheduler step k listed in `preempts` switch to the
    j-th other enabled thread instead.  Non-preemptive default: lowest thread in creation order."""
    state = {"cur": None}

    def choose(s, enabled, sleepers):
        if not enabled:
            return "clock" if sleepers else None
        names = [t.name for t in enabled]
        k = s.steps
        if k in preempts:
            others = [t for t in enabled if t.name != state["cur"]]
            if others:
                t = others[preempts[k] % len(others)]
                state["cur"] = t.name
                return t
        if state["cur"] in names:
            return enabled[names.index(state["cur"])]
        t = enabled[0]
        state["cur"] = t.name
        return t
    return choose


def bounded_preemption_search(run, focus, budget_s=240, max_preempts=2):
    """failing-input search used when the tie is broken: small scenarios, every schedule with at most
    `max_preempts` preemptions (iterative context bounding) on the real threads, checked by the oracle"""
    import time as _time, itertools as _it
    t0 = _time.time()
    # phase 1: many random / PCT (depth 2-5) schedules of three-poster scenarios (finds races that need more preemptions)
    big = [Scenario([[("F", 0), ("F", 1)], [("F", 2), ("F", 0)], [("F", 1)]], {}, 500), Scenario([[("F", 0)], [("F", 1)], [("F", 2)]], {}, 500),
           Scenario([[("F", 0), ("L", 1)], [("L", 2), ("F", 0)], [("F", 1)]], {}, 3),
           Scenario([[("F", 0), ("F", 1)], [("F", 0), ("F", 1)]], {0: [("F", 2)], 1: [("F", 2)]}, 2),
           Scenario([[("F", 0), ("F", 0), ("F", 0)], [("F", 0), ("L", 0)]], {0: [("F", 1)]}, 3)]
    rng = run.rng
    tried = 0
    while _time.time() - t0 < min(60, budget_s / 3):
        sc = big[tried % len(big)]
        seed = rng.randrange(1 << 30)
        r2 = random.Random(seed)
        ch = dsched.pct_chooser(r2, depth=r2.randint(2, 5), est_len=150) if tried % 3 else dsched.random_chooser(r2)
        rr = run_real(sc, fair_suffix(ch, 600), max_steps=3000)
        tried += 1
        cj = {"scenario": sc.to_json(), "chooser": "escalated random/pct", "seed": seed, "schedule": [e[0] for e in rr.trace]}
        before = len(run.violations)
        oracle(run, focus, sc, rr, cj)
        if len(run.violations) > before:
            run.notes.append("escalated random search found a failing schedule after %d executions" % tried)
            return tried
    run.notes.append("escalated random search: %d executions, no failing schedule" % tried)
    scenarios = [Scenario([[("F", 0)], [("F", 1)]], {}, 500), Scenario([[("F", 0), ("F", 1)], [("L", 2)]], {}, 500),
                 Scenario([[("F", 0)], [("L", 1)]], {0: [("F", 2)]}, 500), Scenario([[("F", 0), ("F", 1)], [("F", 2)]], {}, 2)]
    for sc in scenarios:
        base = run_real(sc, preemption_chooser({}), max_steps=3000)
        n = base.steps
        points = list(range(1, min(n, 70)))
        combos = [()] + [(p,) for p in points] + (list(_it.combinations(points, 2)) if max_preempts >= 2 else [])
        for combo in combos:
            for alt in ((0,) * len(combo), (1,) * len(combo)) if combo else ((),):
                if _time.time() - t0 > budget_s:
                    run.notes.append("bounded-preemption search stopped after %d executions (time budget)" % tried)
                    return tried
                pre = {p: a for p, a in zip(combo, alt)}
                rr = run_real(sc, fair_suffix(preemption_chooser(pre), 400), max_steps=3000)
                tried += 1
                cj = {"scenario": sc.to_json(), "chooser": "bounded-preemption %s" % pre, "seed": 0,
                      "schedule": [e[0] for e in rr.trace]}
                before = len(run.violations)
                oracle(run, focus, sc, rr, cj)
                if len(run.violations) > before:
                    run.notes.append("bounded-preemption search found a failing schedule after %d executions" % tried)
                    return tried
    run.notes.append("bounded-preemption search: %d executions, no failing schedule" % tried)
    return tried


def replay(case):
    cc = case.get("case", case)
    if cc.get("what") == "first-use":
        print("re-run with the recorded VERIF_SEED; posters", cc["progs"], "chooser seed", cc["seed"])
        return 0
    if cc.get("what") == "fabric-stop":
        print("re-run with the recorded VERIF_SEED; scenario", cc["scenario"], "chooser seed", cc["seed"])
        return 0
    if cc.get("what") == "clear-after-stop":
        class R:
            traces_validated = 0
            def __getattr__(self, k):
                return lambda *a, **kw: print(k, a[:2])
        clear_after_stop_probe(R())
        return 0
    if cc.get("what") == "clear-race":
        print("re-run with the recorded VERIF_SEED; scenario", cc["scenario"], "clears", cc["clears"], "chooser seed", cc["seed"])
        return 0
    sc = Scenario.from_json(cc["scenario"])
    script = cc.get("schedule")
    rr = run_real(sc, dsched.scripted_chooser(script, then=dsched.round_robin_chooser()), max_steps=8000)
    print("outcome:", rr.outcome, "dispatched:", rr.dispatched, "final:", rr.final, "posters finished:",
          {k: v for k, v in rr.finished.items() if k.startswith("P")})
    ok, diff, final = compare(sc, rr)
    print("model agrees:" if ok else "model differs:", diff or "", "| model final:", final)
    for name, label, result, en, _now in rr.trace[:400]:
        if tid_of(name) is not None and label != "begin":
            print("  %-3s %s" % (name, real_label(label, result)))
    return 0
