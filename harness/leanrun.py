"""Lean side plumbing: regenerate constants, build, audit axioms, run the driver."""
import os, sys, subprocess, json, re, fcntl, time, hashlib

HERE = os.path.dirname(os.path.abspath(__file__))
VERIF = os.path.dirname(HERE)
LEAN = os.path.join(VERIF, "lean")
REPO = os.environ.get("MIROS_REPO", "/repo")
ALLOWED_AXIOMS = {"propext", "Classical.choice", "Quot.sound"}
FORBIDDEN = r"sorry|\badmit\b|^axiom |native_decide|bv_decide|implemented_by|unsafe |maxHeartbeats 0"


class Lock:
    def __enter__(self):
        self.f = open(os.path.join(LEAN, ".build.lock"), "w")
        fcntl.flock(self.f, fcntl.LOCK_EX)
        return self

    def __exit__(self, *a):
        fcntl.flock(self.f, fcntl.LOCK_UN)
        self.f.close()


def regen_constants():
    p = subprocess.run([sys.executable, os.path.join(HERE, "gen_constants.py")], capture_output=True, text=True,
                       env=dict(os.environ, MIROS_REPO=REPO), timeout=120)
    if p.returncode != 0:
        return {"changed": False, "failures": [{"extraction": "translator", "error": p.stderr[-2000:]}], "values": {}}
    return json.loads(p.stdout.strip().splitlines()[-1])


def constants_pinned():
    """True when the generated constants equal the pinned copy (= the tree the proofs were written for)."""
    a = os.path.join(LEAN, "MirosModel", "Gen", "Constants.lean")
    b = os.path.join(LEAN, "MirosModel", "Gen", "Constants.pinned")
    try:
        return open(a).read() == open(b).read()
    except OSError:
        return False


def lake_build(targets, timeout=1500):
    t0 = time.time()
    p = subprocess.run(["lake", "build"] + list(targets), cwd=LEAN, capture_output=True, text=True, timeout=timeout)
    return p.returncode == 0, (p.stdout + p.stderr)[-6000:], time.time() - t0


def prop_theorems(prop):
    """names of all theorems declared in Props/<prop>.lean (these are the obligations)"""
    import glob
    out, srcs = [], ""
    paths = sorted(glob.glob(os.path.join(LEAN, "MirosModel", "Props", prop + "*.lean")))
    if not paths:
        raise FileNotFoundError(os.path.join(LEAN, "MirosModel", "Props", prop + ".lean"))
    for path in paths:
        src = open(path).read()
        stack = []
        for line in strip_comments(src).splitlines():
            m = re.match(r"^namespace\s+(\S+)", line)
            if m:
                stack.append(m.group(1))
                continue
            m = re.match(r"^end\s+(\S+)", line)
            if m and stack and stack[-1] == m.group(1):
                stack.pop()
                continue
            m = re.match(r"^(?:protected\s+|private\s+)?theorem\s+([^\s:({\[]+)", line)
            if m:
                out.append(".".join(stack + [m.group(1)]))
        srcs += src
    return out, srcs


def prop_modules(prop):
    import glob
    return ["MirosModel.Props." + os.path.basename(p)[:-5]
            for p in sorted(glob.glob(os.path.join(LEAN, "MirosModel", "Props", prop + "*.lean")))]


def strip_comments(src):
    src = re.sub(r"/-.*?-/", "", src, flags=re.S)
    src = re.sub(r"--.*", "", src)
    return src


def grep_forbidden(files):
    hits = []
    for f in files:
        try:
            src = strip_comments(open(f).read())
        except OSError:
            continue
        for i, line in enumerate(src.splitlines()):
            if re.search(FORBIDDEN, line):
                hits.append("%s:%d:%s" % (os.path.relpath(f, LEAN), i + 1, line.strip()[:120]))
    return hits


def all_lean_sources():
    out = []
    for root, _, fs in os.walk(os.path.join(LEAN, "MirosModel")):
        for f in fs:
            if f.endswith(".lean"):
                out.append(os.path.join(root, f))
    return sorted(out)


def audit(prop, theorems):
    """#print axioms for each theorem; returns {name: [axioms]} and raw text"""
    d = os.path.join(LEAN, ".audit")
    os.makedirs(d, exist_ok=True)
    path = os.path.join(d, prop + "_%d.lean" % os.getpid())
    with open(path, "w") as f:
        for m in prop_modules(prop):
            f.write("import %s\n" % m)
        for t in theorems:
            f.write("#print axioms %s\n" % t)
    try:
        p = subprocess.run(["lake", "env", "lean", path], cwd=LEAN, capture_output=True, text=True, timeout=600)
    finally:
        try:
            os.unlink(path)
        except OSError:
            pass
    txt = p.stdout + p.stderr
    res = {}
    for t in theorems:
        short = t
        m = re.search(r"'%s' depends on axioms: \[([^\]]*)\]" % re.escape(short), txt)
        if m:
            res[t] = [a.strip() for a in m.group(1).replace("\n", " ").split(",") if a.strip()]
        elif re.search(r"'%s' does not depend on any axioms" % re.escape(short), txt):
            res[t] = []
        else:
            res[t] = None
    return res, txt, p.returncode


def leanchecker(modules, timeout=1500):
    p = subprocess.run(["lake", "env", "leanchecker"] + list(modules), cwd=LEAN, capture_output=True, text=True,
                       timeout=timeout)
    return p.returncode == 0, (p.stdout + p.stderr)[-3000:]


def run_driver(lines, timeout=900):
    """feed lines to the Lean driver, return list of output lines (same length)"""
    if not lines:
        return []
    inp = "\n".join(lines) + "\n"
    p = subprocess.run(["lake", "env", "lean", "--run", "Driver.lean"], cwd=LEAN, input=inp, capture_output=True,
                       text=True, timeout=timeout)
    if p.returncode != 0:
        raise RuntimeError("lean driver failed: " + (p.stderr or p.stdout)[-2000:])
    out = p.stdout.split("\n")
    if out and out[-1] == "":
        out.pop()
    if len(out) != len(lines):
        raise RuntimeError("driver answered %d lines for %d inputs: %s" % (len(out), len(lines), p.stderr[-500:]))
    return out
