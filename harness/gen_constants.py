#!/usr/bin/env python3
"""Translator (DESIGN §3.1): regenerate lean/MirosModel/Gen/Constants.lean from the
current Python source of miros.  Pure `ast`; imports nothing from miros.

Every extraction is named; a failed extraction is reported in `failures` (a
broken tie, handled by the verdict logic) and the constant keeps its pinned
default so the Lean project still elaborates.
"""
import ast, os, sys, json, re

REPO = os.environ.get("MIROS_REPO", "/repo")
OUT = os.path.join(os.path.dirname(os.path.abspath(__file__)), "..", "lean", "MirosModel", "Gen", "Constants.lean")


def parse(rel):
    with open(os.path.join(REPO, rel)) as f:
        src = f.read()
    return ast.parse(src), src


def find_class(mod, name):
    for n in ast.walk(mod):
        if isinstance(n, ast.ClassDef) and n.name == name:
            return n
    raise KeyError("class " + name)


def find_func(node, name):
    for n in ast.walk(node):
        if isinstance(n, (ast.FunctionDef,)) and n.name == name:
            return n
    raise KeyError("def " + name)


def lean_str(s):
    out = '"'
    for ch in s:
        if ch == '"':
            out += '\\"'
        elif ch == '\\':
            out += '\\\\'
        elif ch == '\n':
            out += '\\n'
        else:
            out += ch
    return out + '"'


class Gen:
    def __init__(self):
        self.failures = []
        self.values = {}

    def attempt(self, name, default, fn):
        try:
            v = fn()
        except Exception as ex:  # broken tie: report, keep default
            self.failures.append({"extraction": name, "error": "%s: %s" % (type(ex).__name__, ex)})
            v = default
        self.values[name] = v
        return v


def dict_table(cls, fname="__init__"):
    """self['NAME'] = <int> assignments in order"""
    fn = find_func(cls, fname)
    out = []
    for st in fn.body:
        if isinstance(st, ast.Assign) and isinstance(st.targets[0], ast.Subscript):
            t = st.targets[0]
            if isinstance(t.value, ast.Name) and t.value.id == "self" and isinstance(st.value, ast.Constant):
                key = t.slice.value if isinstance(t.slice, ast.Constant) else None
                if isinstance(key, str) and isinstance(st.value.value, int):
                    out.append((key, st.value.value))
    if not out:
        raise ValueError("no table entries")
    return out


def class_const(cls, name):
    for st in cls.body:
        if isinstance(st, ast.Assign) and isinstance(st.targets[0], ast.Name) and st.targets[0].id == name:
            return ast.literal_eval(st.value)
    raise KeyError(name)


def count_raises(node):
    return sum(1 for n in ast.walk(node) if isinstance(n, ast.Raise))


def unparse(n):
    return ast.unparse(n)


def main():
    g = Gen()
    ev, ev_src = parse("miros/event.py")
    hsm, hsm_src = parse("miros/hsm.py")
    ao, ao_src = parse("miros/activeobject.py")
    tsa, tsa_src = parse("miros/thread_safe_attributes.py")
    sing, sing_src = parse("miros/singleton.py")

    # ---- tables -----------------------------------------------------------
    ret = g.attempt("retStatus", [("SUPER", 1)], lambda: dict_table(find_class(ev, "ReturnStatusSource")))
    sigs = g.attempt("innerSignals", [("ENTRY_SIGNAL", 1)], lambda: dict_table(find_class(ev, "SignalSource")))
    P = find_class(hsm, "HsmEventProcessor")
    g.attempt("spyCap", 500, lambda: class_const(P, "SPY_RING_BUFFER_SIZE"))
    g.attempt("trcCap", 500, lambda: class_const(P, "TRC_RING_BUFFER_SIZE"))
    g.attempt("rtcCap", 250, lambda: class_const(P, "RTC_RING_BUFFER_SIZE"))
    g.attempt("queueCap", 500, lambda: class_const(find_class(hsm, "HsmWithQueues"), "QUEUE_SIZE"))

    # ---- layer 1 tags -----------------------------------------------------
    def dispatch_fn():
        return find_func(P, "dispatch")

    def resync():
        fn = dispatch_fn()
        calls = [n for n in ast.walk(fn) if isinstance(n, ast.Assign) and "trans_(" in unparse(n.value)]
        if len(calls) != 1:
            raise ValueError("expected exactly one `ip = self.trans_(...)` in dispatch, found %d" % len(calls))
        line = calls[0].lineno
        hits = [n for n in ast.walk(fn) if isinstance(n, ast.Assign) and unparse(n.targets[0]) == "max_index"
                and n.lineno > line and unparse(n.value).replace(" ", "") == "len(tpath)-1"]
        return len(hits) >= 1
    g.attempt("cfg.resync", True, resync)

    def drill_guard():
        fn = dispatch_fn()
        for n in ast.walk(fn):
            if isinstance(n, ast.While) and "init_e" in unparse(n.test):
                k = count_raises(n)
                if k == 0:
                    return False
                if k >= 2:
                    return True
                raise ValueError("init drill-down loop has %d raise statements (expected 0 or >=2)" % k)
        raise ValueError("init drill-down loop not found in dispatch")
    g.attempt("cfg.drillGuard", True, drill_guard)

    def init_guard():
        fn = find_func(P, "init")
        k = count_raises(fn)
        if k == 1:
            return False
        if k >= 2:
            return True
        raise ValueError("init() has %d raise statements" % k)
    g.attempt("cfg.initGuard", True, init_guard)

    def super_guard():
        # the parent queries of init() and of the init drill-down in dispatch raise when the handler returns None
        fn_init = find_func(P, "init")
        fn_disp = dispatch_fn()
        def guarded_queries(fn):
            n = 0
            for node in ast.walk(fn):
                if isinstance(node, ast.If) and any(isinstance(x, ast.Raise) for x in ast.walk(node)):
                    t = unparse(node.test)
                    if t.endswith("is None") and ("super_e" in t or t.strip() == "r is None"):
                        n += 1
            return n
        a, b = guarded_queries(fn_init), 0
        for node in ast.walk(fn_disp):
            if isinstance(node, ast.While) and "init_e" in unparse(node.test):
                b = guarded_queries(node)
        if a >= 1 and b >= 2:
            return True
        if a == 0 and b == 0:
            return False
        raise ValueError("parent queries of init() / the drill-down are only partly checked (%d, %d)" % (a, b))
    g.attempt("cfg.superGuard", True, super_guard)

    def query_restores():
        hits = []
        for name in ("is_in", "child_state"):
            fn = find_func(P, name)
            h = [n for n in ast.walk(fn) if isinstance(n, ast.Assign) and unparse(n.targets[0]) == "self.state_name"
                 and unparse(n.value) == "self.state.fun.__name__"]
            hits.append(len(h) >= 1)
        if all(hits):
            return True
        if not any(hits):
            return False
        raise ValueError("is_in and child_state disagree about restoring state_name")
    g.attempt("queryRestoresName", True, query_restores)

    # ---- LockingDeque algorithm ---------------------------------------------
    def ld_alg():
        LDq = find_class(ao, "LockingDeque")
        app, appl = find_func(LDq, "append"), find_func(LDq, "appendleft")
        app_src, appl_src = unparse(app), unparse(appl)

        def loops(fn):
            return [n for n in ast.walk(fn) if isinstance(n, ast.While)]
        legacy = ("self.locking_queue.full() is False" in app_src and "self.locking_queue.put('ready')" in app_src
                  and "self.locking_queue.full() is False" in appl_src
                  and all(isinstance(w.test, ast.Compare) and isinstance(w.test.ops[0], ast.NotEq) for w in loops(app) + loops(appl))
                  and len(loops(app)) == 1 and len(loops(appl)) == 1)
        if legacy:
            return "legacy"
        try:
            sig = find_func(LDq, "__signal")
        except KeyError:
            raise ValueError("LockingDeque.append is neither the legacy nor the token-after algorithm (no __signal helper)")
        sig_src = unparse(sig)
        ws = loops(sig)
        ok = (len(ws) == 1 and isinstance(ws[0].test, ast.Compare) and isinstance(ws[0].test.ops[0], ast.Lt)
              and unparse(ws[0].test.left) == "self.locking_queue.qsize()"
              and unparse(ws[0].test.comparators[0]) == "len(self.deque)"
              and sig_src.count("put_nowait('ready')") == 2 and "self.locking_queue.put('ready')" not in sig_src
              and "except Full" in sig_src
              and isinstance(sig.body[0], ast.Try) and "put_nowait" in unparse(sig.body[0].body[0])
              and len(loops(app)) == 0 and len(loops(appl)) == 0)
        # append: if len(self.deque) < self.deque.maxlen: append else: rotate(1); append ; then __signal()
        body = [s for s in app.body if not isinstance(s, ast.Expr) or not isinstance(getattr(s, "value", None), ast.Constant)]
        ok = ok and len(body) == 2 and isinstance(body[0], ast.If) \
            and unparse(body[0].test) == "len(self.deque) < self.deque.maxlen" \
            and [unparse(x) for x in body[0].body] == ["self.deque.append(item)"] \
            and [unparse(x) for x in body[0].orelse] == ["self.deque.rotate(1)", "self.deque.append(item)"] \
            and unparse(body[1]) == "self.__signal()"
        bodyl = [unparse(x) for x in appl.body]
        ok = ok and bodyl == ["self.deque.appendleft(item)", "self.__signal()"]
        if ok:
            return "tokenAfter"
        raise ValueError("LockingDeque.append/appendleft/__signal do not match a modelled algorithm")
    g.attempt("ldAlg", "tokenAfter", ld_alg)

    def clear_acks_each():
        LDq = find_class(ao, "LockingDeque")
        fn = find_func(LDq, "clear")
        ws = [n for n in ast.walk(fn) if isinstance(n, ast.While)]
        if len(ws) != 1:
            raise ValueError("LockingDeque.clear: expected one drain loop")
        in_loop = "task_done()" in unparse(ws[0])
        handlers = [h for n in ast.walk(fn) if isinstance(n, ast.Try) for h in n.handlers]
        in_handler = any("task_done()" in unparse(h) for h in handlers)
        if in_loop and not in_handler:
            return True
        if in_handler and not in_loop:
            return False
        raise ValueError("LockingDeque.clear: unrecognised acknowledgement scheme")
    g.attempt("clearAcksEach", True, clear_acks_each)

    def ld_caps():
        LDq = find_class(ao, "LockingDeque")
        src = unparse(find_func(LDq, "__init__"))
        if "deque(maxlen=HsmWithQueues.QUEUE_SIZE)" in src and "Queue(maxsize=HsmWithQueues.QUEUE_SIZE)" in src:
            return True
        raise ValueError("LockingDeque capacities are not both HsmWithQueues.QUEUE_SIZE")
    g.attempt("ldCapsEqual", True, ld_caps)

    # ---- fabric tags ----------------------------------------------------------
    AF = find_class(ao, "ActiveFabricSource")

    def fe_order():
        fn = find_func(find_class(ao, "FabricEvent"), "__lt__")
        src = unparse(fn).replace(" ", "").replace("\n", "")
        if "return(self.priority,self.sequence_number)<(other.priority,other.sequence_number)" in src:
            init = unparse(find_func(find_class(ao, "FabricEvent"), "__init__"))
            if "self.sequence_number = next(FabricEvent.sequence)" in init:
                return "prioSeq"
            raise ValueError("FabricEvent.__lt__ uses sequence_number but __init__ does not draw it from the counter")
        if "returnself.priority<other.priority" in src:
            return "prioOnly"
        raise ValueError("unrecognised FabricEvent.__lt__")
    g.attempt("fab.feOrder", "prioSeq", fe_order)

    def lifo_deliver():
        fn = find_func(AF, "thread_runner_lifo")
        src = unparse(fn)
        if "isinstance(q, LockingDeque)" in src and "q.appendleft(lifo_item.event)" in src and "q.append(lifo_item.event)" in src:
            return "appendleftForAO"
        if "q.appendleft" not in src and "q.append(lifo_item.event)" in src:
            return "append"
        raise ValueError("unrecognised lifo delivery")
    g.attempt("fab.lifoDeliver", "appendleftForAO", lifo_deliver)

    def fifo_deliver_plain():
        src = unparse(find_func(AF, "thread_runner_fifo"))
        if "q.append(fifo_item.event)" in src and "appendleft" not in src:
            return True
        raise ValueError("unrecognised fifo delivery")
    g.attempt("fab.fifoDeliverPlain", True, fifo_deliver_plain)

    def start_keeps():
        fn = find_func(find_func(AF, "start"), "initiate_thread")
        top_returns = [s for s in fn.body if isinstance(s, ast.Return)]
        nested = [n for n in ast.walk(fn) if isinstance(n, ast.Return)]
        if len(nested) != 1:
            raise ValueError("initiate_thread: expected one return")
        return len(top_returns) == 1
    g.attempt("fab.startKeepsHandles", True, start_keeps)

    def start_checks_own():
        fn = find_func(find_func(AF, "start"), "initiate_thread")
        param = fn.args.args[0].arg
        calls = [n for n in ast.walk(fn) if isinstance(n, ast.If) for c in ast.walk(n.test)
                 if isinstance(c, ast.Call) and isinstance(c.func, ast.Attribute) and c.func.attr == "is_alive"]
        tests = [c for n in ast.walk(fn) if isinstance(n, ast.If) for c in ast.walk(n.test)
                 if isinstance(c, ast.Call) and isinstance(c.func, ast.Attribute) and c.func.attr == "is_alive"]
        if len(tests) != 1:
            raise ValueError("initiate_thread: expected one is_alive() test in its condition")
        who = unparse(tests[0].func.value)
        if who == param:
            return True
        if who == "self":
            return False
        raise ValueError("initiate_thread: is_alive() of %s" % who)
    g.attempt("fab.startChecksOwnThread", True, start_checks_own)

    def subscribe_locked():
        fn = find_func(AF, "subscribe")
        withs = [n for n in fn.body if isinstance(n, ast.With) and "subscription_lock" in unparse(n.items[0])]
        calls = [n for n in ast.walk(fn) if isinstance(n, ast.Call) and unparse(n.func) == "_subscribe"]
        if not calls:
            raise ValueError("subscribe: no call of _subscribe")
        inside = [c for w in withs for c in ast.walk(w) if isinstance(c, ast.Call) and unparse(c.func) == "_subscribe"]
        if withs and len(inside) == len(calls):
            return True
        if not inside:
            return False
        raise ValueError("subscribe: only some _subscribe calls are under the lock")
    g.attempt("fab.subscribeLocked", True, subscribe_locked)

    def subscribe_covers_append():
        """every write to / membership test on a signal's subscriber list happens inside `_subscribe` or inside the `with` block"""
        fn = find_func(AF, "subscribe")
        inner = [n for n in ast.walk(fn) if isinstance(n, ast.FunctionDef) and n.name == "_subscribe"]
        withs = [n for n in ast.walk(fn) if isinstance(n, ast.With) and "subscription_lock" in unparse(n.items[0])]
        covered = set(id(n) for w in withs for n in ast.walk(w))
        calls = [n for n in ast.walk(fn) if isinstance(n, ast.Call) and unparse(n.func) == "_subscribe"]
        if inner and calls and all(id(c) in covered for c in calls):
            # `_subscribe` only ever runs under the lock: its whole body is covered
            covered |= set(id(n) for r in inner for n in ast.walk(r))
        writes = [n for n in ast.walk(fn) if (isinstance(n, ast.Call) and isinstance(n.func, ast.Attribute) and n.func.attr in ("append", "insert", "extend"))
                  or (isinstance(n, ast.Compare) and any(isinstance(o, (ast.In, ast.NotIn)) for o in n.ops) and "queue_type" not in unparse(n))
                  or (isinstance(n, ast.Assign) and any(isinstance(t, ast.Subscript) for t in n.targets))]
        if not writes:
            raise ValueError("subscribe: no registry accesses recognised")
        if not inner:
            # everything written out in `subscribe` itself: covered = inside the with block
            covered = set(id(n) for w in withs for n in ast.walk(w))
        # `_subscribe` must itself be called only under the lock (fab.subscribeLocked) and must not release it inside
        if any("release" in unparse(n) for r in inner for n in ast.walk(r) if isinstance(n, ast.Call)):
            return False
        return all(id(n) in covered for n in writes)
    g.attempt("fab.subscribeCoversAppend", True, subscribe_covers_append)

    def clear_in_place():
        fn = [n for n in AF.body if isinstance(n, ast.FunctionDef) and n.name == "clear"][0]
        src = unparse(fn)
        replaced = "self.fifo_fabric_queue = PriorityQueue()" in src
        inplace = "self.fifo_subscriptions.clear()" in src and "self.lifo_subscriptions.clear()" in src \
            and "get_nowait()" in src and "task_done()" in src
        if inplace and not replaced:
            return True
        if replaced and not inplace:
            return False
        raise ValueError("unrecognised ActiveFabricSource.clear")
    g.attempt("fab.clearInPlace", True, clear_in_place)

    def subscribe_keeps():
        fn = find_func(find_func(AF, "subscribe"), "_subscribe")
        src = unparse(fn)
        if "registry.index(" in src:
            return False
        if "if id(queue) not in queue_ids" in src and "registry.append(queue)" in src:
            return True
        raise ValueError("unrecognised _subscribe")
    g.attempt("fab.subscribeKeepsOthers", True, subscribe_keeps)

    # ---- active object: timed sources ---------------------------------------
    AO = find_class(ao, "ActiveObject")

    def ao_method(name):
        for n in AO.body:
            if isinstance(n, ast.FunctionDef) and n.name == name:
                return n
        raise KeyError(name)

    def check_before_start():
        fn = ao_method("__post_event")
        starts = [n for n in ast.walk(fn) if isinstance(n, ast.Call) and unparse(n.func) == "thread.start"]
        if len(starts) != 1:
            raise ValueError("__post_event: expected exactly one thread.start()")
        guards = [n for n in ast.walk(fn) if isinstance(n, ast.If) and "len(self.posted_events_queue) <" in unparse(n.test)]
        if len(guards) != 1:
            raise ValueError("__post_event: capacity test not found")
        inside = any(n is starts[0] for st in guards[0].body for n in ast.walk(st))
        if inside:
            return True
        if starts[0].lineno < guards[0].lineno:
            return False
        raise ValueError("__post_event: thread.start() is neither before nor inside the capacity test")
    g.attempt("ao.checkBeforeStart", True, check_before_start)

    def cancel_eq():
        res = []
        for name, lhs in (("cancel_event", "posted_event_task_meta_data.uuid"),
                          ("cancel_events", "posted_event_task_meta_data.signal_name")):
            fn = ao_method(name)
            cmps = [n for n in ast.walk(fn) if isinstance(n, ast.Compare) and unparse(n.left) == lhs]
            if len(cmps) != 1:
                raise ValueError("%s: comparison of %s not found" % (name, lhs))
            op = cmps[0].ops[0]
            if isinstance(op, ast.Eq):
                res.append(True)
            elif isinstance(op, ast.Is):
                res.append(False)
            else:
                raise ValueError("%s: unexpected comparison operator" % name)
        if res[0] != res[1]:
            raise ValueError("cancel_event and cancel_events compare differently")
        return res[0]
    g.attempt("ao.cancelEq", True, cancel_eq)

    def cancel_locked():
        fn = ao_method("__post_event")
        runner = find_func(fn, "post_event_thread_runner")
        withs = [n for n in ast.walk(runner) if isinstance(n, ast.With) and "task_lock" in unparse(n.items[0])]
        cw = []
        for name in ("cancel_event", "cancel_events"):
            f = ao_method(name)
            w = [n for n in ast.walk(f) if isinstance(n, ast.With) and "task_lock" in unparse(n.items[0])
                 and "task_run_event.clear()" in unparse(n)]
            cw.append(len(w) == 1)
        if len(withs) == 1 and all(cw):
            body = unparse(withs[0])
            if "task_run_event.is_set()" in body and "self.post_fifo(spec.event)" in body and "self.post_lifo(spec.event)" in body:
                return True
            raise ValueError("timer runner: the lock does not cover both the flag test and the post")
        if len(withs) == 0 and not any(cw):
            return False
        raise ValueError("timer runner / cancel functions use the source lock inconsistently")
    g.attempt("ao.cancelLocked", True, cancel_locked)

    def stop_snapshot_after_join():
        fn = ao_method("stop")
        joins = [n for n in ast.walk(fn) if isinstance(n, ast.Call) and unparse(n.func) == "self.thread.join"]
        if len(joins) != 1:
            raise ValueError("stop: expected exactly one self.thread.join()")
        reads = [n for n in ast.walk(fn) if isinstance(n, ast.Attribute) and n.attr == "posted_events_queue"]
        if len(reads) != 1:
            raise ValueError("stop: expected exactly one read of posted_events_queue")
        cancels = [n for n in ast.walk(fn) if isinstance(n, ast.Call) and unparse(n.func) in ("self.cancel_events", "self.cancel_event")]
        if len(cancels) != 1 or cancels[0].lineno < joins[0].lineno:
            raise ValueError("stop: the cancel loop is not after the join")
        return reads[0].lineno > joins[0].lineno
    g.attempt("ao.stopSnapshotAfterJoin", True, stop_snapshot_after_join)

    def tracked_cap_is_test_cap():
        # every creation of posted_events_queue bounds it by the very expression the capacity test compares its length with
        cls = find_class(ao, "ActiveObject")
        makes = [n for n in ast.walk(cls) if isinstance(n, ast.Assign) and any(unparse(t) == "self.posted_events_queue" for t in n.targets)]
        if not makes:
            raise ValueError("no creation of posted_events_queue found")
        bounds = set()
        for m in makes:
            v = m.value
            if not (isinstance(v, ast.Call) and unparse(v.func) == "deque"):
                raise ValueError("posted_events_queue is not created as a deque")
            kw = [k for k in v.keywords if k.arg == "maxlen"]
            if len(kw) != 1:
                raise ValueError("posted_events_queue: no maxlen")
            bounds.add(unparse(kw[0].value))
        tests = [n for n in ast.walk(cls) if isinstance(n, ast.Compare) and "len(self.posted_events_queue)" == unparse(n.left)
                 and len(n.ops) == 1 and isinstance(n.ops[0], ast.Lt)]
        if len(tests) != 1:
            raise ValueError("expected exactly one `len(self.posted_events_queue) < capacity` test")
        return bounds == {unparse(tests[0].comparators[0])}
    g.attempt("ao.trackedCapIsTestCap", True, tracked_cap_is_test_cap)

    def tracking_locked():
        # every rewrite of posted_events_queue (append / pop / rotate ...), the capacity test and stop()'s snapshot happen under
        # `with self.posted_events_lock:`
        cls = find_class(ao, "ActiveObject")
        parent = {}
        for n in ast.walk(cls):
            for ch in ast.iter_child_nodes(n):
                parent[ch] = n

        def under_lock(n):
            while n in parent:
                n = parent[n]
                if isinstance(n, ast.With) and any(unparse(it.context_expr) == "self.posted_events_lock" for it in n.items):
                    return True
            return False
        sites = [n for n in ast.walk(cls) if isinstance(n, ast.Call) and isinstance(n.func, ast.Attribute)
                 and unparse(n.func.value) == "self.posted_events_queue"
                 and n.func.attr in ("append", "appendleft", "pop", "popleft", "rotate", "remove", "clear", "insert", "extend")]
        sites += [n for n in ast.walk(cls) if isinstance(n, ast.Compare) and unparse(n.left) == "len(self.posted_events_queue)"]
        sites += [n for n in ast.walk(cls) if isinstance(n, (ast.ListComp, ast.For)) and
                  "self.posted_events_queue" in unparse(n.generators[0].iter if isinstance(n, ast.ListComp) else n.iter)
                  and not unparse(n.generators[0].iter if isinstance(n, ast.ListComp) else n.iter).startswith("reversed(range(")]
        if len(sites) < 4:
            raise ValueError("fewer uses of posted_events_queue than expected (%d)" % len(sites))
        flags = [under_lock(n) for n in sites]
        loops = [n for n in ast.walk(cls) if isinstance(n, ast.For) and "len(self.posted_events_queue)" in unparse(n.iter)]
        flags += [under_lock(n) for n in loops]
        if all(flags):
            return True
        if not any(flags):
            return False
        raise ValueError("posted_events_queue is used partly under posted_events_lock, partly outside it")
    g.attempt("ao.trackingLocked", True, tracking_locked)

    def stop_clears_flag_first():
        fn = ao_method("stop")
        clears = [s for s in fn.body if isinstance(s, ast.Expr) and unparse(s.value) == "self.activeobject_task_event.clear()"]
        appends = [n for n in ast.walk(fn) if isinstance(n, ast.Call) and unparse(n.func) in ("self.queue.append", "self.queue.appendleft")]
        if len(appends) != 1:
            raise ValueError("stop: expected exactly one append of the STOP event to self.queue")
        if "STOP_ACTIVE_OBJECT_SIGNAL" not in unparse(appends[0]):
            raise ValueError("stop: the appended event is not the STOP event")
        return len(clears) >= 1 and clears[0].lineno < appends[0].lineno
    g.attempt("ao.stopClearsFlagFirst", True, stop_clears_flag_first)

    def stop_own_join_guarded():
        fn = ao_method("stop")
        for s in fn.body:
            if isinstance(s, ast.Try) and any(unparse(n.func) == "self.thread.join" for n in ast.walk(s)
                                               if isinstance(n, ast.Call)):
                in_body = any(unparse(n.func) == "self.thread.join" for b in s.body for n in ast.walk(b) if isinstance(n, ast.Call))
                catches = any(h.type is None or unparse(h.type) in ("RuntimeError", "Exception", "BaseException") or
                              (isinstance(h.type, ast.Tuple) and any(unparse(x) == "RuntimeError" for x in h.type.elts))
                              for h in s.handlers)
                reraises = any(isinstance(n, ast.Raise) for h in s.handlers for n in ast.walk(h))
                cancel_inside = any(unparse(n.func) in ("self.cancel_events", "self.cancel_event")
                                    for b in s.body for n in ast.walk(b) if isinstance(n, ast.Call))
                if cancel_inside:
                    raise ValueError("stop: the cancel loop is inside the try block of the join")
                return in_body and catches and not reraises
        return False
    g.attempt("ao.stopOwnJoinGuarded", True, stop_own_join_guarded)

    # ---- active object: publish / subscribe wrappers ---------------------------
    def wrapper_always_calls():
        res = []
        for outer, inner in (("append_subscribe_to_spy", "_append_subscribe_to_spy"),
                             ("append_publish_to_spy", "_append_publish_to_spy")):
            fn = find_func(ao_method(outer), inner)
            top = [s for s in fn.body if isinstance(s, ast.Return) and "fn(" in unparse(s)]
            nested = [n for n in ast.walk(fn) if isinstance(n, ast.Return) and "fn(" in unparse(n)]
            if len(nested) != 1:
                raise ValueError("%s: expected exactly one `return fn(...)`" % inner)
            res.append(len(top) == 1)
        if res[0] != res[1]:
            raise ValueError("subscribe and publish wrappers differ")
        return res[0]
    g.attempt("ps.wrapperAlwaysCalls", True, wrapper_always_calls)

    def subscribed_asks_own():
        fab = [n for n in AF.body if isinstance(n, ast.FunctionDef) and n.name == "subscribed"][0]
        own = [n for n in AO.body if isinstance(n, ast.FunctionDef) and n.name == "subscribed"][0]
        has_param = "queue" in [a.arg for a in fab.args.args]
        passes = "self.fabric.subscribed(event_or_signal, queue_type, self.queue)" in unparse(own)
        uses = "id(queue) in" in unparse(fab)
        if has_param and passes and uses:
            return True
        if not has_param and not passes:
            return False
        raise ValueError("unrecognised subscribed() protocol")
    g.attempt("ps.subscribedAsksOwnQueue", True, subscribed_asks_own)

    def subscribe_when_running():
        fn = [n for n in AO.body if isinstance(n, ast.FunctionDef) and n.name == "subscribe"][0]
        src = unparse(fn)
        if "if not self.subscribed(event_or_signal, queue_type):" in src and "self._subscribe(event_or_signal, queue_type)" in src \
                and "SUBSCRIBE_META_SIGNAL" in src and "self.post_lifo(" in src:
            return True
        raise ValueError("unrecognised ActiveObject.subscribe")
    g.attempt("ps.subscribeShape", True, subscribe_when_running)

    # ---- instrumentation ------------------------------------------------------
    HQ = find_class(hsm, "HsmWithQueues")

    def live_trace_by_id():
        fn = find_func(find_func(HQ, "print_trace_after_rtc_if_live"), "_print_trace_if_live")
        src = unparse(fn)
        if "tr is not getattr(self, 'last_live_trace_record', None)" in src and "self.last_live_trace_record = tr" in src:
            return True
        if "tr.datetime != self.last_live_trace_datetime" in src:
            return False
        raise ValueError("unrecognised live-trace novelty test")
    g.attempt("liveTraceById", True, live_trace_by_id)

    def spy_on_shape():
        fn = find_func(find_func(hsm, "spy_on"), "_spy_on")
        src = unparse(fn)
        need = ["chart.rtc.spy.append('{}:{}'.format(e.signal_name, name))", "status = fn(chart, e)",
                "chart.rtc.spy.append('{}:{}:HOOK'.format(e.signal_name, name))", "status is return_status.HANDLED",
                "signals.is_inner_signal(e.signal_name) is not True", "chart.rtc.tuples.append(sr)"]
        missing = [n for n in need if n not in src]
        if missing:
            raise ValueError("spy_on wrapper changed: missing %s" % missing[:2])
        # order: line, call, hook
        if not (src.index(need[0]) < src.rindex(need[1]) < src.index(need[2])):
            raise ValueError("spy_on wrapper: order of spy line / handler call / HOOK line changed")
        return True
    g.attempt("spyOnShape", True, spy_on_shape)

    # ---- singleton / registry / thread-safe attributes ---------------------------
    def singleton_locked():
        fn = find_func(find_class(sing, "SingletonDecorator"), "__call__")
        src = unparse(fn)
        withs = [n for n in ast.walk(fn) if isinstance(n, ast.With)]
        tests = src.count("if self.instance is None")
        if len(withs) == 1 and "self._lock" in unparse(withs[0].items[0]) and tests == 2 \
                and "self.instance = self.klass(*args, **kwargs)" in unparse(withs[0]):
            return True
        if len(withs) == 0 and tests == 1:
            return False
        raise ValueError("unrecognised SingletonDecorator.__call__")
    g.attempt("singletonLocked", True, singleton_locked)

    def singleton_publishes_early():
        """is `self.instance` ever assigned something other than the finished `self.klass(...)` call (an object whose
        initialiser has not run yet, a roll-back to None)?"""
        fn = find_func(find_class(sing, "SingletonDecorator"), "__call__")
        stores = []
        for n in ast.walk(fn):
            targets = n.targets if isinstance(n, ast.Assign) else [n.target] if isinstance(n, (ast.AugAssign, ast.AnnAssign)) else []
            for t in targets:
                for t1 in ast.walk(t):
                    if isinstance(t1, ast.Attribute) and t1.attr == "instance":
                        stores.append(unparse(n.value) if getattr(n, "value", None) is not None else "?")
            if isinstance(n, ast.Call) and unparse(n.func) in ("setattr", "object.__setattr__") and "instance" in unparse(n):
                stores.append("setattr")
        if stores == ["self.klass(*args, **kwargs)"]:
            return False
        if len(stores) >= 2 and any(x != "self.klass(*args, **kwargs)" for x in stores) and "__init__" in unparse(fn):
            return True
        raise ValueError("unrecognised stores to SingletonDecorator.instance: %s" % stores)
    g.attempt("singletonPublishesEarly", False, singleton_publishes_early)

    def registry_locked():
        res = []
        for cname in ("OrderedDictWithParams", "SignalSource"):
            fn = [n for n in find_class(ev, cname).body if isinstance(n, ast.FunctionDef) and n.name == "append"][0]
            withs = [n for n in ast.walk(fn) if isinstance(n, ast.With) and "_registry_lock" in unparse(n.items[0])]
            res.append(len(withs) == 1 and "self[string] = len(self) + 1" in unparse(withs[0]) if withs else False)
        init = find_func(find_class(ev, "Event"), "__init__")
        w = [n for n in ast.walk(init) if isinstance(n, ast.With) and "_registry_lock" in unparse(n.items[0])]
        res.append(len(w) == 1 and "signals.append(signal)" in unparse(w[0]) and "signals.items()" in unparse(w[0]) if w else False)
        if all(res):
            return True
        if not any(res):
            return False
        raise ValueError("the registry lock is used inconsistently")
    g.attempt("registryLocked", True, registry_locked)

    TSA = find_class(tsa, "ThreadSafeAttribute")

    def tsa_flag_per_thread():
        src = unparse(TSA)
        if "self._thread = local()" in src and "return getattr(self._thread, 'is_atomic', True)" in src \
                and "self._thread.is_atomic = value" in src:
            return True
        if "self._is_atomic = True" in unparse(find_func(TSA, "__init__")) and "_thread" not in src:
            return False
        raise ValueError("unrecognised _is_atomic storage")
    g.attempt("tsaFlagPerThread", True, tsa_flag_per_thread)

    def tsa_per_instance():
        sset = unparse(find_func(TSA, "__set__"))
        sget = unparse(find_func(TSA, "__get__"))
        if "instance.__dict__[self._key] = value" in sset and "self._read(instance)" in sget:
            return True
        if "self._value = value" in sset and "return self._value" in sget:
            return False
        raise ValueError("unrecognised value storage of ThreadSafeAttribute")
    g.attempt("tsaPerInstance", True, tsa_per_instance)

    def tsa_protocol():
        sget = unparse(find_func(TSA, "__get__"))
        sset = unparse(find_func(TSA, "__set__"))
        need_get = ["self._lock.acquire(blocking=True)", "self._is_atomic = True", "if self.is_not_atomic(previous_line):",
                    "self._is_atomic = False", "self._lock.release()"]
        need_set = ["if self._is_atomic:", "self._lock.acquire(blocking=True)", "self._is_atomic = True", "self._lock.release()"]
        miss = [x for x in need_get if x not in sget] + [x for x in need_set if x not in sset]
        if miss:
            raise ValueError("ThreadSafeAttribute protocol changed: missing %s" % miss[:2])
        return True
    g.attempt("tsaProtocol", True, tsa_protocol)

    def regex_literal(fname):
        fn = find_func(TSA, fname)
        for n in ast.walk(fn):
            if isinstance(n, ast.Call) and unparse(n.func) == "re.search" and isinstance(n.args[0], ast.Constant):
                return n.args[0].value
        raise ValueError("regex literal not found in " + fname)
    g.attempt("notAtomicPattern", r"([+-/*@^&|<>%]=)|([/<>*]{2}=)", lambda: regex_literal("is_not_atomic"))
    g.attempt("lockRequestPattern", r"_, _lock[ ]+=", lambda: regex_literal("request_for_lock"))

    def strip_pattern():
        fn = find_func(find_func(hsm, "stripped"), "item_without_timestamp")
        for n in ast.walk(fn):
            if isinstance(n, ast.Call) and unparse(n.func) == "re.match" and isinstance(n.args[0], ast.Constant):
                return n.args[0].value
        raise ValueError("timestamp regex not found")
    g.attempt("stripPattern", r"[ ]{0,}\[[0-9-:. ]+\] (.+)$", strip_pattern)

    def single_line_stripped():
        fn = find_func(hsm, "stripped")
        src = unparse(fn)
        need = ["targets = log.splitlines()", "if len(targets) > 1:", "target_item = target_item.strip()",
                "if len(target_item) != 0:"]
        miss = [x for x in need if x not in src]
        if miss:
            raise ValueError("stripped() changed: missing %s" % miss[:2])
        if "target = log.strip()" in src:
            return True
        if "target = log\n" in src + "\n":
            return False
        raise ValueError("unrecognised single-line branch of stripped()")
    g.attempt("singleLineStripped", True, single_line_stripped)

    def live_spy_reads_callback_each_line():
        """print_spy_after_rtc_if_live: inside the loop over the step's lines the callback is looked up on the chart object"""
        fn = [n for n in ast.walk(find_class(hsm, "HsmWithQueues")) if isinstance(n, ast.FunctionDef) and n.name == "print_spy_after_rtc_if_live"]
        if not fn:
            fn = [n for n in ast.walk(hsm) if isinstance(n, ast.FunctionDef) and n.name == "print_spy_after_rtc_if_live"]
        loops = [n for n in ast.walk(fn[0]) if isinstance(n, (ast.For, ast.While))]
        if len(loops) != 1:
            raise ValueError("print_spy_after_rtc_if_live: expected one loop, found %d" % len(loops))
        calls = [n for n in ast.walk(loops[0]) if isinstance(n, ast.Call)]
        direct = [c for c in calls if unparse(c.func) == "self.live_spy_callback"]
        if direct:
            return True
        if "live_spy_callback" in unparse(fn[0]):
            return False
        raise ValueError("print_spy_after_rtc_if_live: no use of live_spy_callback")
    g.attempt("liveSpyReadsCallbackEachLine", True, live_spy_reads_callback_each_line)

    def singleton_nested_skips_lock():
        """SingletonDecorator.__call__: every construction happens under the decorator's lock after a second check, whoever asks"""
        fn = find_func(find_class(sing, "SingletonDecorator"), "__call__")
        builds = [n for n in ast.walk(fn) if isinstance(n, ast.Call) and "klass" in unparse(n.func)]
        withs = [n for n in ast.walk(fn) if isinstance(n, ast.With) and "_lock" in unparse(n.items[0])]
        inside = set(id(n) for w in withs for n in ast.walk(w))
        if not builds:
            raise ValueError("SingletonDecorator.__call__: no construction found")
        return not all(id(b) in inside for b in builds)
    g.attempt("singletonNestedSkipsLock", False, singleton_nested_skips_lock)

    def recall_pops_first():
        """HsmWithQueues.recall: is the deferred event taken out of the defer queue BEFORE it is posted (a post may run the chart,
        whose handler may recall again)?"""
        fn = find_func(find_class(hsm, "HsmWithQueues"), "recall")
        pops = [n for n in ast.walk(fn) if isinstance(n, ast.Call) and isinstance(n.func, ast.Attribute) and n.func.attr in ("popleft", "pop")
                and "defer_queue" in unparse(n.func)]
        posts = [n for n in ast.walk(fn) if isinstance(n, ast.Call) and isinstance(n.func, ast.Attribute) and n.func.attr in ("post_fifo", "post_lifo", "append")
                 and "defer_queue" not in unparse(n.func)]
        if len(pops) != 1 or len(posts) != 1:
            raise ValueError("recall(): expected one pop of the defer queue and one post, found %d and %d" % (len(pops), len(posts)))
        before = (pops[0].lineno, pops[0].col_offset) < (posts[0].lineno, posts[0].col_offset)
        peeks = "defer_queue[0]" in unparse(fn)
        if before and not peeks:
            return True
        if not before:
            return False
        raise ValueError("recall(): pops first but also peeks at defer_queue[0]")
    g.attempt("recallPopsFirst", True, recall_pops_first)

    # ---- emit -------------------------------------------------------------
    v = g.values
    def b(x):
        return "true" if x else "false"
    def table(t):
        return "[" + ", ".join("(%s, %d)" % (lean_str(k), n) for k, n in t) + "]"
    lines = []
    lines.append("/- GENERATED by harness/gen_constants.py from the current miros source. Do not edit. -/")
    lines.append("import MirosModel.Hsm.Model")
    lines.append("import MirosModel.Conc.LockingDeque")
    lines.append("import MirosModel.Conc.Fabric")
    lines.append("import MirosModel.Conc.AO")
    lines.append("import MirosModel.Conc.PubSub")
    lines.append("namespace Miros.Gen")
    lines.append("def retStatus : List (String × Nat) := " + table(v["retStatus"]))
    lines.append("def signalTable : List (String × Nat) := " + table(v["innerSignals"]))
    for k in ("spyCap", "trcCap", "rtcCap", "queueCap"):
        lines.append("def %s : Nat := %d" % (k, v[k]))
    lines.append("def cfg : Miros.Hsm.Cfg := { resync := %s, drillGuard := %s, initGuard := %s, superGuard := %s }" % (
        b(v["cfg.resync"]), b(v["cfg.drillGuard"]), b(v["cfg.initGuard"]), b(v["cfg.superGuard"])))
    lines.append("def queryRestoresName : Bool := " + b(v["queryRestoresName"]))
    lines.append("def ldAlg : Miros.Conc.LD.Alg := .%s" % v["ldAlg"])
    lines.append("def ldCapsEqual : Bool := " + b(v["ldCapsEqual"]))
    lines.append("def clearAcksEach : Bool := " + b(v["clearAcksEach"]))
    lines.append("def fabTags : Miros.Conc.Fab.Tags := { feOrder := .%s, lifoDeliver := .%s, startKeepsHandles := %s, "
                 "clearInPlace := %s, subscribeKeepsOthers := %s }" % (
                     v["fab.feOrder"], v["fab.lifoDeliver"], b(v["fab.startKeepsHandles"]), b(v["fab.clearInPlace"]),
                     b(v["fab.subscribeKeepsOthers"])))
    lines.append("def fifoDeliverPlain : Bool := " + b(v["fab.fifoDeliverPlain"]))
    lines.append("def fabSubscribeCoversAppend : Bool := " + b(v["fab.subscribeCoversAppend"]))
    for k in ("recallPopsFirst", "liveSpyReadsCallbackEachLine", "singletonNestedSkipsLock", "singletonLocked", "singletonPublishesEarly", "registryLocked", "tsaFlagPerThread", "tsaPerInstance", "tsaProtocol", "singleLineStripped"):
        lines.append("def %s : Bool := %s" % (k, b(v[k])))
    for k in ("notAtomicPattern", "lockRequestPattern", "stripPattern"):
        lines.append("def %s : String := %s" % (k, lean_str(v[k])))
    lines.append("def liveTraceById : Bool := " + b(v["liveTraceById"]))
    lines.append("def spyOnShape : Bool := " + b(v["spyOnShape"]))
    lines.append("def psTags : Miros.Conc.PS.Tags := { wrapperAlwaysCalls := %s, subscribedAsksOwnQueue := %s }" % (
        b(v["ps.wrapperAlwaysCalls"]), b(v["ps.subscribedAsksOwnQueue"])))
    lines.append("def aoTags : Miros.Conc.AO.Tags := { checkBeforeStart := %s, cancelEq := %s, cancelLocked := %s }" % (
        b(v["ao.checkBeforeStart"]), b(v["ao.cancelEq"]), b(v["ao.cancelLocked"])))
    lines.append("def fabStartChecksOwnThread : Bool := " + b(v["fab.startChecksOwnThread"]))
    lines.append("def aoStopSnapshotAfterJoin : Bool := " + b(v["ao.stopSnapshotAfterJoin"]))
    lines.append("def aoTrackedCapIsTestCap : Bool := " + b(v["ao.trackedCapIsTestCap"]))
    lines.append("def aoTrackingLocked : Bool := " + b(v["ao.trackingLocked"]))
    lines.append("def aoStopClearsFlagFirst : Bool := " + b(v["ao.stopClearsFlagFirst"]))
    lines.append("def aoStopOwnJoinGuarded : Bool := " + b(v["ao.stopOwnJoinGuarded"]))
    lines.append("def fabSubscribeLocked : Bool := " + b(v["fab.subscribeLocked"]))
    lines.append("end Miros.Gen")
    text = "\n".join(lines) + "\n"
    os.makedirs(os.path.dirname(OUT), exist_ok=True)
    old = None
    if os.path.exists(OUT):
        with open(OUT) as f:
            old = f.read()
    changed = old != text
    if changed:
        with open(OUT, "w") as f:
            f.write(text)
    json.dump({"changed": changed, "failures": g.failures, "values": {k: v[k] for k in v if not isinstance(v[k], list)}},
              sys.stdout)
    print()


if __name__ == "__main__":
    main()
