"""Fabric correspondence: Lean `Conc.Fab` ↔ real `ActiveFabricSource` under dsched (one step per
Queue primitive / join / API call), plus implementation-side oracles for C06, C08, C09, C13."""
import os, sys, json, random, collections
import leanrun, dsched, charts
from charts import Event
import miros.activeobject as mao

NSIG = 3
CALLC = {"subscribe": 0, "publish": 1, "start": 2, "stop": 3, "clear": 4, "is_alive": 5}


def yield_filter(label):
    return label.startswith(("fq.", "lq.", "call.", "thread.join")) or label == "begin"


class FabScenario:
    def __init__(self, subs, progs):
        self.subs = subs        # [(id, isAO)]
        self.progs = progs      # [[(call, a, b, c)]]

    names = None        # optional: the real signal names used for the scenario's signal indices (default S0, S1, ...)

    def name(self, b):
        return self.names[b] if self.names else "S%d" % b

    def index(self, signal_name):
        if self.names and signal_name in self.names:
            return str(self.names.index(signal_name))
        return signal_name[1:]

    def to_json(self):
        d = {"subs": self.subs, "progs": self.progs}
        if self.names:
            d["names"] = self.names
        return d

    @staticmethod
    def from_json(d):
        sc = FabScenario([tuple(x) for x in d["subs"]], [[tuple(c) for c in p] for p in d["progs"]])
        sc.names = d.get("names")
        return sc

    def encode(self, sched, tags=9):
        toks = ["fab", tags, len(self.subs)]
        for i, ao in self.subs:
            toks += [i, int(ao)]
        toks += [len(self.progs)]
        for p in self.progs:
            toks += [len(p)]
            for call, a, b, c in p:
                toks += [CALLC[call], a, b, c]
        toks += [len(sched)] + list(sched)
        return " ".join(str(t) for t in toks)


def gen_chaotic(rng, nclients=None):
    nq = rng.randint(1, 4)
    subs = [(i, rng.random() < 0.4) for i in range(nq)]
    nclients = nclients or rng.choice([1, 1, 2])
    uid = [0]
    progs = []
    for k in range(nclients):
        p = []
        for _ in range(rng.randint(3, 12)):
            r = rng.random()
            if k > 0 and 0.62 <= r < 0.92:
                # start / stop / clear are issued by one thread only (C13 quantifies over call sequences)
                r = rng.random() * 0.62
            if r < 0.3:
                p.append(("subscribe", rng.randrange(nq), rng.randrange(NSIG), rng.randrange(2)))
            elif r < 0.62:
                p.append(("publish", rng.randrange(NSIG), uid[0], rng.choice([1000, 1000, 1000, 5, 1])))
                uid[0] += 1
            elif r < 0.76:
                p.append(("start", 0, 0, 0))
            elif r < 0.86:
                p.append(("stop", 0, 0, 0))
            elif r < 0.92:
                p.append(("clear", 0, 0, 0))
            else:
                p.append(("is_alive", 0, 0, 0))
        progs.append(p)
    return FabScenario(subs, progs)


def gen_structured(rng):
    """subscribe*, publish* (fabric not running: maximal lag), start, [quiesce], stop, start, publish*"""
    nq = rng.randint(2, 4)
    subs = [(i, rng.random() < 0.5) for i in range(nq)]
    p = []
    for _ in range(rng.randint(2, 8)):
        p.append(("subscribe", rng.randrange(nq), rng.randrange(NSIG), rng.randrange(2)))
    if rng.random() < 0.5:
        p.append(("start", 0, 0, 0))
    uid = 0
    for _ in range(rng.randint(3, 9)):
        p.append(("publish", rng.randrange(NSIG), uid, rng.choice([1000, 1000, 5, 5, 1])))
        uid += 1
    p.append(("start", 0, 0, 0))
    p.append(("is_alive", 0, 0, 0))
    if rng.random() < 0.5:
        p.append(("start", 0, 0, 0))
        p.append(("is_alive", 0, 0, 0))
    return FabScenario(subs, [p])


RESERVED_NAMES = ["STOP_FABRIC_SIGNAL", "STOP_ACTIVE_OBJECT_SIGNAL", "SUBSCRIBE_META_SIGNAL", "PUBLISH_META_SIGNAL", "ENTRY_SIGNAL",
                  "EXIT_SIGNAL", "INIT_SIGNAL", "REFLECTION_SIGNAL", "EMPTY_SIGNAL", "SEARCH_FOR_SUPER_SIGNAL"]


def gen_reserved(rng):
    """subscribe*, start, publish* where the signals are names the library itself uses internally (a signal is a signal: the
    fabric delivers by name); no stop / clear, so none of the fabric's own wake-up items is in flight"""
    nq = rng.randint(2, 4)
    subs = [(i, rng.random() < 0.5) for i in range(nq)]
    p = []
    for _ in range(rng.randint(3, 8)):
        p.append(("subscribe", rng.randrange(nq), rng.randrange(NSIG), rng.randrange(2)))
    p.append(("start", 0, 0, 0))
    for uid in range(rng.randint(3, 8)):
        p.append(("publish", rng.randrange(NSIG), uid, rng.choice([1000, 1000, 5, 1])))
    sc = FabScenario(subs, [p])
    sc.names = rng.sample(RESERVED_NAMES, NSIG)
    return sc


class FabRun:
    pass


def run_real(sc, chooser, max_steps=4000):
    fr = FabRun()
    fr.errors = []
    fr.max_live = {"fifo": 0, "lifo": 0}
    with dsched.Installed():
        sched = dsched.Sched(chooser, max_steps=max_steps, yield_filter=yield_filter)
        dsched.Sched.current = sched
        try:
            if hasattr(mao.FabricEvent, "sequence"):
                import itertools
                mao.FabricEvent.sequence = itertools.count()
            af = mao.ActiveFabric()
            sched.name_obj(af.fifo_fabric_queue, "fq")
            sched.name_obj(af.lifo_fabric_queue, "lq")
            queues = {}
            for i, is_ao in sc.subs:
                queues[i] = mao.LockingDeque() if is_ao else collections.deque(maxlen=200)
            alive_results = []

            def client(k):
                for call, a, b, c in sc.progs[k]:
                    sched.yield_point("call." + call)
                    if call == "subscribe":
                        # by event or by signal number; fifo also through the default
                        what = Event(signal=sc.name(b)) if (a + b) % 3 else Event(signal=sc.name(b)).signal
                        form = charts.STRING_FORMS[(a + 2 * b + k) % len(charts.STRING_FORMS)]      # the kind as a literal or an equal string
                        if c:
                            af.subscribe(queues[a], what, queue_type=charts.string_as("lifo", form))
                        elif (a + b) % 2:
                            af.subscribe(queues[a], what, queue_type=charts.string_as("fifo", form))
                        else:
                            af.subscribe(queues[a], what)
                    elif call == "publish":
                        if c == 1000 and b % 2:
                            af.publish(Event(signal=sc.name(a), payload=b))          # default priority
                        else:
                            af.publish(Event(signal=sc.name(a), payload=b), priority=c)
                    elif call == "start":
                        af.start()
                    elif call == "stop":
                        af.stop()
                    elif call == "clear":
                        af.clear()
                    else:
                        r = af.is_alive()
                        alive_results.append((k, r))
                        sched.trace[-1][2] = r
            for k in range(len(sc.progs)):
                sched.spawn(client, (k,), name="K%d" % k)

            def monitor(s, st):
                for kind in ("fifo", "lifo"):
                    n = sum(1 for t in s.threads if t.name.startswith(kind + " active fabric") and not t.finished)
                    fr.max_live[kind] = max(fr.max_live[kind], n)
            sched.monitors.append(monitor)
            fr.outcome = sched.run()
            fr.trace = sched.trace
            fr.steps = sched.steps
            fr.finished = {t.name: t.finished for t in sched.threads}
            for t in sched.threads:
                if t.error is not None:
                    fr.errors.append("%s: %s: %s" % (t.name, type(t.error).__name__, t.error))
            ev = lambda e: "%s.%s" % (sc.index(e.signal_name), e.payload)
            fr.subs = {i: [ev(e) for e in (q.deque.raw() if hasattr(q, "locking_queue") else list(q))] for i, q in queues.items()}
            reg = lambda d: ";".join("%s>%s" % (sc.index(k), ",".join(str(next(i for i, q in queues.items() if q is x)) for x in v))
                                      for k, v in d.items())
            fr.regF, fr.regL = reg(af.fifo_subscriptions), reg(af.lifo_subscriptions)
            fr.live = {kind: sum(1 for t in sched.threads if t.name.startswith(kind + " active fabric") and not t.finished)
                       for kind in ("fifo", "lifo")}
            fr.fq, fr.lq = af.fifo_fabric_queue._qsize(), af.lifo_fabric_queue._qsize()
            fr.flag = int(af.fabric_task_event._flag)
            fr.heap_bad = [k for k, pq in (("fifo", af.fifo_fabric_queue), ("lifo", af.lifo_fabric_queue))
                           if isinstance(getattr(pq, "queue", None), list) and not is_heap(list(pq.queue))]
            fr.alive = [r for _, r in sorted(alive_results, key=lambda x: x[0])]
            fr.handles_alive = [af.fifo_thread is not None and af.fifo_thread._st is not None and not af.fifo_thread._st.finished,
                                af.lifo_thread is not None and af.lifo_thread._st is not None and not af.lifo_thread._st.finished]
        finally:
            leaked = sched.shutdown()
            if leaked:
                fr.errors.append("leaked: %s" % leaked)
    return fr


def tid_of(name):
    if name.startswith("fifo active fabric"):
        return 0
    if name.startswith("lifo active fabric"):
        return 1
    if name.startswith("K") and name[1:].isdigit():
        return 2 + int(name[1:])
    return None


def real_label(tid, label, result):
    if tid in (0, 1):
        if label == "begin":
            return "begin"
        op = label.split(".", 1)[1]
        if op == "get":
            return "get=%s.%s" % (result.priority, result.sequence_number) if hasattr(result, "priority") else "get=%s" % result
        if op == "task_done":
            return "task_done" if result == "ok" else "task_done=%s" % result
        return op
    if label == "call.is_alive":
        return "call.is_alive=%s" % ("true" if result else "false")
    if label.endswith(".put"):
        return label
    if label.endswith(".get"):
        return "%s=%s" % (label, "ok" if hasattr(result, "priority") or result == "ok" else result)
    if label.endswith(".task_done"):
        return label if result == "ok" else "%s=%s" % (label, result)
    return label


def modelled_steps(fr):
    out = []
    # subscribe() takes the fabric's subscription_lock before it touches the registry: that acquisition is the call's
    # linearisation point (the `call.subscribe` scheduling point before it changes nothing)
    locked = any(label == "DLock.acquire" for _n, label, _r, _e, _t in fr.trace)
    for name, label, result, enabled, _now in fr.trace:
        tid = tid_of(name)
        if tid is None:
            continue
        if label == "begin" and tid >= 2:
            continue
        if locked and tid >= 2:
            if label == "call.subscribe":
                continue
            if label == "DLock.acquire":
                label = "call.subscribe"
        en = sorted(set(t for t in (tid_of(n) for n in enabled) if t is not None))
        out.append((tid, real_label(tid, label, result), en))
    return out


def compare(sc, fr, out):
    steps = modelled_steps(fr)
    body, final = out.split(" || ")
    msteps = [x for x in body.split(" | ") if x]
    for i, (tid, lbl, en) in enumerate(steps):
        if i >= len(msteps):
            return False, "model produced %d steps, implementation %d" % (len(msteps), len(steps))
        want = "%d:%s:%s" % (tid, lbl, ",".join(str(x) for x in en))
        if msteps[i] != want:
            return False, "step %d: implementation %s, model %s" % (i, want, msteps[i])
    mf = dict(kv.split("=", 1) for kv in final.split(" "))
    subs = ";".join("%d>%s" % (i, ",".join(fr.subs[i])) for i, _ in sc.subs)
    real = {"regF": fr.regF, "regL": fr.regL, "subs": subs, "liveF": str(fr.live["fifo"]), "liveL": str(fr.live["lifo"]),
            "fq": str(fr.fq), "lq": str(fr.lq), "flag": str(fr.flag), "alive": ",".join("1" if r else "0" for r in fr.alive)}
    for k, v in real.items():
        if mf.get(k) != v:
            return False, "final %s: implementation %r, model %r" % (k, v, mf.get(k))
    return True, None


def client_sched_prefix(sc):
    return None


def oracle(run, focus, sc, fr, cj, structured):
    if fr.errors:
        run.violate("%s/thread-error" % focus, "a thread died: %s" % fr.errors[:2], cj)
    # C13: at most one delivery thread per kind, at any time
    for kind in ("fifo", "lifo"):
        if fr.max_live[kind] > 1:
            run.violate("C13/more-than-one-%s-thread" % kind, "%d live %s delivery threads at the same time" % (fr.max_live[kind], kind), cj)
    if getattr(fr, "heap_bad", None):
        # C08_heap_reachable: whatever was put and got, the array under the fabric's PriorityQueue satisfies the heap condition
        run.violate("C08/heap-layout", "the array under the %s fabric queue is not a heap any more (a later get may not return the least "
                    "(priority, creation number))" % fr.heap_bad, cj)
    if fr.outcome == "quiescent":
        k_done = all(v for n, v in fr.finished.items() if n.startswith("K"))
        if not k_done:
            run.violate("C13/call-never-returns", "a fabric API call never returned (no thread enabled): %s" % [
                n for n, v in fr.finished.items() if n.startswith("K") and not v], cj)
    # every subscriber queue: no event more than once per kind, only subscribed signals
    subscribed = collections.defaultdict(set)   # queue -> signals ever subscribed (any kind)
    kinds = collections.defaultdict(set)
    for p in sc.progs:
        for call, a, b, c in p:
            if call == "subscribe":
                subscribed[a].add(b)
                kinds[(a, b)].add(c)
    for qid, items in fr.subs.items():
        cnt = collections.Counter(items)
        for it, n in cnt.items():
            sig = int(it.split(".")[0])
            if sig not in subscribed[qid]:
                run.violate("C06/delivered-to-non-subscriber", "queue %d received %s but never subscribed to S%d" % (qid, it, sig), cj)
            elif n > len(kinds[(qid, sig)]):
                run.violate("C06/delivered-twice", "queue %d received %s %d times (subscription kinds: %d)" % (qid, it, n, len(kinds[(qid, sig)])), cj)
    if structured and fr.outcome == "quiescent" and not fr.errors:
        oracle_structured(run, focus, sc, fr, cj)


def oracle_structured(run, focus, sc, fr, cj):
    """one client: subscribe*, [start], publish*, start …: everything published must have arrived, once per kind,
    ordered by (priority, publish order) for the part that was queued before the first start"""
    p = sc.progs[0]
    first_start = next(i for i, c in enumerate(p) if c[0] == "start")
    pubs = [(i, c) for i, c in enumerate(p) if c[0] == "publish"]
    regs = collections.defaultdict(list)      # (qid) -> [(sig, kind)] unique
    for c in p:
        if c[0] == "subscribe" and (c[2], c[3]) not in regs[c[1]]:
            regs[c[1]].append((c[2], c[3]))
    is_ao = dict(sc.subs)
    lagged = [c for i, c in pubs if i < first_start]
    for qid, _ in sc.subs:
        got = fr.subs[qid]
        want_cnt = collections.Counter()
        for _, c in pubs:
            for sig, kind in regs[qid]:
                if sig == c[1]:
                    want_cnt["%d.%d" % (c[1], c[2])] += 1
        if collections.Counter(got) != want_cnt:
            run.violate("C06/delivery-count", "queue %d received %s, expected (as a multiset) %s" % (qid, got, dict(want_cnt)), cj)
            continue
        # C08: events queued before the fabric started, for a queue with a single subscription kind
        ks = set(k for _, k in regs[qid])
        if len(lagged) >= 2 and len(ks) == 1 and first_start == len([c for c in p[:first_start] if c[0] in ("subscribe", "publish")]):
            kind = next(iter(ks))
            mine = [c for c in lagged if any(sig == c[1] for sig, _ in regs[qid])]
            order = sorted(range(len(mine)), key=lambda j: (mine[j][3], j))
            want = ["%d.%d" % (mine[j][1], mine[j][2]) for j in order]
            if kind == 1 and is_ao[qid]:
                want = list(reversed(want))      # each delivery goes to the front
                got_part = got[-len(want):] if want else []
                # later publications (after start) were also put at the front: the lagged ones are the last len(want)
            else:
                got_part = got[:len(want)]
            run.count("C08 order check (%d queued events)" % len(want))
            if got_part != want:
                key = "C09/lifo-placement" if (kind == 1 and is_ao[qid]) else "C08/order"
                run.violate(key, "queue %d (%s, %s subscription) holds %s; the %d events queued before start() should appear as %s"
                            % (qid, "active object" if is_ao[qid] else "deque", "lifo" if kind else "fifo", got, len(want), want), cj)


def gen_restart(rng):
    """one client: subscribe*, [publish* backlog], start, publish*, [stop, publish*, start, publish*], is_alive — the fabric is
    stopped while deliveries may be in progress and started again; publications before, between and after"""
    nq = rng.randint(1, 3)
    subs = [(i, rng.random() < 0.4) for i in range(nq)]
    p = []
    for _ in range(rng.randint(1, 5)):
        p.append(("subscribe", rng.randrange(nq), rng.randrange(2), rng.randrange(2)))
    uid = [0]

    def pubs(lo, hi):
        for _ in range(rng.randint(lo, hi)):
            p.append(("publish", rng.randrange(2), uid[0], rng.choice([1000, 1000, 1000, 5, 1])))
            uid[0] += 1
    pubs(0, 3)
    p.append(("start", 0, 0, 0))
    pubs(1, 4)
    if rng.random() < 0.7:
        p.append(("stop", 0, 0, 0))
        pubs(0, 2)
        p.append(("start", 0, 0, 0))
        pubs(1, 3)
    p.append(("is_alive", 0, 0, 0))
    return FabScenario(subs, [p])


def oracle_restart(run, focus, sc, fr, cj):
    """what a restart scenario must show at rest: both delivery threads alive, every publication delivered exactly once per
    subscription, publications of equal priority in publication order (per queue)"""
    if fr.outcome != "quiescent" or fr.errors or not all(v for n, v in fr.finished.items() if n.startswith("K")):
        return
    p = sc.progs[0]
    if fr.live["fifo"] != 1 or fr.live["lifo"] != 1 or (fr.alive and fr.alive[-1] is not True):
        run.violate("C13/not-alive-after-restart", "after start() (following %s) and at rest: live delivery threads fifo=%d lifo=%d, "
                    "is_alive()=%s" % ("a stop()" if any(c[0] == "stop" for c in p) else "publications", fr.live["fifo"], fr.live["lifo"],
                                       fr.alive[-1] if fr.alive else None), cj)
        return
    regs = collections.defaultdict(list)
    for c in p:
        if c[0] == "subscribe" and (c[2], c[3]) not in regs[c[1]]:
            regs[c[1]].append((c[2], c[3]))
    pubs = [c for c in p if c[0] == "publish"]
    is_ao = dict(sc.subs)
    for qid, _ in sc.subs:
        got = fr.subs[qid]
        want_cnt = collections.Counter()
        for c in pubs:
            for sig, kind in regs[qid]:
                if sig == c[1]:
                    want_cnt["%d.%d" % (c[1], c[2])] += 1
        if collections.Counter(got) != want_cnt:
            run.violate("C06/delivery-count", "queue %d received %s, expected (as a multiset) %s: a publication made around stop()/start() "
                        "was lost or duplicated" % (qid, got, dict(want_cnt)), cj)
            continue
        ks = set(k for _, k in regs[qid])
        if len(ks) == 1 and not (1 in ks and is_ao[qid]):
            prio = {"%d.%d" % (c[1], c[2]): c[3] for c in pubs}
            order = {"%d.%d" % (c[1], c[2]): i for i, c in enumerate(pubs)}
            for pr in set(prio.values()):
                seq = [order[g] for g in got if prio[g] == pr]
                if seq != sorted(seq):
                    run.violate("C08/order-equal-priority", "queue %d received %s: publications of priority %d are not in publication order"
                                % (qid, got, pr), cj)
                    break
    run.count("restart scenario checked at rest")


def explore(run, focus, n_random):
    rng = run.rng
    done = []
    for n in range(n_random):
        structured = (n % 2 == 0) if focus in ("C06", "C08", "C09") else (n % 4 == 0)
        restart = n % 5 == 4
        sc = gen_restart(rng) if restart else (gen_structured(rng) if structured else gen_chaotic(rng))
        if restart:
            structured = False
        if n % 10 == 7:
            sc, structured, restart = gen_reserved(rng), True, False
            run.count("signals that the library also uses internally: " + ",".join(sorted(sc.names)))
        seed = rng.randrange(1 << 30)
        r2 = random.Random(seed)
        if r2.random() < 0.5:
            base, kind = dsched.pct_chooser(r2, depth=r2.randint(1, 3), est_len=80), "pct"
        else:
            base, kind = dsched.random_chooser(r2), "random"
        fr = run_real(sc, base)
        cj = {"scenario": sc.to_json(), "chooser": kind, "seed": seed, "schedule": [e[0] for e in fr.trace]}
        run.count("restart" if restart else ("structured" if structured else "chaotic"))
        run.count("outcome " + str(fr.outcome))
        oracle(run, focus, sc, fr, cj, structured)
        if restart:
            oracle_restart(run, focus, sc, fr, cj)
        run.case({"scenario": sc.to_json(), "chooser": kind, "seed": seed, "steps": fr.steps},
                 nontrivial=sum(len(p) for p in sc.progs) >= 4)
        done.append((sc, fr, cj))
    lines = [sc.encode([t for t, _, _ in modelled_steps(fr)]) for sc, fr, _ in done]
    outs = leanrun.run_driver(lines)
    for (sc, fr, cj), out in zip(done, outs):
        ok, diff = compare(sc, fr, out)
        run.traces_validated += 1
        if not ok:
            run.disagree("fabric primitives and API calls under the same schedule", cj, diff, None)


class Poison:
    """a subscriber 'queue' whose append raises once: kills the delivery thread that serves it"""

    def __init__(self):
        self.hits = 0

    def append(self, e):
        self.hits += 1
        if self.hits == 1:
            raise RuntimeError("poisoned subscriber")


def _settle(sched):
    """wait until every other thread is finished or blocked"""
    me = sched.me()
    sched.yield_point("call.settle", enabled=lambda: all(t is me or t.finished or not sched.is_enabled(t) for t in sched.threads))


FAULT_OPC = {"start": 0, "stop": 1, "die fifo": 2, "die lifo": 3, "is_alive": 4}


def gen_fault_ops(rng):
    """a call sequence in which a delivery thread is only killed while it is alive (so no poisoned item is left queued)"""
    ops, alive = [], {"fifo": False, "lifo": False}
    for _ in range(rng.randint(3, 9)):
        r = rng.random()
        killable = [k for k in ("fifo", "lifo") if alive[k]]
        if r < 0.3 or not ops:
            ops.append("start"); alive = {"fifo": True, "lifo": True}
        elif r < 0.6 and killable:
            k = rng.choice(killable); ops.append("die " + k); alive[k] = False
        elif r < 0.75:
            ops.append("stop"); alive = {"fifo": False, "lifo": False}
        else:
            ops.append("is_alive")
    if "die fifo" not in ops and "die lifo" not in ops:
        ops += ["start", "die " + rng.choice(["fifo", "lifo"]), "start"]
    ops += ["is_alive", "stop", "is_alive"]
    return ops


def run_fault(ops, chooser):
    res = {"errors": [], "max_live": {"fifo": 0, "lifo": 0}, "results": [], "done": 0, "good": []}
    with dsched.Installed():
        sched = dsched.Sched(chooser, max_steps=4000, yield_filter=yield_filter)
        dsched.Sched.current = sched
        try:
            af = mao.ActiveFabric()
            sched.name_obj(af.fifo_fabric_queue, "fq")
            sched.name_obj(af.lifo_fabric_queue, "lq")
            good = collections.deque(maxlen=200)
            af.subscribe(good, Event(signal="GOOD"), queue_type="fifo")
            expected_good = []

            def client():
                nsig = 0
                for op in ops:
                    sched.yield_point("call." + op.split()[0])
                    if op == "start":
                        af.start()
                    elif op == "stop":
                        af.stop()
                    elif op == "is_alive":
                        _settle(sched)
                        really = all(any(t.name.startswith(kd + " active fabric") and not t.finished for t in sched.threads) for kd in ("fifo", "lifo"))
                        res["results"].append(bool(af.is_alive()))
                        res.setdefault("really", []).append(really)
                    else:
                        nsig += 1
                        af.subscribe(Poison(), Event(signal="P%d" % nsig), queue_type=op.split()[1])
                        af.publish(Event(signal="P%d" % nsig, payload=0))
                        _settle(sched)
                    if op != "stop":
                        # a publication made now must arrive iff the fifo thread is alive
                        fifo_alive = any(t.name.startswith("fifo active fabric") and not t.finished for t in sched.threads)
                        if fifo_alive and op != "is_alive":
                            af.publish(Event(signal="GOOD", payload=res["done"]))
                            expected_good.append(res["done"])
                            _settle(sched)
                    res["done"] += 1
            sched.spawn(client, (), name="K0")

            def monitor(s_, st):
                for kd in ("fifo", "lifo"):
                    nlive = sum(1 for t in s_.threads if t.name.startswith(kd + " active fabric") and not t.finished)
                    res["max_live"][kd] = max(res["max_live"][kd], nlive)
            sched.monitors.append(monitor)
            res["outcome"] = sched.run()
            res["live"] = {kd: sum(1 for t in sched.threads if t.name.startswith(kd + " active fabric") and not t.finished)
                           for kd in ("fifo", "lifo")}
            res["handles"] = [int(h is not None and h._st is not None and not h._st.finished) for h in (af.fifo_thread, af.lifo_thread)]
            res["flag"] = int(af.fabric_task_event._flag)
            res["good"] = [e.payload for e in good]
            res["expected_good"] = expected_good
            for t in sched.threads:
                if t.error is not None and "poisoned subscriber" not in str(t.error):
                    res["errors"].append("%s: %s: %s" % (t.name, type(t.error).__name__, t.error))
            res["schedule"] = [e[0] for e in sched.trace]
        finally:
            sched.shutdown()
    return res


def run_subscribing_subscriber(spec, chooser):
    """a subscribed queue object whose append() subscribes another queue (a discovery subscriber: when it hears an announcement it
    subscribes a sink to what was announced) - a subscribe() issued from inside a delivery"""
    res = {"errors": [], "steps": []}
    with dsched.Installed():
        sched = dsched.Sched(chooser, max_steps=4000, yield_filter=yield_filter)
        dsched.Sched.current = sched
        try:
            af = mao.ActiveFabric()
            sched.name_obj(af.fifo_fabric_queue, "fq")
            sched.name_obj(af.lifo_fabric_queue, "lq")
            sink = collections.deque(maxlen=50)
            heard = []

            class Discovery:
                def append(self, e):
                    heard.append(e.payload)
                    af.subscribe(sink, Event(signal="TOPIC%d" % e.payload), queue_type=spec["sink_kind"])

            def client():
                if spec["start_first"]:
                    af.start()
                af.subscribe(Discovery(), Event(signal="ANNOUNCE"), queue_type=spec["disc_kind"])
                if not spec["start_first"]:
                    af.start()
                for k in range(spec["announcements"]):
                    af.publish(Event(signal="ANNOUNCE", payload=k))
                _settle(sched)
                res["steps"].append("announced")
                for k in range(spec["announcements"]):
                    af.publish(Event(signal="TOPIC%d" % k, payload=100 + k))
                _settle(sched)
                res["steps"].append("published")
                af.stop()
                res["steps"].append("stopped")
                res["alive_after_stop"] = bool(af.is_alive())
                if spec["restart"]:
                    af.start()
                    af.publish(Event(signal="TOPIC0", payload=200))
                    _settle(sched)
                    af.stop()
                    res["steps"].append("restarted")
            sched.spawn(client, (), name="K0")
            res["outcome"] = sched.run()
            res["client_done"] = sched.threads[0].finished
            res["live"] = [t.name for t in sched.threads[1:] if not t.finished]
            res["heard"] = list(heard)
            res["sink"] = sorted(e.payload for e in sink)
            for t in sched.threads:
                if t.error is not None:
                    res["errors"].append("%s: %s: %s" % (t.name, type(t.error).__name__, t.error))
            res["schedule"] = [e[0] for e in sched.trace]
        finally:
            sched.shutdown()
    return res


def explore_subscribing_subscriber(run, focus, n):
    """C13 / C06 with a subscriber whose append() itself subscribes (oracle only): the delivery threads keep running, the nested
    subscriptions are served, stop() returns and ends both threads, a later start() resumes delivery"""
    rng = run.rng
    for _ in range(n):
        spec = {"disc_kind": rng.choice(["fifo", "lifo"]), "sink_kind": rng.choice(["fifo", "lifo"]), "start_first": rng.random() < 0.5,
                "announcements": rng.randint(1, 3), "restart": rng.random() < 0.5}
        seed = rng.randrange(1 << 30)
        res = run_subscribing_subscriber(spec, dsched.random_chooser(random.Random(seed)))
        cj = {"what": "subscribing-subscriber", "spec": spec, "seed": seed, "schedule": res.get("schedule", [])}
        run.count("a subscriber whose append() subscribes another queue (subscribe from inside a delivery)")
        run.traces_validated += 1
        want_sink = [100 + k for k in range(spec["announcements"])] + ([200] if spec["restart"] else [])
        if res["errors"]:
            run.violate("%s/thread-error" % focus, "a subscriber that subscribes from its append(): %s" % res["errors"][:2], cj)
        elif not res.get("client_done"):
            run.violate("%s/call-never-returns" % focus, "a subscriber that subscribes from its append(): the client got as far as %s, then a call "
                        "never returned (threads still alive: %s)" % (res["steps"], res["live"]), cj)
        elif res["live"] or res.get("alive_after_stop"):
            run.violate("C13/threads-alive-after-stop", "after stop(): threads %s alive, is_alive() = %s" % (res["live"], res.get("alive_after_stop")), cj)
        elif res["sink"] != want_sink:
            run.violate("%s/nested-subscription-not-served" % focus, "the subscriptions made from inside a delivery received %s, expected %s"
                        % (res["sink"], want_sink), cj)
        run.case(cj, nontrivial=True)


def explore_faults(run, focus, n):
    """fault stream: delivery threads are killed by a subscriber that raises; random sequences of start / stop / is_alive /
    kill; tied to the Lean call-level model `Conc.FabFault` (family `fabfault`) and checked by implementation-side oracles"""
    rng = run.rng
    done = []
    for _ in range(n):
        ops = gen_fault_ops(rng)
        seed = rng.randrange(1 << 30)
        res = run_fault(ops, dsched.random_chooser(random.Random(seed)))
        cj = {"what": "fabric-fault", "ops": ops, "seed": seed, "schedule": res.get("schedule", [])}
        run.count("fault stream: %d kills" % sum(1 for o in ops if o.startswith("die")))
        for kd in ("fifo", "lifo"):
            if res["max_live"][kd] > 1:
                run.violate("C13/more-than-one-%s-thread" % kd, "call sequence %s: %d %s delivery threads were alive at the same time"
                            % (ops, res["max_live"][kd], kd), cj)
        if res["errors"]:
            run.violate("C13/thread-error", "a thread died: %s" % res["errors"][:2], cj)
        for k, (said, really) in enumerate(zip(res["results"], res.get("really", []))):
            if said != really:
                run.violate("C13/is_alive-wrong", "call sequence %s: is_alive() number %d answered %s while a fifo and a lifo delivery thread "
                            "were %s" % (ops, k, said, "both running" if really else "not both running"), cj)
                break
        if res["done"] < len(ops):
            run.violate("C13/call-never-returns", "call %d (%s) of %s did not return" % (res["done"], ops[res["done"]], ops), cj)
        else:
            if res["live"]["fifo"] or res["live"]["lifo"]:
                run.violate("C13/thread-survives-stop", "delivery threads still alive after the final stop(): %s" % res["live"], cj)
            if res["good"] != res["expected_good"]:
                run.violate("C13/delivery-after-restart", "subscriber received %s, expected %s (one publication after each call that left "
                            "the fifo thread alive)" % (res["good"], res["expected_good"]), cj)
        run.case(cj, nontrivial=True)
        done.append((ops, res, cj))
    lines = ["fabfault 9 %d %s" % (len(ops), " ".join(str(FAULT_OPC[o]) for o in ops)) for ops, _, _ in done]
    outs = leanrun.run_driver(lines)
    for (ops, res, cj), out in zip(done, outs):
        run.traces_validated += 1
        if res["done"] < len(ops):
            continue
        real = "live=F%dL%d handles=%d%d flag=%d stuck=0 results=%s" % (
            res["live"]["fifo"], res["live"]["lifo"], res["handles"][0], res["handles"][1], res["flag"],
            "".join(str(int(x)) for x in res["results"]))
        if out.strip() != real:
            run.disagree("fabric start/stop/is_alive with dying delivery threads (call level)", cj, "model: %s\nreal:  %s" % (out.strip(), real), None)


def gen_fine_spec(rng):
    nq = rng.randint(2, 4)
    return {"nq": nq, "kind": rng.choice(["fifo", "lifo"]), "npub": rng.randint(1, 3),
            # queue nq is a NEW queue (a first-time subscribe landing in a delivery loop)
            "resub": [rng.randrange(nq + 1) if rng.random() < 0.3 else rng.randrange(nq) for _ in range(rng.randint(1, 4))]}


def run_fine(spec, chooser):
    nq, kind = spec["nq"], spec["kind"]
    res = {"errors": []}
    with dsched.Installed():
        sched = dsched.Sched(chooser, max_steps=3000, yield_filter=lambda l: yield_filter(l) or l.startswith("sq"))
        dsched.Sched.current = sched
        try:
            if hasattr(mao.FabricEvent, "sequence"):
                import itertools
                mao.FabricEvent.sequence = itertools.count()
            af = mao.ActiveFabric()
            sched.name_obj(af.fifo_fabric_queue, "fq")
            sched.name_obj(af.lifo_fabric_queue, "lq")
            qs = []
            for i in range(nq + 1):
                q = dsched.DDeque(maxlen=50)
                sched.name_obj(q, "sq%d" % i)
                qs.append(q)

            def setup_and_publish():
                sched.yield_point("call.setup")
                for q in qs[:nq]:
                    af.subscribe(q, Event(signal="S0"), queue_type=kind)
                af.start()
                for k in range(spec["npub"]):
                    sched.yield_point("call.publish")
                    af.publish(Event(signal="S0", payload=k))

            def resubscriber():
                for qi in spec["resub"]:
                    sched.yield_point("call.subscribe")
                    af.subscribe(qs[qi], Event(signal="S0"), queue_type=kind)
            sched.spawn(setup_and_publish, (), name="K0")
            sched.spawn(resubscriber, (), name="K1")
            res["outcome"] = sched.run()
            res["got"] = [[e.payload for e in q.raw()] for q in qs]
            reg = (af.fifo_subscriptions if kind == "fifo" else af.lifo_subscriptions).get("S0", [])
            reg = list(reg.values()) if isinstance(reg, dict) else list(reg)
            res["reg"] = [next(i for i, q in enumerate(qs) if q is x) for x in reg]
            for t in sched.threads:
                if t.error is not None:
                    res["errors"].append("%s: %s: %s" % (t.name, type(t.error).__name__, t.error))
            res["trace"] = [(e[0], e[1]) for e in sched.trace]
        finally:
            sched.shutdown()
    # the schedule as steps of the Lean model: 0 q = subscribe, 1 = publish, 2 = one delivery-thread primitive
    pre = "fq" if kind == "fifo" else "lq"
    steps, k1 = [], 0
    locked = any(label == "DLock.acquire" for _n, label in res["trace"])
    k0_subs = 0
    for name, label in res["trace"]:
        if name == "K0" and label == "DLock.acquire" and k0_subs < nq:
            steps.append((0, k0_subs)); k0_subs += 1
        elif name == "K0" and label == "call.setup" and not locked:
            steps += [(0, q) for q in range(nq)]
        elif name == "K1" and label == ("DLock.acquire" if locked else "call.subscribe"):
            steps.append((0, spec["resub"][k1])); k1 += 1
        elif name == "K0" and label == pre + ".put":
            steps.append((1,))
        elif name.startswith(kind + " active fabric") and (label in (pre + ".get", pre + ".task_done") or label.startswith("sq")):
            steps.append((2,))
    res["steps"] = steps
    return res


def explore_fine(run, focus, n):
    """fine-grained stream: subscriber deques are scheduling points, so a subscribe can land in the middle of a delivery loop;
    tied to the Lean model `Conc.FabFine` (family `fabfine`, one step per q.append) and checked by a delivery-count oracle"""
    rng = run.rng
    done = []
    for _ in range(n):
        spec = gen_fine_spec(rng)
        seed = rng.randrange(1 << 30)
        r2 = random.Random(seed)
        chooser = dsched.pct_chooser(r2, depth=r2.randint(1, 3), est_len=60) if r2.random() < 0.5 else dsched.random_chooser(r2)
        res = run_fine(spec, chooser)
        cj = {"what": "fabric-fine", "spec": spec, "seed": seed, "schedule": [nm for nm, _ in res.get("trace", [])]}
        run.count("fine-grained delivery stream (%s)" % ("with a first-time subscribe" if spec["nq"] in spec["resub"] else "redundant subscribes only"))
        if res["errors"]:
            run.violate("%s/thread-error" % focus, "a thread died: %s" % res["errors"][:2], cj)
        want = list(range(spec["npub"]))
        for i, g in enumerate(res.get("got", [])[:spec["nq"]]):
            if g != want:
                run.violate("C06/delivery-count", "subscribing while a publication is being delivered: queue %d received %s, expected "
                            "%s (each publication exactly once, in order)" % (i, g, want), cj)
        extra = res.get("got", [[]] * (spec["nq"] + 1))[spec["nq"]]
        if any(extra.count(u) > 1 for u in extra) or extra != sorted(extra):
            run.violate("C06/delivery-count", "the queue that subscribed during the deliveries received %s" % extra, cj)
        run.case(cj, nontrivial=True)
        done.append((spec, res, cj))
    lines = []
    for spec, res, cj in done:
        toks = []
        for st in res["steps"]:
            toks += [str(x) for x in st]
        lines.append("fabfine 9 %d %s" % (len(res["steps"]), " ".join(toks)))
    outs = leanrun.run_driver(lines)
    for (spec, res, cj), out in zip(done, outs):
        run.traces_validated += 1
        if res.get("outcome") != "quiescent" or res["errors"]:
            continue
        items = ";".join("%d:%s" % (i, ",".join(str(u) for u in g)) for i, g in enumerate(res["got"]) if g)
        real = "reg=%s fq= d=idle items=%s blocked=0" % (",".join(str(i) for i in res["reg"]), items)
        if out.strip() != real:
            run.disagree("subscribe racing a delivery loop (one step per q.append)", cj, "model: %s\nreal:  %s" % (out.strip(), real), None)


def subscribe_race_run(spec, chooser):
    """two client threads subscribe different queues at the same time, every bytecode of subscribe / _subscribe a scheduling point"""
    import small_corr, types
    with dsched.Installed():         # the fabric's own lock becomes a scheduler-aware lock
        return _subscribe_race_run(spec, chooser, small_corr, types)


def _subscribe_race_run(spec, chooser, small_corr, types):
    af = mao.ActiveFabricSource()
    kind = spec["kind"]
    qs = [collections.deque(maxlen=20) for _ in range(1 + sum(len(p) for p in spec["progs"]))]
    for i in range(spec["pre"]):
        af.subscribe(qs[0], Event(signal="S%d" % i), queue_type=kind)
    codes = [mao.ActiveFabricSource.subscribe.__code__] + [c for c in mao.ActiveFabricSource.subscribe.__code__.co_consts
                                                             if isinstance(c, types.CodeType)]
    nxt = [1]
    assign = []
    fns = []
    for p in spec["progs"]:
        mine = []
        for sg in p:
            mine.append((nxt[0], sg))
            nxt[0] += 1
        assign.append(mine)

        def f(mine=mine):
            for qi, sg in mine:
                af.subscribe(qs[qi], Event(signal="S%d" % sg), queue_type=kind)
        fns.append(f)
    order, errors, outcome, fin = small_corr.run_threads(fns, chooser, codes)
    reg = af.fifo_subscriptions if kind == "fifo" else af.lifo_subscriptions
    got = {k: [next(i for i, q in enumerate(qs) if q is x) for x in (v.values() if isinstance(v, dict) else v)] for k, v in reg.items()}
    return order, errors, got, assign


def explore_subscribe_race(run, n):
    """oracle-only (the Lean models take one subscribe call as one step): first-time subscribes of different queues from two
    threads, interleaved bytecode by bytecode; every subscribe that returned must be in the registry, exactly once"""
    rng = run.rng
    for _ in range(n):
        spec = {"kind": rng.choice(["fifo", "lifo"]), "pre": rng.randint(0, 2),
                "progs": [[rng.randrange(2) for _ in range(rng.randint(1, 2))] for _ in range(2)]}
        seed = rng.randrange(1 << 30)
        r2 = random.Random(seed)
        chooser = dsched.pct_chooser(r2, depth=r2.randint(1, 3), est_len=200) if r2.random() < 0.5 else dsched.random_chooser(r2)
        order, errors, got, assign = subscribe_race_run(spec, chooser)
        cj = {"what": "subscribe-race", "spec": spec, "seed": seed, "schedule": order}
        run.count("subscribe race (bytecode level)")
        run.traces_validated += 1
        if errors:
            run.violate("C06/thread-error", "concurrent subscribes failed: %s" % errors[:2], cj)
        for mine in assign:
            for qi, sg in mine:
                lst = got.get("S%d" % sg, [])
                if lst.count(qi) != 1:
                    run.violate("C06/concurrent-subscribe-lost", "two threads subscribing different queues at the same time: queue %d "
                                "subscribed to S%d (the call returned) but the registry for S%d is %s" % (qi, sg, sg, lst), cj)
        run.case(cj, nontrivial=True)


def number_subscription_race_run(spec, chooser):
    import small_corr, types
    import miros.event as mevent
    with dsched.Installed():
        saved = getattr(mevent, "_registry_lock", None)
        if saved is not None:
            mevent._registry_lock = dsched.DRLock()
        try:
            af = mao.ActiveFabricSource()
            qs = [collections.deque(maxlen=20) for _ in range(2)]
            names = ["NUMSUB_%s_%d" % (spec["tag"], k) for k in range(2)]
            numbers = [Event(signal=nm).signal for nm in names]          # registered before the threads start
            fresh = ["FRESH_%s_%d" % (spec["tag"], k) for k in range(spec["fresh"])]

            def subscriber():
                for k in range(2):
                    n = int(str(numbers[k]))                             # a number as a program holds it: an equal int
                    af.subscribe(qs[k], n, queue_type=spec["kind"])

            def registrar():
                for nm in fresh:
                    if spec["via"] == "event":
                        Event(signal=nm)
                    else:
                        getattr(mevent.signals, nm)
            codes = [c for c in small_corr.class_codes(mevent.SignalSource) if c.co_name != "__init__"]
            codes += [mao.ActiveFabricSource.subscribe.__code__] + [c for c in mao.ActiveFabricSource.subscribe.__code__.co_consts
                                                                     if isinstance(c, types.CodeType)]
            order, errors, outcome, fin = small_corr.run_threads([subscriber, registrar], chooser, codes)
            reg = af.fifo_subscriptions if spec["kind"] == "fifo" else af.lifo_subscriptions
            got = {nm: [next(i for i, q in enumerate(qs) if q is x) for x in (v.values() if isinstance(v, dict) else v)]
                   for nm, v in reg.items()}
            return order, errors, got, names
        finally:
            if saved is not None:
                mevent._registry_lock = saved


def explore_number_subscription_race(run, focus, n):
    """a subscription given as a signal NUMBER (the path ActiveObject.subscribe(signals.X) takes: the number is turned back into a
    name) while another thread registers signal names that are new to the program, every bytecode of the registry and of subscribe
    a scheduling point (oracle only): the subscribing call returns normally and the registry holds the subscription"""
    rng = run.rng
    for _ in range(n):
        spec = {"kind": rng.choice(["fifo", "lifo"]), "fresh": rng.randint(1, 3), "via": rng.choice(["event", "attribute"]),
                "tag": "%d_%d" % (run.seed, rng.randrange(1 << 30))}
        seed = rng.randrange(1 << 30)
        r2 = random.Random(seed)
        chooser = dsched.pct_chooser(r2, depth=r2.randint(1, 3), est_len=300) if r2.random() < 0.4 else dsched.random_chooser(r2)
        order, errors, got, names = number_subscription_race_run(spec, chooser)
        cj = {"what": "number-subscription-race", "spec": spec, "seed": seed, "schedule": order}
        run.count("subscription by signal number racing the registration of new names (bytecode level)")
        run.traces_validated += 1
        if errors:
            run.violate("%s/subscribe-by-number-failed" % focus, "subscribing by signal number while another thread registers new signal names "
                        "failed: %s" % errors[:2], cj)
        else:
            for k, nm in enumerate(names):
                if got.get(nm, []).count(k) != 1:
                    run.violate("%s/subscribe-by-number-lost" % focus, "the subscription of queue %d to signal number of %s returned but the registry "
                                "holds %s" % (k, nm, got.get(nm)), cj)
        run.case(cj, nontrivial=True)


def same_queue_race_run(spec, chooser):
    import small_corr, types
    with dsched.Installed():
        af = mao.ActiveFabricSource()
        others = [collections.deque(maxlen=20) for _ in range(spec["others"])]
        mine = collections.deque(maxlen=20)
        sig = "SAMEQ_%s" % spec["tag"]
        for q in others:
            af.subscribe(q, Event(signal=sig), queue_type=spec["kind"])     # the signal's list exists before the race

        def one():
            af.subscribe(mine, Event(signal=sig), queue_type=spec["kind"])
        codes = [mao.ActiveFabricSource.subscribe.__code__] + [c for c in mao.ActiveFabricSource.subscribe.__code__.co_consts
                                                                if isinstance(c, types.CodeType)]
        order, errors, outcome, fin = small_corr.run_threads([one] * spec["threads"], chooser, codes)
        reg = af.fifo_subscriptions if spec["kind"] == "fifo" else af.lifo_subscriptions
        held = list(reg.get(sig, {}).values()) if isinstance(reg.get(sig), dict) else list(reg.get(sig, []))
        return order, errors, sum(1 for x in held if x is mine), [sum(1 for x in held if x is q) for q in others], all(fin)


def explore_same_queue_race(run, focus, n):
    """the SAME queue subscribed to the same signal by two or three threads at once (an active object subscribing from its own
    handler and from outside), other queues already subscribed, every bytecode of subscribe a scheduling point (oracle only):
    afterwards the registry holds the queue once - each later publication reaches it once"""
    rng = run.rng
    for _ in range(n):
        spec = {"kind": rng.choice(["fifo", "lifo"]), "others": rng.randint(0, 2), "threads": rng.randint(2, 3),
                "tag": "%d_%d" % (run.seed, rng.randrange(1 << 30))}
        seed = rng.randrange(1 << 30)
        r2 = random.Random(seed)
        chooser = dsched.pct_chooser(r2, depth=r2.randint(1, 3), est_len=150) if r2.random() < 0.5 else dsched.random_chooser(r2)
        order, errors, mine, others, fin = same_queue_race_run(spec, chooser)
        cj = {"what": "same-queue-subscribe-race", "spec": spec, "seed": seed, "schedule": order}
        run.count("one queue subscribed to one signal by several threads at once (bytecode level)")
        run.traces_validated += 1
        if errors or not fin:
            run.violate("%s/subscribe-race-failed" % focus, "%d threads subscribing one queue to one signal: %s" % (spec["threads"], errors[:2] or "a call never returned"), cj)
        elif mine != 1 or any(o != 1 for o in others):
            run.violate("%s/subscribed-twice" % focus, "%d threads subscribed the same queue to the same signal at the same time (%d other queues subscribed "
                        "before): the registry holds it %d times (every publication would reach it %d times), the others %s"
                        % (spec["threads"], spec["others"], mine, mine, others), cj)
        run.case(cj, nontrivial=True)


def explore_many_subscribers(run, focus):
    """far more subscriber queues on one signal than a scenario holds (several hundred, beyond every size constant of the
    library): each receives every publication exactly once per kind, and the first subscribers are still served (oracle only)"""
    rng = run.rng
    n = rng.choice([501, 503, 520, 600])
    backlog = rng.choice([300, 501, 640])
    with dsched.Installed():
        sched = dsched.Sched(dsched.round_robin_chooser(), max_steps=20000, trace=False, yield_filter=yield_filter)
        dsched.Sched.current = sched
        errors = []
        counts = None
        try:
            if hasattr(mao.FabricEvent, "sequence"):
                import itertools
                mao.FabricEvent.sequence = itertools.count()
            af = mao.ActiveFabric()
            qs = [collections.deque(maxlen=200) for _ in range(n)]

            def client():
                for q in qs:
                    af.subscribe(q, Event(signal="S0"), queue_type="fifo")
                    af.subscribe(q, Event(signal="S0"), queue_type="lifo")
                # ... and several hundred publications waiting before the delivery threads exist, on several hundred signals
                for k in range(backlog):
                    af.subscribe(qs[k % 7], Event(signal="M%d" % k), queue_type="fifo")
                    af.publish(Event(signal="M%d" % k, payload=1000 + k), priority=rng.choice([1, 5, 1000]) if k % 3 else 7)
                af.start()
                af.publish(Event(signal="S0", payload=1))
                af.publish(Event(signal="S0", payload=2), priority=5)
            sched.spawn(client, (), name="K0")
            sched.run()
            for t in sched.threads:
                if t.error is not None:
                    errors.append("%s: %s: %s" % (t.name, type(t.error).__name__, t.error))
            counts = [collections.Counter(e.payload for e in q) for q in qs]
        finally:
            sched.shutdown()
    cj = {"what": "many-subscribers", "queues": n, "backlog": backlog}
    run.count("several hundred subscriber queues on one signal")
    run.traces_validated += 1
    if errors:
        run.violate("%s/thread-error" % focus, "%d subscribers on one signal: %s" % (n, errors[:2]), cj)
    elif counts is not None:
        extra = [collections.Counter({1000 + k: 1 for k in range(backlog) if k % 7 == i}) for i in range(n)]
        bad = [i for i, c in enumerate(counts) if c != collections.Counter({1: 2, 2: 2}) + extra[i]]
        if bad:
            run.violate("%s/delivery-count" % focus, "%d queues subscribed (fifo and lifo) to one signal, two publications: queues %s%s did not receive "
                        "each publication once per kind, e.g. queue %d holds %s" % (n, bad[:5], "..." if len(bad) > 5 else "", bad[0], dict(counts[bad[0]])), cj)
    run.case(cj, nontrivial=True)


def explore_fe_order(run, n):
    """FabricEvent ordering far beyond what a schedule can queue up: pairs and triples of fabric events whose creation numbers
    are up to 10^7 apart (a delivery thread that lags that far), all priorities a caller may pass: `<` is the lexicographic
    order of (priority, creation number), and a PriorityQueue filled with them drains in that order"""
    import itertools, queue as _queue
    rng = run.rng
    for _ in range(n):
        k = rng.randint(2, 6)
        prios = [rng.choice([1, 2, 3, 5, 7, 999, 1000, 1000, 10 ** 6, 0]) for _ in range(k)]
        gaps = [rng.choice([1, 1, 2, 40, 70000, 10 ** 6, 10 ** 7]) for _ in range(k)]
        seqs, cur = [], rng.choice([0, 5, 65530, 2 ** 31 - 3])
        for g in gaps:
            cur += g
            seqs.append(cur)
        saved = mao.FabricEvent.sequence
        try:
            mao.FabricEvent.sequence = iter(seqs)
            fes = [mao.FabricEvent(Event(signal="S0", payload=i), prios[i]) for i in range(k)]
        finally:
            mao.FabricEvent.sequence = saved
        cj = {"what": "fe-order", "priorities": prios, "creation_numbers": seqs}
        run.count("fabric-event comparator probe")
        run.traces_validated += 1
        bad = None
        for i in range(k):
            for j in range(k):
                if i != j and (fes[i] < fes[j]) != ((prios[i], seqs[i]) < (prios[j], seqs[j])):
                    bad = "event (priority %d, created %d) < event (priority %d, created %d) is %s" % (
                        prios[i], seqs[i], prios[j], seqs[j], fes[i] < fes[j])
        pq = _queue.PriorityQueue()
        for fe in fes:
            pq.put(fe)
        drained = [pq.get().event.payload for _ in range(k)]
        want = sorted(range(k), key=lambda i: (prios[i], seqs[i]))
        if bad is None and drained != want:
            bad = "a PriorityQueue filled with them drains as %s, expected %s" % (drained, want)
        if bad:
            run.violate("C08/comparator", "fabric events with priorities %s created as numbers %s: %s" % (prios, seqs, bad), cj)
        run.case(cj, nontrivial=True)


def is_heap(items):
    """the heap condition of CPython's heapq for the comparator of the items themselves"""
    return all(not (items[i] < items[(i - 1) >> 1]) for i in range(1, len(items)))


def explore_heap(run, n):
    """tie of the Lean heap model (`Data.Heap`, family `heap`): random put/get sequences on a real queue.PriorityQueue holding real
    FabricEvent objects (many equal priorities, creation numbers handed out by the real class counter, sometimes far apart);
    after every operation the array layout `PriorityQueue.queue` and every returned element are compared with the model's"""
    import queue as _queue
    rng = run.rng
    cases = []
    lines = []
    for _ in range(n):
        k = rng.randint(1, 40)
        pq = _queue.PriorityQueue()
        ops, real = [], []
        saved = mao.FabricEvent.sequence
        jump = rng.random() < 0.2
        try:
            if jump:
                import itertools
                mao.FabricEvent.sequence = itertools.count(rng.choice([65530, 2 ** 31 - 5, 10 ** 7]))
            prio_pool = rng.choice([[1, 2, 3], [1000], [1, 1000], [5, 5, 5, 7], list(range(1, 20))])
            for _ in range(k):
                if rng.random() < 0.62 or pq.qsize() == 0 and rng.random() < 0.9:
                    pr = rng.choice(prio_pool)
                    fe = mao.FabricEvent(Event(signal="S0"), pr)
                    pq.put(fe)
                    ops.append((1, pr, fe.sequence_number))
                    real.append(",".join("%d:%d" % (x.priority, x.sequence_number) for x in pq.queue))
                else:
                    ops.append((0,))
                    if pq.qsize() == 0:
                        real.append("empty|")
                    else:
                        x = pq.get_nowait()
                        real.append("%d:%d|" % (x.priority, x.sequence_number) + ",".join("%d:%d" % (y.priority, y.sequence_number) for y in pq.queue))
            heap_ok = is_heap(list(pq.queue))
        finally:
            mao.FabricEvent.sequence = saved
        toks = ["heap", 9, len(ops)]
        for o in ops:
            toks += list(o)
        lines.append(" ".join(str(t) for t in toks))
        cases.append(({"what": "heap", "ops": ops}, ";".join(real) + " heap=%d" % int(heap_ok)))
    outs = leanrun.run_driver(lines) if lines else []
    for (cj, real), out in zip(cases, outs):
        run.traces_validated += 1
        run.count("heap layout stream: put/get sequences on a real PriorityQueue of FabricEvents")
        if out.strip() != real:
            a, b = out.strip().split(";"), real.split(";")
            k = next((i for i in range(min(len(a), len(b))) if a[i] != b[i]), min(len(a), len(b)))
            popped = [x.split("|")[0] for x in b if "|" in x and not x.startswith("empty")]
            pushed = []
            bad = None
            # implementation-side oracle: every get returns the least (priority, creation number) among what is inside
            inside = []
            for o, r in zip(cj["ops"], b):
                if o[0] == 1:
                    inside.append((o[1], o[2]))
                elif inside:
                    got = tuple(int(v) for v in r.split("|")[0].split(":"))
                    if got != min(inside):
                        bad = "get returned %s while %s was waiting" % (got, min(inside))
                        break
                    inside.remove(got)
            if bad:
                run.violate("C08/heap-order", "PriorityQueue of fabric events: %s" % bad, cj)
            run.disagree("heap layout of the fabric's PriorityQueue", cj, "first difference at operation %d\nmodel: %s\nreal:  %s" % (
                k, ";".join(a[max(0, k - 1):k + 2]), ";".join(b[max(0, k - 1):k + 2])), None)
        run.case(cj, nontrivial=True)


def replay(case):
    cc = case.get("case", case)
    if cc.get("what") in ("heap", "many-subscribers"):
        print(cc)
        return 0
    if cc.get("what") == "fe-order":
        print(cc)
        return 0
    if cc.get("what") == "number-subscription-race":
        print(number_subscription_race_run(cc["spec"], dsched.scripted_chooser(["T%d" % i for i in cc["schedule"]], then=dsched.round_robin_chooser())))
        return 0
    if cc.get("what") == "subscribing-subscriber":
        print(run_subscribing_subscriber(cc["spec"], dsched.scripted_chooser(cc["schedule"], then=dsched.round_robin_chooser())))
        return 0
    if cc.get("what") == "same-queue-subscribe-race":
        print(same_queue_race_run(cc["spec"], dsched.scripted_chooser(["T%d" % i for i in cc["schedule"]], then=dsched.round_robin_chooser())))
        return 0
    if cc.get("what") == "subscribe-race":
        import small_corr
        sched_list = list(cc["schedule"])
        print(subscribe_race_run(cc["spec"], dsched.scripted_chooser(["T%d" % i for i in sched_list], then=dsched.round_robin_chooser())))
        return 0
    if cc.get("what") == "fabric-fault":
        res = run_fault(cc["ops"], dsched.scripted_chooser(cc["schedule"], then=dsched.round_robin_chooser()))
        print({k: v for k, v in res.items() if k != "schedule"})
        return 0
    if cc.get("what") == "fabric-fine":
        res = run_fine(cc["spec"], dsched.scripted_chooser(cc["schedule"], then=dsched.round_robin_chooser()))
        print({k: v for k, v in res.items() if k != "trace"})
        return 0
    sc = FabScenario.from_json(cc["scenario"])
    fr = run_real(sc, dsched.scripted_chooser(cc["schedule"], then=dsched.round_robin_chooser()))
    out = leanrun.run_driver([sc.encode([t for t, _, _ in modelled_steps(fr)])])[0]
    print("outcome", fr.outcome, "subs", fr.subs, "regF", fr.regF, "regL", fr.regL, "live", fr.live, "errors", fr.errors)
    print("model agrees:", compare(sc, fr, out))
    return 0
