"""Fabric correspondence: Lean `Conc.Fab` ↔ real `ActiveFabricSource` under dsched (one step per
Queue primitive / join / API call), plus implementation-side oracles for C06, C08, C09, C13."""
import os, sys, json, random, collections
import leanrun, dsched
from charts import Event
import miros.activeobject as mao

NSIG = 3
CALLC = {"subscribe": 0, "publish": 1, "start": 2, "stop": 3, "clear": 4, "is_alive": 5}


def yield_filter(label):
    return label.startswith(("fq.", "lq.", "call.", "thread.join")) or label == "begin"


class FabScenario:
    def __init__(self, subs, progs):
        self.subs = subs        # [(id, isAO)]
        self.progs = progs      # [[(call, a, b, c)]]

    def to_json(self):
        return {"subs": self.subs, "progs": self.progs}

    @staticmethod
    def from_json(d):
        return FabScenario([tuple(x) for x in d["subs"]], [[tuple(c) for c in p] for p in d["progs"]])

    def encode(self, sched, tags=9):
        toks = ["fab", tags, len(self.subs)]
        for i, ao in self.subs:
            toks += [i, int(ao)]
        toks += [len(self.progs)]
        for p in self.progs:
            toks += [len(p)]
            for call, a, b, c in p:
                toks += [CALLC[call], a, b, c]
        toks += [len(sched)] + list(sched)
        return " ".join(str(t) for t in toks)


def gen_chaotic(rng, nclients=None):
    nq = rng.randint(1, 4)
    subs = [(i, rng.random() < 0.4) for i in range(nq)]
    nclients = nclients or rng.choice([1, 1, 2])
    uid = [0]
    progs = []
    for k in range(nclients):
        p = []
        for _ in range(rng.randint(3, 12)):
            r = rng.random()
            if k > 0 and 0.62 <= r < 0.92:
                # start / stop / clear are issued by one thread only (C13 quantifies over call sequences)
                r = rng.random() * 0.62
            if r < 0.3:
                p.append(("subscribe", rng.randrange(nq), rng.randrange(NSIG), rng.randrange(2)))
            elif r < 0.62:
                p.append(("publish", rng.randrange(NSIG), uid[0], rng.choice([1000, 1000, 1000, 5, 1])))
                uid[0] += 1
            elif r < 0.76:
                p.append(("start", 0, 0, 0))
            elif r < 0.86:
                p.append(("stop", 0, 0, 0))
            elif r < 0.92:
                p.append(("clear", 0, 0, 0))
            else:
                p.append(("is_alive", 0, 0, 0))
        progs.append(p)
    return FabScenario(subs, progs)


def gen_structured(rng):
    """subscribe*, publish* (fabric not running: maximal lag), start, [quiesce], stop, start, publish*"""
    nq = rng.randint(2, 4)
    subs = [(i, rng.random() < 0.5) for i in range(nq)]
    p = []
    for _ in range(rng.randint(2, 8)):
        p.append(("subscribe", rng.randrange(nq), rng.randrange(NSIG), rng.randrange(2)))
    if rng.random() < 0.5:
        p.append(("start", 0, 0, 0))
    uid = 0
    for _ in range(rng.randint(3, 9)):
        p.append(("publish", rng.randrange(NSIG), uid, rng.choice([1000, 1000, 5, 5, 1])))
        uid += 1
    p.append(("start", 0, 0, 0))
    p.append(("is_alive", 0, 0, 0))
    if rng.random() < 0.5:
        p.append(("start", 0, 0, 0))
        p.append(("is_alive", 0, 0, 0))
    return FabScenario(subs, [p])


class FabRun:
    pass


def run_real(sc, chooser, max_steps=4000):
    fr = FabRun()
    fr.errors = []
    fr.max_live = {"fifo": 0, "lifo": 0}
    with dsched.Installed():
        sched = dsched.Sched(chooser, max_steps=max_steps, yield_filter=yield_filter)
        dsched.Sched.current = sched
        try:
            if hasattr(mao.FabricEvent, "sequence"):
                import itertools
                mao.FabricEvent.sequence = itertools.count()
            af = mao.ActiveFabric()
            sched.name_obj(af.fifo_fabric_queue, "fq")
            sched.name_obj(af.lifo_fabric_queue, "lq")
            queues = {}
            for i, is_ao in sc.subs:
                queues[i] = mao.LockingDeque() if is_ao else collections.deque(maxlen=200)
            alive_results = []

            def client(k):
                for call, a, b, c in sc.progs[k]:
                    sched.yield_point("call." + call)
                    if call == "subscribe":
                        af.subscribe(queues[a], Event(signal="S%d" % b), queue_type="lifo" if c else "fifo")
                    elif call == "publish":
                        af.publish(Event(signal="S%d" % a, payload=b), priority=c)
                    elif call == "start":
                        af.start()
                    elif call == "stop":
                        af.stop()
                    elif call == "clear":
                        af.clear()
                    else:
                        r = af.is_alive()
                        alive_results.append((k, r))
                        sched.trace[-1][2] = r
            for k in range(len(sc.progs)):
                sched.spawn(client, (k,), name="K%d" % k)

            def monitor(s, st):
                for kind in ("fifo", "lifo"):
                    n = sum(1 for t in s.threads if t.name.startswith(kind + " active fabric") and not t.finished)
                    fr.max_live[kind] = max(fr.max_live[kind], n)
            sched.monitors.append(monitor)
            fr.outcome = sched.run()
            fr.trace = sched.trace
            fr.steps = sched.steps
            fr.finished = {t.name: t.finished for t in sched.threads}
            for t in sched.threads:
                if t.error is not None:
                    fr.errors.append("%s: %s: %s" % (t.name, type(t.error).__name__, t.error))
            ev = lambda e: "%s.%s" % (e.signal_name[1:], e.payload)
            fr.subs = {i: [ev(e) for e in (q.deque.raw() if hasattr(q, "locking_queue") else list(q))] for i, q in queues.items()}
            reg = lambda d: ";".join("%s>%s" % (k[1:], ",".join(str(next(i for i, q in queues.items() if q is x)) for x in v))
                                      for k, v in d.items())
            fr.regF, fr.regL = reg(af.fifo_subscriptions), reg(af.lifo_subscriptions)
            fr.live = {kind: sum(1 for t in sched.threads if t.name.startswith(kind + " active fabric") and not t.finished)
                       for kind in ("fifo", "lifo")}
            fr.fq, fr.lq = af.fifo_fabric_queue._qsize(), af.lifo_fabric_queue._qsize()
            fr.flag = int(af.fabric_task_event._flag)
            fr.alive = [r for _, r in sorted(alive_results, key=lambda x: x[0])]
            fr.handles_alive = [af.fifo_thread is not None and af.fifo_thread._st is not None and not af.fifo_thread._st.finished,
                                af.lifo_thread is not None and af.lifo_thread._st is not None and not af.lifo_thread._st.finished]
        finally:
            leaked = sched.shutdown()
            if leaked:
                fr.errors.append("leaked: %s" % leaked)
    return fr


def tid_of(name):
    if name.startswith("fifo active fabric"):
        return 0
    if name.startswith("lifo active fabric"):
        return 1
    if name.startswith("K") and name[1:].isdigit():
        return 2 + int(name[1:])
    return None


def real_label(tid, label, result):
    if tid in (0, 1):
        if label == "begin":
            return "begin"
        op = label.split(".", 1)[1]
        if op == "get":
            return "get=%s.%s" % (result.priority, result.sequence_number) if hasattr(result, "priority") else "get=%s" % result
        if op == "task_done":
            return "task_done" if result == "ok" else "task_done=%s" % result
        return op
    if label == "call.is_alive":
        return "call.is_alive=%s" % ("true" if result else "false")
    if label.endswith(".put"):
        return label
    if label.endswith(".get"):
        return "%s=%s" % (label, "ok" if hasattr(result, "priority") or result == "ok" else result)
    if label.endswith(".task_done"):
        return label if result == "ok" else "%s=%s" % (label, result)
    return label


def modelled_steps(fr):
    out = []
    for name, label, result, enabled, _now in fr.trace:
        tid = tid_of(name)
        if tid is None:
            continue
        if label == "begin" and tid >= 2:
            continue
        en = sorted(set(t for t in (tid_of(n) for n in enabled) if t is not None))
        out.append((tid, real_label(tid, label, result), en))
    return out


def compare(sc, fr, out):
    steps = modelled_steps(fr)
    body, final = out.split(" || ")
    msteps = [x for x in body.split(" | ") if x]
    for i, (tid, lbl, en) in enumerate(steps):
        if i >= len(msteps):
            return False, "model produced %d steps, implementation %d" % (len(msteps), len(steps))
        want = "%d:%s:%s" % (tid, lbl, ",".join(str(x) for x in en))
        if msteps[i] != want:
            return False, "step %d: implementation %s, model %s" % (i, want, msteps[i])
    mf = dict(kv.split("=", 1) for kv in final.split(" "))
    subs = ";".join("%d>%s" % (i, ",".join(fr.subs[i])) for i, _ in sc.subs)
    real = {"regF": fr.regF, "regL": fr.regL, "subs": subs, "liveF": str(fr.live["fifo"]), "liveL": str(fr.live["lifo"]),
            "fq": str(fr.fq), "lq": str(fr.lq), "flag": str(fr.flag), "alive": ",".join("1" if r else "0" for r in fr.alive)}
    for k, v in real.items():
        if mf.get(k) != v:
            return False, "final %s: implementation %r, model %r" % (k, v, mf.get(k))
    return True, None


def client_sched_prefix(sc):
    return None


def oracle(run, focus, sc, fr, cj, structured):
    if fr.errors:
        run.violate("%s/thread-error" % focus, "a thread died: %s" % fr.errors[:2], cj)
    # C13: at most one delivery thread per kind, at any time
    for kind in ("fifo", "lifo"):
        if fr.max_live[kind] > 1:
            run.violate("C13/more-than-one-%s-thread" % kind, "%d live %s delivery threads at the same time" % (fr.max_live[kind], kind), cj)
    if fr.outcome == "quiescent":
        k_done = all(v for n, v in fr.finished.items() if n.startswith("K"))
        if not k_done:
            run.violate("C13/call-never-returns", "a fabric API call never returned (no thread enabled): %s" % [
                n for n, v in fr.finished.items() if n.startswith("K") and not v], cj)
    # every subscriber queue: no event more than once per kind, only subscribed signals
    subscribed = collections.defaultdict(set)   # queue -> signals ever subscribed (any kind)
    kinds = collections.defaultdict(set)
    for p in sc.progs:
        for call, a, b, c in p:
            if call == "subscribe":
                subscribed[a].add(b)
                kinds[(a, b)].add(c)
    for qid, items in fr.subs.items():
        cnt = collections.Counter(items)
        for it, n in cnt.items():
            sig = int(it.split(".")[0])
            if sig not in subscribed[qid]:
                run.violate("C06/delivered-to-non-subscriber", "queue %d received %s but never subscribed to S%d" % (qid, it, sig), cj)
            elif n > len(kinds[(qid, sig)]):
                run.violate("C06/delivered-twice", "queue %d received %s %d times (subscription kinds: %d)" % (qid, it, n, len(kinds[(qid, sig)])), cj)
    if structured and fr.outcome == "quiescent" and not fr.errors:
        oracle_structured(run, focus, sc, fr, cj)


def oracle_structured(run, focus, sc, fr, cj):
    """one client: subscribe*, [start], publish*, start …: everything published must have arrived, once per kind,
    ordered by (priority, publish order) for the part that was queued before the first start"""
    p = sc.progs[0]
    first_start = next(i for i, c in enumerate(p) if c[0] == "start")
    pubs = [(i, c) for i, c in enumerate(p) if c[0] == "publish"]
    regs = collections.defaultdict(list)      # (qid) -> [(sig, kind)] unique
    for c in p:
        if c[0] == "subscribe" and (c[2], c[3]) not in regs[c[1]]:
            regs[c[1]].append((c[2], c[3]))
    is_ao = dict(sc.subs)
    lagged = [c for i, c in pubs if i < first_start]
    for qid, _ in sc.subs:
        got = fr.subs[qid]
        want_cnt = collections.Counter()
        for _, c in pubs:
            for sig, kind in regs[qid]:
                if sig == c[1]:
                    want_cnt["%d.%d" % (c[1], c[2])] += 1
        if collections.Counter(got) != want_cnt:
            run.violate("C06/delivery-count", "queue %d received %s, expected (as a multiset) %s" % (qid, got, dict(want_cnt)), cj)
            continue
        # C08: events queued before the fabric started, for a queue with a single subscription kind
        ks = set(k for _, k in regs[qid])
        if len(lagged) >= 2 and len(ks) == 1 and first_start == len([c for c in p[:first_start] if c[0] in ("subscribe", "publish")]):
            kind = next(iter(ks))
            mine = [c for c in lagged if any(sig == c[1] for sig, _ in regs[qid])]
            order = sorted(range(len(mine)), key=lambda j: (mine[j][3], j))
            want = ["%d.%d" % (mine[j][1], mine[j][2]) for j in order]
            if kind == 1 and is_ao[qid]:
                want = list(reversed(want))      # each delivery goes to the front
                got_part = got[-len(want):] if want else []
                # later publications (after start) were also put at the front: the lagged ones are the last len(want)
            else:
                got_part = got[:len(want)]
            run.count("C08 order check (%d queued events)" % len(want))
            if got_part != want:
                key = "C09/lifo-placement" if (kind == 1 and is_ao[qid]) else "C08/order"
                run.violate(key, "queue %d (%s, %s subscription) holds %s; the %d events queued before start() should appear as %s"
                            % (qid, "active object" if is_ao[qid] else "deque", "lifo" if kind else "fifo", got, len(want), want), cj)


def explore(run, focus, n_random):
    rng = run.rng
    done = []
    for n in range(n_random):
        structured = (n % 2 == 0) if focus in ("C06", "C08", "C09") else (n % 4 == 0)
        sc = gen_structured(rng) if structured else gen_chaotic(rng)
        seed = rng.randrange(1 << 30)
        r2 = random.Random(seed)
        if r2.random() < 0.5:
            base, kind = dsched.pct_chooser(r2, depth=r2.randint(1, 3), est_len=80), "pct"
        else:
            base, kind = dsched.random_chooser(r2), "random"
        fr = run_real(sc, base)
        cj = {"scenario": sc.to_json(), "chooser": kind, "seed": seed, "schedule": [e[0] for e in fr.trace]}
        run.count("structured" if structured else "chaotic")
        run.count("outcome " + str(fr.outcome))
        oracle(run, focus, sc, fr, cj, structured)
        run.case({"scenario": sc.to_json(), "chooser": kind, "seed": seed, "steps": fr.steps},
                 nontrivial=sum(len(p) for p in sc.progs) >= 4)
        done.append((sc, fr, cj))
    lines = [sc.encode([t for t, _, _ in modelled_steps(fr)]) for sc, fr, _ in done]
    outs = leanrun.run_driver(lines)
    for (sc, fr, cj), out in zip(done, outs):
        ok, diff = compare(sc, fr, out)
        run.traces_validated += 1
        if not ok:
            run.disagree("fabric primitives and API calls under the same schedule", cj, diff, None)


class Poison:
    """a subscriber 'queue' whose append raises once: kills the delivery thread that serves it"""

    def __init__(self):
        self.hits = 0

    def append(self, e):
        self.hits += 1
        if self.hits == 1:
            raise RuntimeError("poisoned subscriber")


def explore_faults(run, focus, n):
    """oracle-only stream (the model has no dying delivery thread): one delivery thread is killed by a subscriber
    that raises, then the fabric is started again / stopped; at most one live thread per kind, stop() returns,
    nothing survives it"""
    rng = run.rng
    for _ in range(n):
        kind_dead = rng.choice(["fifo", "lifo"])
        seed = rng.randrange(1 << 30)
        r2 = random.Random(seed)
        max_live = {"fifo": 0, "lifo": 0}
        errors = []
        with dsched.Installed():
            sched = dsched.Sched(dsched.random_chooser(r2), max_steps=3000, yield_filter=yield_filter)
            dsched.Sched.current = sched
            try:
                af = mao.ActiveFabric()
                sched.name_obj(af.fifo_fabric_queue, "fq")
                sched.name_obj(af.lifo_fabric_queue, "lq")
                good = collections.deque(maxlen=50)
                results = {}

                def settle():
                    """wait until every other thread is finished or blocked"""
                    me = sched.me()
                    sched.yield_point("call.settle", enabled=lambda: all(
                        t is me or t.finished or not sched.is_enabled(t) for t in sched.threads))

                def client():
                    sched.yield_point("call.setup")
                    af.subscribe(Poison(), Event(signal="S0"), queue_type=kind_dead)
                    af.subscribe(good, Event(signal="S1"), queue_type="fifo")
                    af.start()
                    sched.yield_point("call.publish")
                    af.publish(Event(signal="S0", payload=0))
                    settle()                        # the poisoned delivery thread is dead now
                    results["dead"] = [t.name for t in sched.threads if t.finished and t.error is not None]
                    sched.yield_point("call.start")
                    af.start()                      # what an ActiveObject does when is_alive() is False
                    results["alive_after_restart"] = af.is_alive()
                    sched.yield_point("call.publish")
                    af.publish(Event(signal="S1", payload=1))
                    settle()
                    sched.yield_point("call.stop")
                    af.stop()
                    results["stopped"] = True
                    sched.yield_point("call.publish")
                    af.publish(Event(signal="S1", payload=2))
                    settle()
                sched.spawn(client, (), name="K0")

                def monitor(s, st):
                    for kd in ("fifo", "lifo"):
                        nlive = sum(1 for t in s.threads if t.name.startswith(kd + " active fabric") and not t.finished)
                        max_live[kd] = max(max_live[kd], nlive)
                sched.monitors.append(monitor)
                outcome = sched.run()
                live_end = {kd: sum(1 for t in sched.threads if t.name.startswith(kd + " active fabric") and not t.finished)
                            for kd in ("fifo", "lifo")}
                got = [e.payload for e in good]
                for t in sched.threads:
                    if t.error is not None and "poisoned subscriber" not in str(t.error):
                        errors.append("%s: %s: %s" % (t.name, type(t.error).__name__, t.error))
                cj = {"what": "fabric-fault", "dead": kind_dead, "seed": seed, "schedule": [e[0] for e in sched.trace]}
            finally:
                sched.shutdown()
        run.count("fault stream: %s thread killed" % kind_dead)
        for kd in ("fifo", "lifo"):
            if max_live[kd] > 1:
                run.violate("C13/more-than-one-%s-thread" % kd, "after the %s delivery thread died and start() was called again, %d %s threads "
                            "were alive at the same time" % (kind_dead, max_live[kd], kd), cj)
        if errors:
            run.violate("C13/thread-error", "a thread died: %s" % errors[:2], cj)
        if not results.get("stopped"):
            run.violate("C13/call-never-returns", "stop() did not return after a delivery thread had died and the fabric was restarted", cj)
        else:
            if live_end["fifo"] or live_end["lifo"]:
                run.violate("C13/thread-survives-stop", "delivery threads still alive after stop(): %s" % live_end, cj)
            if results.get("alive_after_restart") is not True:
                run.violate("C13/is_alive-after-restart", "is_alive() is %r after start() repaired the dead thread" % results.get("alive_after_restart"), cj)
            if got != [1]:
                run.violate("C13/delivery-after-restart", "subscriber received %s: expected the publication made while running (1) and not the "
                            "one made after stop() (2)" % got, cj)
        run.case(cj, nontrivial=True)


def explore_fine(run, focus, n):
    """oracle-only stream: subscriber queues are yield points, so a client call can land in the middle of a delivery
    loop (the model delivers atomically); redundant subscribes race a publication"""
    rng = run.rng
    for _ in range(n):
        seed = rng.randrange(1 << 30)
        r2 = random.Random(seed)
        nq = rng.randint(2, 4)
        kind = rng.choice(["fifo", "lifo"])
        errors = []
        with dsched.Installed():
            sched = dsched.Sched(dsched.pct_chooser(r2, depth=r2.randint(1, 3), est_len=60) if r2.random() < 0.5 else dsched.random_chooser(r2),
                                 max_steps=3000,
                                 yield_filter=lambda l: yield_filter(l) or l.startswith("sq"))
            dsched.Sched.current = sched
            try:
                af = mao.ActiveFabric()
                sched.name_obj(af.fifo_fabric_queue, "fq")
                sched.name_obj(af.lifo_fabric_queue, "lq")
                qs = []
                for i in range(nq):
                    q = dsched.DDeque(maxlen=50)
                    sched.name_obj(q, "sq%d" % i)
                    qs.append(q)
                npub = rng.randint(1, 3)

                def setup_and_publish():
                    sched.yield_point("call.setup")
                    for q in qs:
                        af.subscribe(q, Event(signal="S0"), queue_type=kind)
                    af.start()
                    for k in range(npub):
                        sched.yield_point("call.publish")
                        af.publish(Event(signal="S0", payload=k))

                def resubscriber():
                    for _ in range(rng.randint(1, 4)):
                        sched.yield_point("call.subscribe")
                        af.subscribe(qs[r2.randrange(nq)], Event(signal="S0"), queue_type=kind)
                sched.spawn(setup_and_publish, (), name="K0")
                sched.spawn(resubscriber, (), name="K1")
                sched.run()
                got = [[e.payload for e in q.raw()] for q in qs]
                for t in sched.threads:
                    if t.error is not None:
                        errors.append("%s: %s: %s" % (t.name, type(t.error).__name__, t.error))
                cj = {"what": "fabric-fine", "queues": nq, "kind": kind, "seed": seed, "schedule": [e[0] for e in sched.trace]}
            finally:
                sched.shutdown()
        run.count("fine-grained delivery stream")
        if errors:
            run.violate("C06/thread-error", "a thread died: %s" % errors[:2], cj)
        # K1 may subscribe before K0 has: then that queue is subscribed before the others, nothing else changes;
        # every queue ends up subscribed before the first publication only if K0's setup ran first — so only
        # count-exactness per queue is checked for publications made after all queues were subscribed by K0
        want = sorted(range(npub))
        for i, g in enumerate(got):
            if sorted(g) != want:
                run.violate("C06/delivery-count", "re-subscribing while a publication is being delivered: queue %d received %s, "
                            "expected each of %s exactly once" % (i, g, want), cj)
        run.case(cj, nontrivial=True)


def replay(case):
    cc = case.get("case", case)
    if cc.get("what") in ("fabric-fault", "fabric-fine"):
        print("re-run with the same VERIF_SEED: these streams are seeded by", cc.get("seed"), cc)
        return 0
    sc = FabScenario.from_json(cc["scenario"])
    fr = run_real(sc, dsched.scripted_chooser(cc["schedule"], then=dsched.round_robin_chooser()))
    out = leanrun.run_driver([sc.encode([t for t, _, _ in modelled_steps(fr)])])[0]
    print("outcome", fr.outcome, "subs", fr.subs, "regF", fr.regF, "regL", fr.regL, "live", fr.live, "errors", fr.errors)
    print("model agrees:", compare(sc, fr, out))
    return 0
