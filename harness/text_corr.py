"""Layer-5 correspondences: `stripped()` (C32), the source-line classifier and lock leaks of thread-safe
attributes over a statement grammar (C28), `Event.dumps/loads` (C26), sequential signal registry (C25)."""
import os, sys, json, random, re, importlib, types, math
import leanrun, dsched, charts
from charts import mhsm, Event, signals
import miros.event as mevent
import miros.thread_safe_attributes as mtsa

VERIF = os.path.dirname(os.path.dirname(os.path.abspath(__file__)))

# ---------------------------------------------------------------------------
# C32 stripped()
# ---------------------------------------------------------------------------
LINEBREAKS = ["\n", "\r", "\r\n", "\x0b", "\x0c", "\x1c", "\x1e", "\x85", " "]
SPACES = [" ", "\t", "  ", "\xa0", " ", " \t "]
NAMECHARS = "abcXYZ_09 []->():.#é"


def py_stripped(s):
    with mhsm.stripped(s) as r:
        return r


def encode_strip(s):
    return "strip %d %s" % (len(s), " ".join(str(ord(c)) for c in s))


def decode_strip(out):
    toks = out.split(" ")
    kind = toks[0]
    nums = [int(x) for x in toks[1:] if x != ""]
    if kind == "S":
        n = nums[0]
        return "".join(chr(c) for c in nums[1:1 + n])
    k = nums[0]
    pos = 1
    lines = []
    for _ in range(k):
        n = nums[pos]
        lines.append("".join(chr(c) for c in nums[pos + 1:pos + 1 + n]))
        pos += 1 + n
    return lines


def gen_trace(rng, nlines):
    import calendar

    def ts():
        # every valid calendar date and time of day, biased to the ends of each field's range
        edge = rng.random() < 0.4
        y = rng.choice([1, 999, 1000, 1999, 2000, 2024, 2026, 9999]) if edge else rng.randint(1, 9999)
        mo = rng.choice([1, 9, 10, 12]) if edge else rng.randint(1, 12)
        last = calendar.monthrange(y, mo)[1]
        d = rng.choice([1, 9, 10, 19, 20, 28, last, last, last - 1]) if edge else rng.randint(1, last)
        h = rng.choice([0, 9, 10, 19, 20, 23]) if edge else rng.randint(0, 23)
        mi = rng.choice([0, 9, 10, 59]) if edge else rng.randint(0, 59)
        sec = rng.choice([0, 9, 10, 59]) if edge else rng.randint(0, 59)
        us = rng.choice([0, 1, 999999, 100000]) if edge else rng.randint(0, 999999)
        return "%04d-%02d-%02d %02d:%02d:%02d.%06d" % (y, mo, d, h, mi, sec, us)
    word = lambda: "".join(rng.choice("abcdefXYZ_0123456789") for _ in range(rng.randint(1, 8)))

    def chart_name():
        r = rng.random()
        if r < 0.8:
            return word()
        if r < 0.9:
            # digits, dashes, colons and dots of OTHER scripts / widths: not a timestamp
            return "".join(rng.choice("\u0664\u0662\uff14\uff12\u0be7\u0e51\u0e52\u06f4\uff1a\uff0e\u2010\u2212\u00b2\u2460") for _ in range(rng.randint(1, 5)))
        return rng.choice(["caf\u00e9", "unit 7", "a-b", "v1.2", "12:30", "x:y", "\u00e9\u00e8", "\u4e2d\u6587", "n\u00b0 5"])
    bodies = ["[%s] e->%s() %s->%s" % (chart_name(), rng.choice(["start_at", word()]), word(), word()) for _ in range(nlines)]
    return bodies, ["[%s] %s" % (ts(), b) for b in bodies]


def explore_strip(run, n_random):
    rng = run.rng
    inputs = []
    metas = []
    # (a) traces as miros produces them, perturbed by blank lines / surrounding whitespace / other line breaks
    for _ in range(n_random):
        n = rng.randint(1, 6)
        bodies, lines = gen_trace(rng, n)
        t1 = "\n" + "\n".join(lines) + "\n"
        parts = []
        for l in lines:
            parts.append(rng.choice(["", "", " ", "\t", "   "]) + l + rng.choice(["", "", " ", "  \t"]))
            if rng.random() < 0.3:
                parts.append(rng.choice(["", "   ", "\t"]))
        # (a log may have passed through other hands: every line boundary str.splitlines knows separates two records)
        sep = rng.choice(["\n", "\n", "\r\n", "\n\n", "\r", "\x0b", "\x0c", "\x1c", "\x1d", "\x1e", "\x85", "\u2028", "\u2029", "\r\r"])
        t2 = rng.choice(["", "\n", " \n"]) + sep.join(parts) + rng.choice(["", "\n", "\n\n"])
        for t in (t1, t2):
            inputs.append(t)
            metas.append(("trace", bodies))
        # a difference INSIDE a line (one more blank between the timestamp and the rest of one line) is not "whitespace around lines":
        # it must survive the stripping
        if n >= 2:
            j = rng.randrange(n)
            cut = lines[j].index("] ") + 2
            inner = list(lines)
            inner[j] = lines[j][:cut] + rng.choice([" ", "  "]) + lines[j][cut:]
            inputs.append("\n".join(inner) + "\n")
            metas.append(("trace-inner-blank", (bodies, j, len(inner[j]) - len(lines[j]))))
        # the same trace kept WITHOUT its timestamps (a stored specification, stripped again when it is compared): lines whose
        # chart name is not made of the timestamp's own characters are left as they are
        if n >= 2 and all(re.search(r"^\[[^\]]*[^0-9\-:. \]][^\]]*\]", b) for b in bodies):
            inputs.append("\n".join(bodies) + "\n")
            metas.append(("trace", bodies))
            run.count("strip input: trace without timestamps")
    # (b) arbitrary strings around the regex's corner cases
    frag = ["[", "]", "] ", " ", "2017-11-05 15:17:39.424492", "x", "\n", "\r", "\t", "[1]", "[1] ", "[1] a", "  [12:3] b c", "[a] z", "[1]  ",
            "[1] \n", "[] x", "[1-2.3:4 5] [n] e->A() s->t", "\x0b", " ", "é"]
    for _ in range(n_random):
        s = "".join(rng.choice(frag) for _ in range(rng.randint(0, 7)))
        inputs.append(s)
        metas.append(("fragment", None))
    outs = leanrun.run_driver([encode_strip(s) for s in inputs])
    for s, (kind, bodies), mo in zip(inputs, metas, outs):
        real = py_stripped(s)
        model = decode_strip(mo)
        run.traces_validated += 1
        run.count("strip input: " + kind)
        cj = {"what": "strip", "input": s}
        if real != model:
            run.disagree("stripped()", cj, model, real)
        if kind == "trace-inner-blank":
            bodies0, j, extra = bodies
            want = list(bodies0)
            want[j] = " " * extra + bodies0[j]
            if real != want:
                run.violate("C32/inner-difference-lost", "line %d of a %d-line trace has %d more blank(s) between its timestamp and the rest than the "
                            "original: stripped() returned %r, so the two traces %s" % (j, len(bodies0), extra, real,
                                                                                        "compare equal" if real == bodies0 else "differ otherwise"), cj)
            run.case(cj, nontrivial=True)
            continue
        if kind == "trace" and isinstance(real, list) and len(real) >= 2 and rng.random() < 0.3:
            # the caller edits the list it was given (drops the start line, sorts ...), then the same text is stripped again
            del real[0]
            real.reverse()
            again = py_stripped(s)
            run.count("strip input: same text stripped again after the first result was edited")
            if again != model:
                run.violate("C32/result-depends-on-earlier-calls", "the same %d-line trace stripped a second time, after the caller had edited the "
                            "list the first call returned, gives %r; the first time %r" % (len(model), again, model), cj)
            real = again
        if kind == "trace":
            if len(bodies) >= 2 and real != bodies:
                run.violate("C32/multi-line", "stripped() of a %d-line trace returned %r, expected the bodies %r" % (len(bodies), real, bodies), cj)
        run.case(cj, nontrivial=kind == "trace")
    # (c) the single-line form: stripped the same way?
    for probe, key in (("[2017-11-05 15:17:39.424492] [c] e->A() s->t  ", "C32/single-line-trailing-whitespace"),
                       ("\t[2017-11-05 15:17:39.424492] [c] e->A() s->t", "C32/single-line-leading-tab")):
        real = py_stripped(probe)
        multi = py_stripped(probe + "\n" + probe)
        run.count("single-line probe")
        cj = {"what": "strip", "input": probe}
        if isinstance(multi, list) and real != multi[0]:
            run.violate(key, "a single line is stripped to %r but the same line inside a multi-line trace to %r" % (real, multi[0]), cj)
        run.case(cj, nontrivial=True)


# ---------------------------------------------------------------------------
# C28 statement grammar
# ---------------------------------------------------------------------------
BIN = ["+", "-", "*", "<<"]
CMP = ["<", "<=", ">", ">=", "==", "!="]
AUG = ["+=", "-=", "*=", "//=", "<<=", "**=", "&="]


def gen_expr(rng, depth, must_attr=False):
    if depth == 0 or rng.random() < 0.35:
        r = rng.random()
        if must_attr or r < 0.45:
            return ("attr",)
        if r < 0.75:
            return ("var", rng.randint(0, 2))
        return ("num", rng.randint(0, 9))
    r = rng.random()
    if r < 0.4:
        return ("bin", rng.randrange(len(BIN) - 1), gen_expr(rng, depth - 1, must_attr), gen_expr(rng, depth - 1))
    if r < 0.7:
        return ("cmp", rng.randrange(len(CMP)), gen_expr(rng, depth - 1, must_attr), gen_expr(rng, depth - 1))
    if r < 0.85:
        return ("call", gen_expr(rng, depth - 1, must_attr))
    return ("index", gen_expr(rng, depth - 1, must_attr))


def render_expr(e):
    k = e[0]
    if k == "attr":
        return "o.x"
    if k == "var":
        return "v%d" % e[1]
    if k == "num":
        return str(e[1])
    if k == "bin":
        return "(%s %s %s)" % (render_expr(e[2]), BIN[e[1]], render_expr(e[3]))
    if k == "cmp":
        return "(%s %s %s)" % (render_expr(e[2]), CMP[e[1]], render_expr(e[3]))
    if k == "call":
        return "f(%s)" % render_expr(e[1])
    return "d[%s]" % render_expr(e[1])


def enc_expr(e):
    k = e[0]
    if k == "attr":
        return [0]
    if k == "var":
        return [1, e[1]]
    if k == "num":
        return [2, e[1]]
    if k == "bin":
        return [3, e[1]] + enc_expr(e[2]) + enc_expr(e[3])
    if k == "cmp":
        return [4, e[1]] + enc_expr(e[2]) + enc_expr(e[3])
    if k == "call":
        return [5] + enc_expr(e[1])
    return [6] + enc_expr(e[1])


def render_target(t):
    return {"attr": "o.x", "var": "v%d" % t[1] if len(t) > 1 else "", "item": "d['k%d']" % t[1] if len(t) > 1 else ""}[t[0]]


def enc_target(t):
    return [0] if t[0] == "attr" else ([1, t[1]] if t[0] == "var" else [2, t[1]])


def gen_stmt(rng):
    r = rng.random()
    if r < 0.2:
        s = ("expr", gen_expr(rng, 2, must_attr=True))
    elif r < 0.45:
        t = rng.choice([("attr",), ("var", rng.randint(0, 2)), ("item", rng.randint(0, 1))])
        s = ("assign", t, gen_expr(rng, 2, must_attr=(t[0] != "attr")))
    elif r < 0.75:
        t = rng.choice([("attr",), ("attr",), ("var", rng.randint(0, 2)), ("item", rng.randint(0, 1))])
        s = ("aug", t, rng.randrange(len(AUG)), gen_expr(rng, 1, must_attr=(t[0] != "attr")))
    else:
        s = ("ifPass", gen_expr(rng, 2, must_attr=True))
    if rng.random() < 0.2:
        s = ("comment", s, rng.random() < 0.5)
    return s


def render_stmt(s):
    k = s[0]
    if k == "expr":
        return render_expr(s[1])
    if k == "assign":
        return "%s = %s" % (render_target(s[1]), render_expr(s[2]))
    if k == "aug":
        return "%s %s %s" % (render_target(s[1]), AUG[s[2]], render_expr(s[3]))
    if k == "ifPass":
        return "if %s: pass" % render_expr(s[1])
    return render_stmt(s[1]) + ("  # total += 1" if s[2] else "  # note")


def enc_stmt(s):
    k = s[0]
    if k == "expr":
        return [0] + enc_expr(s[1])
    if k == "assign":
        return [1] + enc_target(s[1]) + enc_expr(s[2])
    if k == "aug":
        return [2] + enc_target(s[1]) + [s[2]] + enc_expr(s[3])
    if k == "ifPass":
        return [3] + enc_expr(s[1])
    return [4] + enc_stmt(s[1]) + [1 if s[2] else 0]


def stmt_class(s):
    """finding key class of a leaking statement"""
    while s[0] == "comment":
        if s[2]:
            return "op-assign-in-trailing-comment"
        s = s[1]
    line = render_stmt(s)
    if s[0] == "aug" and s[1][0] != "attr":
        return "augmented-assignment-to-another-target"
    if s[0] == "aug" and s[1][0] == "attr":
        # the recorded finding is about `o.x OP= <something that reads o.x again>`; a plain `o.x OP= v` must not leak
        return "attribute-read-again-in-its-own-augmented-assignment" if "o.x" in render_stmt(("expr", s[3])) else "plain-augmented-assignment"
    if "<=" in line or ">=" in line:
        return "comparison-le-ge"
    return "other"


def mtsa_pattern():
    """the operator pattern of the library as it is now (falls back to the pinned text)"""
    import inspect
    try:
        m = re.search(r"re\.search\(r?'([^']+)'", inspect.getsource(mtsa.ThreadSafeAttribute.is_not_atomic))
        return m.group(1)
    except Exception:  # noqa
        return r"([+-/*@^&|<>%]=)|([/<>*]{2}=)"


def explore_stmts(run, n_random):
    rng = run.rng
    stmts = [gen_stmt(rng) for _ in range(n_random)]
    # the documented forms first
    stmts = [("expr", ("attr",)), ("assign", ("attr",), ("num", 5)), ("aug", ("attr",), 0, ("num", 1)),
             ("ifPass", ("cmp", 1, ("attr",), ("num", 10))), ("aug", ("var", 0), 0, ("attr",)),
             ("aug", ("attr",), 0, ("attr",))] + stmts
    src = ["def f(a):\n    return 3\n"]
    for i, s in enumerate(stmts):
        src.append("def s%d(o, v0, v1, v2, d):\n    %s\n" % (i, render_stmt(s)))
    path = os.path.join(VERIF, "harness", "_gen_stmts_%d.py" % os.getpid())
    with open(path, "w") as f:
        f.write("\n".join(src))
    try:
        spec = importlib.util.spec_from_file_location("_gen_stmts", path)
        mod = importlib.util.module_from_spec(spec)
        spec.loader.exec_module(mod)
        outs = leanrun.run_driver(["leak " + " ".join(str(t) for t in enc_stmt(s)) for s in stmts])
        obs = {}
        for i, (s, mo) in enumerate(zip(stmts, outs)):
            leak_m, gets_m, sets_m, line_m = mo.split(" ", 3)

            class Obj(metaclass=mtsa.MetaThreadSafeAttributes):
                _attributes = ["x"]
            o = Obj()
            desc = Obj.__dict__["x"]
            desc._lock = dsched.DRLock()
            calls = {"get": 0, "set": 0}
            d = {0: 7, 1: 8, 2: 9, 3: 1, 4: 2, 5: 3, 6: 4, 7: 5, 8: 6, 9: 0, "k0": 1, "k1": 2}
            for k in range(0, 4000):
                d.setdefault(k, k)
            err = None
            try:
                getattr(mod, "s%d" % i)(o, 1, 2, 3, d)
            except Exception as ex:       # e.g. KeyError in d[...]: the statement did not complete normally
                err = type(ex).__name__
            leak = desc._lock._count
            line = render_stmt(s)
            cj = {"what": "stmt", "stmt": line}
            run.traces_validated += 1
            if line != line_m:
                run.disagree("statement renderer", cj, line_m, line)
            elif err is None and str(leak) != leak_m:
                run.disagree("lock acquisitions held after a statement", cj, "leak=%s (gets %s, sets %s)" % (leak_m, gets_m, sets_m), "leak=%d" % leak)
            obs[i] = (leak, err)
            if err is None:
                run.count("stmt class %s, leak %d" % (stmt_class(s) if leak else "no-leak", min(leak, 2)))
                if leak:
                    run.violate("C28/lock-leak/%s" % stmt_class(s),
                                "after the statement `%s` the calling thread still holds the attribute's lock (%d acquisition(s))" % (line, leak), cj)
            run.case(cj, nontrivial=True)
        # the same statements laid out over two physical lines (backslash continuation, or a break inside brackets): the
        # descriptor looks at the physical line that holds the attribute access; the property is about the statement
        op_re = re.compile(mtsa_pattern())
        plain = [s for s in stmts if s[0] != "comment"]
        lay_src = ["def f(a):\n    return 3\n"]
        lay = []
        for k in range(min(len(plain), max(40, n_random // 3))):
            s = rng.choice(plain)
            line = render_stmt(s)
            cuts = [i for i, ch in enumerate(line) if ch == " "]
            if not cuts:
                continue
            c = rng.choice(cuts)
            depth = line[:c].count("(") + line[:c].count("[") - line[:c].count(")") - line[:c].count("]")
            first, second = line[:c], line[c + 1:]
            if depth > 0 and rng.random() < 0.5:
                text = "%s\n        %s" % (first, second)
                form = "break inside brackets"
            else:
                text = "%s \\\n        %s" % (first, second)
                form = "backslash continuation"
            lay.append((s, text, form, [first, second]))
            lay_src.append("def m%d(o, v0, v1, v2, d):\n    %s\n" % (len(lay) - 1, text))
        # the same statements reading the attribute through the class (`type(o).x`): a read like any other
        for k in range(min(len(plain), max(30, n_random // 4))):
            s = rng.choice(plain)
            if s[0] in ("assign", "aug") and s[1][0] == "attr":
                continue
            text = render_stmt(s).replace("o.x", "type(o).x")
            lay.append((s, text, "read through the class", [text]))
            lay_src.append("def m%d(o, v0, v1, v2, d):\n    %s\n" % (len(lay) - 1, text))
        path4 = os.path.join(VERIF, "harness", "_gen_layout_%d.py" % os.getpid())
        with open(path4, "w") as fh:
            fh.write("\n".join(lay_src))
        try:
            spec4 = importlib.util.spec_from_file_location("_gen_layout", path4)
            mod4 = importlib.util.module_from_spec(spec4)
            spec4.loader.exec_module(mod4)
            for i, (s, text, form, phys) in enumerate(lay):
                class Obj5(metaclass=mtsa.MetaThreadSafeAttributes):
                    _attributes = ["x"]
                o5 = Obj5()
                desc5 = Obj5.__dict__["x"]
                desc5._lock = dsched.DRLock()
                d = {0: 7, 1: 8, 2: 9, 3: 1, 4: 2, 5: 3, 6: 4, 7: 5, 8: 6, 9: 0, "k0": 1, "k1": 2}
                for kk in range(0, 4000):
                    d.setdefault(kk, kk)
                err = None
                try:
                    getattr(mod4, "m%d" % i)(o5, 1, 2, 3, d)
                except Exception as ex:  # noqa
                    err = type(ex).__name__
                leak = desc5._lock._count
                cj = {"what": "stmt-layout", "stmt": text}
                run.traces_validated += 1
                same_line = any(("o.x" in ph or "type(o).x" in ph) and op_re.search(ph) for ph in phys)
                run.count("%s (%s), operator %s" % ("statement" if form == "read through the class" else "two-line statement", form,
                                                     "on the attribute's line" if same_line else "not on the attribute's line"))
                if err is None and leak:
                    cls = stmt_class(s) if same_line else "operator-only-on-another-physical-line"
                    run.violate("C28/lock-leak/%s" % cls, "after the statement `%s` (%s) the calling thread still holds the attribute's "
                                "lock (%d acquisition(s))" % (text.replace("\n", "\\n"), form, leak), cj)
                run.case(cj, nontrivial=True)
        finally:
            try:
                os.unlink(path4)
            except OSError:
                pass
        # the attribute read inside a hook of the user's class (a __getattr__ fallback, a property, a descriptor of its own) whose
        # RESULT is then used on a line with operators: the read happened on the hook's own line
        path5 = os.path.join(VERIF, "harness", "_gen_hooks_%d.py" % os.getpid())
        hook_stmts = ["v0 += o.derived", "if o.prop >= 3: pass", "v0 = o.derived <= 5", "d['k0'] -= o.prop", "v0 = o.derived", "v1 *= o.viaget",
                      "if o.viaget <= o.prop: pass", "v0 = f(o.derived) << 2", "v2 **= o.prop", "v0 = (o.viaget, o.derived)"]
        src5 = ["import miros.thread_safe_attributes as mtsa\n\n\ndef f(a):\n    return 3\n\n",
                "class Celsius:\n    def __get__(self, instance, owner):\n        return instance.x - 273\n\n",
                "def make():\n"
                "    class Hooked(metaclass=mtsa.MetaThreadSafeAttributes):\n        _attributes = ['x']\n        viaget = Celsius()\n\n"
                "        def __getattr__(self, name):\n            if name == 'derived':\n                return self.x * 2\n            raise AttributeError(name)\n\n"
                "        @property\n        def prop(self):\n            return self.x + 1\n    return Hooked\n\n"]
        # a class that guards its attribute names (a `__setattr__` that refuses names it does not know: a typo guard, a class sealed
        # after __init__): assignments to its thread-safe attributes are ordinary statements
        sealed_stmts = ["o.x = 5", "o.x += 1", "o.y = o.x", "o.x = v0", "o.y -= 2", "o.x, o.y = 1, 2"]
        src5.append("def make_sealed():\n"
                    "    class Sealed(metaclass=mtsa.MetaThreadSafeAttributes):\n        _attributes = ['x', 'y']\n        _known = ('x', 'y', 'note')\n\n"
                    "        def __setattr__(self, name, value):\n            if name not in self._known:\n"
                    "                raise AttributeError('%s has no attribute %r' % (type(self).__name__, name))\n"
                    "            object.__setattr__(self, name, value)\n    return Sealed\n\n")
        # a class and a subclass that does not declare `_attributes` again, an instance of each in one statement (the other one read
        # inside a called function, on a plain line of its own)
        family_stmts = ["b.x += reading(d)", "d.x += reading(b)", "b.x = reading(d) + 1", "d.x -= reading(b) * 2"]
        src5.append("def make_family():\n"
                    "    class Base(metaclass=mtsa.MetaThreadSafeAttributes):\n        _attributes = ['x']\n\n"
                    "    class Derived(Base):\n        pass\n    return Base, Derived\n\n"
                    "def reading(other):\n    value = other.x\n    return value\n\n")
        for k, t in enumerate(family_stmts):
            src5.append("def y%d(b, d, b2):\n    %s\n" % (k, t))
        for k, t in enumerate(sealed_stmts):
            src5.append("def z%d(o, v0, v1, v2, d):\n    %s\n" % (k, t))
        for k, t in enumerate(hook_stmts):
            src5.append("def h%d(o, v0, v1, v2, d):\n    %s\n" % (k, t))
        with open(path5, "w") as fh:
            fh.write("\n".join(src5))
        try:
            spec5 = importlib.util.spec_from_file_location("_gen_hooks", path5)
            mod5 = importlib.util.module_from_spec(spec5)
            spec5.loader.exec_module(mod5)
            import inspect as _inspect
            for k, t in enumerate(family_stmts):
                Base, Derived = mod5.make_family()
                b, d, b2 = Base(), Derived(), Base()
                descs = {}
                for cls in (Base, Derived):
                    dsc = _inspect.getattr_static(cls, "x")
                    if id(dsc) not in descs:
                        dsc._lock = dsched.DRLock()
                        descs[id(dsc)] = (cls.__name__, dsc)
                err = None
                try:
                    b.x, d.x, b2.x = 1, 2, 3
                    getattr(mod5, "y%d" % k)(b, d, b2)
                except Exception as ex:  # noqa
                    err = "%s: %s" % (type(ex).__name__, ex)
                held = {nm: dsc._lock._count for nm, dsc in descs.values() if dsc._lock._count}
                cj = {"what": "stmt-family", "stmt": t}
                run.count("statement using an instance of a class and of its subclass (no second `_attributes`)")
                run.traces_validated += 1
                if err:
                    run.violate("C28/statement-error/base-and-subclass", "`%s` (b: Base, d: Derived(Base) without its own _attributes; reading(o) reads o.x on a "
                                "line of its own) raised %s" % (t, err), cj)
                elif held:
                    run.violate("C28/lock-leak/base-and-subclass", "after `%s` (b: Base, d: Derived(Base) without its own _attributes; reading(o) reads o.x on a "
                                "line of its own) the calling thread still holds the lock of x (%s)" % (t, held), cj)
                run.case(cj, nontrivial=True)
            for k, t in enumerate(sealed_stmts):
                Sealed = mod5.make_sealed()
                o7 = Sealed()
                locks7 = {}
                for nm in ("x", "y"):
                    Sealed.__dict__[nm]._lock = locks7[nm] = dsched.DRLock()
                err = None
                try:
                    getattr(mod5, "z%d" % k)(o7, 1, 2, 3, {})          # (for some of them the first assignment the instance ever sees)
                    o7.note = "free-form"
                except Exception as ex:  # noqa
                    err = "%s: %s" % (type(ex).__name__, ex)
                held = {nm: l._count for nm, l in locks7.items() if l._count}
                cj = {"what": "stmt-sealed", "stmt": t}
                run.count("statement on a class whose __setattr__ refuses unknown names")
                run.traces_validated += 1
                if held:
                    run.violate("C28/lock-leak/class-guards-its-attribute-names", "after `%s` on an instance of a class whose __setattr__ refuses names it "
                                "does not know%s the calling thread still holds the lock of %s" % (t, " (the statement raised %s)" % err if err else "", held), cj)
                elif err:
                    run.violate("C28/statement-error/class-guards-its-attribute-names", "`%s` on an instance of a class whose __setattr__ refuses names it "
                                "does not know raised %s" % (t, err), cj)
                run.case(cj, nontrivial=True)
            for k, t in enumerate(hook_stmts):
                Hooked = mod5.make()            # a class (and descriptor) of its own for every statement
                o6 = Hooked()
                desc6 = Hooked.__dict__["x"]
                desc6._lock = dsched.DRLock()
                dd = {"k0": 1, "k1": 2}
                err = None
                try:
                    o6.x = 4
                    getattr(mod5, "h%d" % k)(o6, 1, 2, 3, dd)
                except Exception as ex:  # noqa
                    err = "%s: %s" % (type(ex).__name__, ex)
                cj = {"what": "stmt-hook", "stmt": t}
                run.count("statement using a value a user hook derives from the attribute")
                run.traces_validated += 1
                if err:
                    run.violate("C28/hook-read-error", "`%s` (derived / prop / viaget read o.x inside a hook of the class) raised %s" % (t, err), cj)
                elif desc6._lock._count:
                    run.violate("C28/lock-leak/read-inside-a-hook", "after `%s` - where the attribute is read inside a __getattr__ / property / descriptor "
                                "hook of the user's class, on the hook's own line - the calling thread still holds the attribute's lock (%d "
                                "acquisition(s))" % (t, desc6._lock._count), cj)
                run.case(cj, nontrivial=True)
        finally:
            try:
                os.unlink(path5)
            except OSError:
                pass
        # the same attribute used by ANOTHER statement at the same file and line (an edited and reloaded module):
        # the verdict on a statement must come from the text that is running now
        import linecache
        clean = [i for i in obs if obs[i] == (0, None)]

        path2 = os.path.join(VERIF, "harness", "_gen_reload_%d.py" % os.getpid())
        try:
            for k in range(min(60, len(clean) * 2)):
                ia, ib = rng.choice(clean), rng.choice(clean)

                class Obj3(metaclass=mtsa.MetaThreadSafeAttributes):
                    _attributes = ["x"]
                o3 = Obj3()
                desc3 = Obj3.__dict__["x"]
                for turn, i in enumerate((ia, ib)):
                    with open(path2, "w") as f:
                        f.write("def f(a):\n    return 3\n\ndef g(o, v0, v1, v2, d):\n    %s\n" % render_stmt(stmts[i]))
                    os.utime(path2, (1000000 + 10 * k + turn, 1000000 + 10 * k + turn))
                    linecache.checkcache(path2)
                    spec2 = importlib.util.spec_from_file_location("_gen_reload", path2)
                    mod2 = importlib.util.module_from_spec(spec2)
                    spec2.loader.exec_module(mod2)
                    desc3._lock = dsched.DRLock()
                    d = {0: 7, 1: 8, 2: 9, 3: 1, 4: 2, 5: 3, 6: 4, 7: 5, 8: 6, 9: 0, "k0": 1, "k1": 2}
                    for kk in range(0, 4000):
                        d.setdefault(kk, kk)
                    err = None
                    try:
                        mod2.g(o3, 1, 2, 3, d)
                    except Exception as ex:  # noqa
                        err = type(ex).__name__
                    leak = desc3._lock._count
                    if err is None and leak:
                        cj = {"what": "stmt-reload", "first": render_stmt(stmts[ia]), "second": render_stmt(stmts[ib]), "turn": turn}
                        run.violate("C28/lock-leak/same-location-other-statement",
                                    "`%s` releases the lock when run from a fresh module, but run at the same file and line where `%s` ran "
                                    "before (edited + reloaded module) it leaves the lock held %d time(s)"
                                    % (render_stmt(stmts[i]), render_stmt(stmts[ia]), leak), cj)
                run.count("same file and line, other statement")
                run.case({"what": "stmt-reload", "first": render_stmt(stmts[ia]), "second": render_stmt(stmts[ib])}, nontrivial=ia != ib)
        finally:
            try:
                os.unlink(path2)
            except OSError:
                pass
        # a statement on one attribute whose right-hand side calls a function that reads ANOTHER thread-safe attribute (on
        # another source line): what the statement leaves held must not depend on that
        templates = ["o.x += %s", "o.x -= %s + 1", "o.x = %s", "v0 = o.x + %s", "o.x *= (%s)", "o.x += %s * %s"]
        path3 = os.path.join(VERIF, "harness", "_gen_two_attr_%d.py" % os.getpid())
        src3 = ["def f(a):\n    return 3\n", "def g(o):\n    r = o.y\n    return r\n"]
        for k, t in enumerate(templates):
            for tag, call in (("g", "g(o)"), ("f", "f(3)")):
                src3.append("def s%d%s(o, v0):\n    %s\n" % (k, tag, t.replace("%s", call)))
        with open(path3, "w") as fh:
            fh.write("\n".join(src3))
        try:
            spec3 = importlib.util.spec_from_file_location("_gen_two_attr", path3)
            mod3 = importlib.util.module_from_spec(spec3)
            spec3.loader.exec_module(mod3)
            for k, t in enumerate(templates):
                held = {}
                for tag in ("f", "g"):
                    class Obj4(metaclass=mtsa.MetaThreadSafeAttributes):
                        _attributes = ["x", "y"]
                    o4 = Obj4()
                    dx, dy = Obj4.__dict__["x"], Obj4.__dict__["y"]
                    dx._lock, dy._lock = dsched.DRLock(), dsched.DRLock()
                    o4.y = 2
                    try:
                        getattr(mod3, "s%d%s" % (k, tag))(o4, 1)
                        held[tag] = (dx._lock._count, dy._lock._count)
                    except Exception as ex:  # noqa
                        held[tag] = "raised %s" % type(ex).__name__
                cj = {"what": "stmt-two-attributes", "stmt": t.replace("%s", "g(o)")}
                run.count("statement whose right-hand side reads another thread-safe attribute in a called function")
                if held["g"] != held["f"]:
                    run.violate("C28/lock-leak/other-attribute-in-called-function",
                                "`%s` (g reads o.y on its own line) leaves (x, y) locks held %s; with a function that touches no attribute: %s"
                                % (t.replace("%s", "g(o)"), held["g"], held["f"]), cj)
                run.case(cj, nontrivial=True)
        finally:
            try:
                os.unlink(path3)
            except OSError:
                pass
        # the documented lock form
        import tsa_stmts

        class Obj2(metaclass=mtsa.MetaThreadSafeAttributes):
            _attributes = ["x"]
        o2 = Obj2()
        desc2 = Obj2.__dict__["x"]
        desc2._lock = dsched.DRLock()
        lk = tsa_stmts.do_lock_form(o2)
        run.count("lock form")
        if desc2._lock._count != 0 or lk is not desc2._lock:
            run.violate("C28/lock-form", "`_, _lock = o.x` left the lock held %d time(s) / returned %r" % (desc2._lock._count, lk), {"what": "stmt", "stmt": "_, _lock = o.x"})
    finally:
        try:
            os.unlink(path)
        except OSError:
            pass


# ---------------------------------------------------------------------------
# C26 dumps / loads
# ---------------------------------------------------------------------------

def text_shaped_string(rng, depth):
    """a str whose content is itself some data notation (a JSON text, a Python repr, a number, a keyword, a date, markup...):
    a payload is data, whatever it looks like"""
    k = rng.randrange(11)
    if k >= 9:
        # a notation's keyword inside ordinary text, next to the punctuation it has in that notation
        kw = rng.choice(["NaN", "Infinity", "-Infinity", "null", "true", "false", "None", "undefined"])
        return rng.choice(["", "x", "sensor 3:", "limits", "a,"]) + rng.choice([" ", "[", ": ", ", ", "(", "{", "\""]) + kw + \
            rng.choice([",", "]", "}", " ", ")", ", retrying", "\"", ""]) + rng.choice(["", " x", "]", "}"])
    if k == 0:
        return json.dumps(gen_json(rng, max(0, depth - 1)))
    if k == 1:
        return json.dumps(rng.choice([[], {}, [1, 2, 3], {"a": 1}, [[]], {"signal_name": "A", "payload": None}, "s", [None]]))
    if k == 2:
        return repr(gen_json(rng, max(0, depth - 1)))
    if k == 3:
        return rng.choice(["null", "true", "false", "None", "True", "NaN", "Infinity", "-Infinity", "undefined", "nan"])
    if k == 4:
        return rng.choice(["0", "-1", "1e5", "0x10", "1.0", "007", "1_000", str(rng.randint(-10 ** 9, 10 ** 9)), str(rng.random())])
    if k == 5:
        return rng.choice(["2024-02-29", "2024-02-29T12:00:00Z", "12:00:00.000001", "1970-01-01 00:00:00"])
    if k == 6:
        return rng.choice([" []", "[] ", "\n{}", "{\"a\": 1}\n", "\t1", "[1, 2", "{not json}", "[", "{", "\"quoted\"", "'single'", "b'bytes'"])
    if k == 7:
        return rng.choice(["<a>", "&amp;", "%s", "{0}", "${x}", "\\u0041", "\\n", "\x00", "\x7f", "\u2028", "\ufeff[]"])
    return json.dumps(json.dumps(gen_json(rng, max(0, depth - 1))))     # serialised twice


def gen_json(rng, depth):
    r = rng.random()
    if r < 0.12:
        return text_shaped_string(rng, depth)
    if depth == 0 or r < 0.45:
        return rng.choice([None, True, False, 0, -1, 2 ** 70, -0.0, 1.5, 1e-7, 1e300, "", "a", "é \"\\\n", "x" * 40, rng.randint(-10 ** 6, 10 ** 6),
                           rng.random()])
    if r < 0.75:
        if rng.random() < 0.15:
            # the SAME container object reachable more than once (a row repeated, one list filed under two keys): not circular
            shared = rng.choice([[1, 2], {}, [], {"k": [0]}, [gen_json(rng, 0)]])
            return rng.choice([[shared] * rng.randint(2, 3), {"last": shared, "best": shared}, [shared, 7, shared], {"a": [shared], "b": {"c": shared}}])
        return [gen_json(rng, depth - 1) for _ in range(rng.randint(0, 4))]
    if rng.random() < 0.12:
        # a dict that looks like a serialised event itself
        return {"signal_name": rng.choice(["B", "INNER_%d" % rng.randint(0, 99), 7, None]), "payload": gen_json(rng, depth - 1)}
    return {(rng.choice(["k", "", "key é", "a\"b", "0"]) if rng.random() < 0.85 else text_shaped_string(rng, 0)) + str(i): gen_json(rng, depth - 1)
            for i in range(rng.randint(0, 3))}


def json_equal(a, b):
    if isinstance(a, float) and isinstance(b, float):
        return a == b and math.copysign(1, a) == math.copysign(1, b)
    if type(a) != type(b):
        return False
    if isinstance(a, list):
        return len(a) == len(b) and all(json_equal(x, y) for x, y in zip(a, b))
    if isinstance(a, dict):
        return a.keys() == b.keys() and all(json_equal(a[k], b[k]) for k in a)
    return a == b


ODD_UNICODE_NAMES = ["CAFE\u0301", "\u212b", "\u2126", "q\u0307\u0323", "A\u030a", "\ufb01", "\u1e9b\u0323", "\u0041\u0300\u0301"]
ATTR_LIKE_NAMES = ["keys", "items", "values", "get", "pop", "update", "clear", "copy", "append", "setdefault", "popitem",
                   "move_to_end", "highest_inner_signal", "name_for_signal", "is_inner_signal", "__doc__", "__class__", "__dict__",
                   "__len__", "fromkeys"]


def jsonc_tokens(v):
    """prefix token encoding of a JSON value for the `jsonc` driver family; None if the value is outside the model (floats)"""
    if v is None:
        return [0]
    if v is True or v is False:
        return [1, int(v)]
    if isinstance(v, int):
        ds = [int(c) for c in str(abs(v))]
        return [2, int(v < 0), len(ds)] + ds
    if isinstance(v, float):
        return None
    if isinstance(v, str):
        return [3, len(v)] + [ord(c) for c in v]
    if isinstance(v, list):
        out = [4, len(v)]
        for x in v:
            t = jsonc_tokens(x)
            if t is None:
                return None
            out += t
        return out
    if isinstance(v, dict):
        out = [5, len(v)]
        for k, x in v.items():
            t = jsonc_tokens(x)
            if t is None or not isinstance(k, str):
                return None
            out += [len(k)] + [ord(c) for c in k] + t
        return out
    return None


def jsonc_parse(toks):
    """inverse of jsonc_tokens on the driver's output"""
    pos = [0]

    def nxt():
        pos[0] += 1
        return toks[pos[0] - 1]

    def val():
        k = nxt()
        if k == 0:
            return None
        if k == 1:
            return bool(nxt())
        if k == 2:
            neg, n = nxt(), nxt()
            v = int("".join(str(nxt()) for _ in range(n)))
            return -v if neg else v
        if k == 3:
            n = nxt()
            return "".join(chr(nxt()) for _ in range(n))
        if k == 4:
            n = nxt()
            return [val() for _ in range(n)]
        n = nxt()
        d = {}
        for _ in range(n):
            ln = nxt()
            key = "".join(chr(nxt()) for _ in range(ln))
            d[key] = val()
        return d
    return val()


def explore_json_codec(run, n_random):
    """tie of the Lean JSON codec (`Text.JsonCodec`, family `jsonc`): the text json.dumps writes for a generated value (floats excluded)
    equals the model's, code point by code point; the model's decoder reads that text back to what json.loads gives; also texts
    with extra whitespace and escapes the encoder never writes (\\/, upper-case hex)"""
    rng = run.rng
    vals = []
    for _ in range(n_random):
        v = gen_json(rng, 3)
        if rng.random() < 0.3:
            v = {"signal_name": rng.choice(["A", "\u00e9", "x\"y", "\ud83d", "\U0001f600"]), "payload": v}
        if jsonc_tokens(v) is not None:
            vals.append(v)
    lines = []
    for v in vals:
        t = jsonc_tokens(v)
        lines.append("jsonc enc %d %s" % (len(t), " ".join(map(str, t))))
        text = json.dumps(v)
        lines.append("jsonc dec %d %s" % (len(text), " ".join(str(ord(c)) for c in text)))
    # hand-written texts: whitespace, optional escapes, pairs of surrogate escapes, things that must be rejected
    extra = [' {"a" :\t[1 , 2 ]\n} ', '"\\/"', '"\\u00E9"', '"\\ud83d\\ude00"', '"\\ud83d"', '"\\ude00\\ud83d"', '[1,]', '{"a":1,"a":2}', '01', '-', '"\x01"',
             '1.5', '1e3', 'nul', '[', '"abc', '{"a" 1}', '', '  ', '-0', '[[[[]]]]', '{"":{}}', '"\\x"', 'true false']
    for text in extra:
        lines.append("jsonc dec %d %s" % (len(text), " ".join(str(ord(c)) for c in text)))
    outs = leanrun.run_driver(lines)
    for k, v in enumerate(vals):
        cj = {"what": "json-codec", "value": repr(v)[:300]}
        run.traces_validated += 1
        run.count("json codec: value encoded by the model and by json.dumps")
        text = json.dumps(v)
        mtext = "".join(chr(int(x)) for x in outs[2 * k].split()) if outs[2 * k].strip() else ""
        if mtext != text:
            run.disagree("json.dumps text", cj, mtext[:300], text[:300])
        back = outs[2 * k + 1].strip()
        try:
            mval = None if back == "none" else jsonc_parse([int(x) for x in back.split()])
            ok = back != "none" and json_equal(mval, json.loads(text))
        except Exception:  # noqa
            ok = False
        if not ok:
            run.disagree("json.loads of a json.dumps text", cj, back[:300], repr(json.loads(text))[:300])
        run.case(cj, nontrivial=True)
    for j, text in enumerate(extra):
        back = outs[2 * len(vals) + j].strip()
        cj = {"what": "json-codec", "text": text}
        run.traces_validated += 1
        run.count("json codec: hand-written text decoded")
        try:
            real = json.loads(text)
            real_ok = jsonc_tokens(real) is not None
        except ValueError:
            real, real_ok = None, False
        if not real_ok:
            if back != "none":
                run.disagree("json.loads of a text outside the model / malformed", cj, back[:200], "rejected or outside the model (floats)")
        else:
            try:
                mval = None if back == "none" else jsonc_parse([int(x) for x in back.split()])
                ok = back != "none" and json_equal(mval, real)
            except Exception:  # noqa
                ok = False
            if not ok:
                run.disagree("json.loads of a hand-written text", cj, back[:200], repr(real)[:200])
        run.case(cj, nontrivial=True)


def explore_json(run, n_random):
    rng = run.rng
    for k in range(n_random):
        name = rng.choice(["A", "B", "ENTRY_SIGNAL", "x y", "é", "N%d" % rng.randint(0, 10 ** 9), "NEW_%d_%d" % (run.seed, rng.randint(0, 10 ** 9)),
                           "with\"quote", "back\\slash"])
        if rng.random() < 0.25:
            # names that are also attributes of the registry object (an OrderedDict subclass)
            name = rng.choice(ATTR_LIKE_NAMES)
            run.count("signal name that is also an attribute of the registry object")
        elif rng.random() < 0.15:
            # legal text that is not in a Unicode normal form (decomposed / compatibility characters, marks out of order)
            name = rng.choice(ODD_UNICODE_NAMES)
            run.count("signal name that is not NFC / NFKC normalised")
        elif rng.random() < 0.1:
            name = text_shaped_string(rng, 1)[:60] or "A"
            run.count("signal name that is itself some data notation")
        payload = gen_json(rng, 3)
        known_before = name in mevent.signals
        cj = {"what": "json", "name": name, "payload": repr(payload)[:200]}
        try:
            e = Event(signal=name, payload=payload)
            text = Event.dumps(e)
            back = Event.loads(text)
        except Exception as ex:  # noqa
            run.violate("C26/exception", "Event(signal=%r) / dumps / loads raised %s: %s" % (name, type(ex).__name__, ex), cj)
            run.case(cj, nontrivial=True)
            continue
        run.traces_validated += 1
        run.count("payload " + type(payload).__name__)
        if isinstance(payload, str) and len(payload) > 1 and payload[0] in "[{\"":
            run.count("payload is a str holding bracketed / quoted text")
        if back.signal_name != name:
            run.violate("C26/name", "loads(dumps(e)).signal_name is %r, expected %r" % (back.signal_name, name), cj)
        if not json_equal(back.payload, payload):
            run.violate("C26/payload", "payload %r came back as %r" % (payload, back.payload), cj)
        if back.signal != mevent.signals[name] or back.signal != e.signal:
            run.violate("C26/number", "signal number %r, the registry says %r" % (back.signal, mevent.signals[name]), cj)
        if isinstance(payload, (list, dict)) and rng.random() < 0.5:
            # the program keeps the event, changes its payload in place and sends it again
            import copy
            if isinstance(payload, list):
                payload.append(gen_json(rng, 1))
                if payload and isinstance(payload[0], list):
                    payload[0].append(7)
            else:
                payload["added %d" % k] = gen_json(rng, 1)
            now = copy.deepcopy(e.payload)
            try:
                again = Event.loads(Event.dumps(e))
                run.count("same event dumped again after its payload was changed in place")
                if not json_equal(again.payload, now) or again.signal_name != name:
                    run.violate("C26/payload/changed-in-place", "an event dumped, its payload changed in place, dumped again: loads gives %r, the "
                                "event holds %r" % (again.payload, now), cj)
            except Exception as ex:  # noqa
                run.violate("C26/exception", "dumps / loads after an in-place change raised %s: %s" % (type(ex).__name__, ex), cj)
        run.case(cj, nontrivial=True)
    # a str made of surrogate code units (legal in Python, not well-formed Unicode): the JSON text merges a high/low pair
    sur = "\ud83d\ude00"
    try:
        back = Event.loads(Event.dumps(Event(signal=sur, payload=sur)))
        if back.signal_name != sur or back.payload != sur:
            run.violate("C26/name/surrogate-pair-code-units", "a str holding a high and a low surrogate as two code units (len 2) comes back as %r "
                        "(len %d) as signal name and %r as payload: the JSON text joins the pair into one code point"
                        % (back.signal_name, len(back.signal_name), back.payload), {"what": "json", "name": "surrogate pair"})
    except Exception as ex:  # noqa
        run.violate("C26/exception", "a str of surrogate code units: %s: %s" % (type(ex).__name__, ex), {"what": "json", "name": "surrogate pair"})
    run.case({"what": "json", "name": "surrogate pair"}, nontrivial=True)
    # a name this process has never seen arrives over the wire
    fresh = "WIRE_%d_%d" % (run.seed, rng.randint(0, 10 ** 9))
    text = json.dumps({"signal_name": fresh, "payload": [1, {"a": None}]})
    n_before = len(mevent.signals)
    back = Event.loads(text)
    if back.signal_name != fresh or back.signal != n_before + 1 or mevent.signals[fresh] != back.signal:
        run.violate("C26/new-name", "loading an event with an unknown name gave %r/%r" % (back.signal_name, back.signal), {"what": "json", "name": fresh})
    run.case({"what": "json", "name": fresh}, nontrivial=True)


def replay(case):
    cc = case.get("case", case)
    if cc.get("what") == "strip":
        print("impl :", repr(py_stripped(cc["input"])))
        print("model:", repr(decode_strip(leanrun.run_driver([encode_strip(cc["input"])])[0])))
    else:
        print(cc)
    return 0
