"""Singleton (C30), signal registry (C25), thread-safe attributes (C27, C29):
stream A — the real functions run under dsched with yield points at the lock operations, the schedule
           replayed on the Lean model (macro steps) and the outcomes compared;
stream B — the same functions run with a yield point at every bytecode (sys.settrace, f_trace_opcodes)
           under random schedules, checked by the property oracle (this is the failing-input search)."""
import os, sys, json, random, itertools, threading
import leanrun, dsched
import miros.singleton as msing
import miros.event as mevent
import miros.thread_safe_attributes as mtsa
import tsa_stmts


def class_codes(cls, *extra):
    """code objects of every function defined in the class body (and the functions nested in them): a helper method a change
    introduces is interleaved bytecode by bytecode as well"""
    import types
    out = []

    def add(code):
        out.append(code)
        for c in code.co_consts:
            if isinstance(c, types.CodeType):
                add(c)
    for v in list(vars(cls).values()) + list(extra):
        cands = [v]
        if isinstance(v, property):
            cands = [v.fget, v.fset, v.fdel]           # accessors of a property are functions of the class too
        for v1 in cands:
            f = getattr(v1, "__func__", v1)
            f = getattr(f, "__wrapped__", f)
            if isinstance(f, types.FunctionType):
                add(f.__code__)
    return out


def run_threads(fns, chooser, tracer_codes=None, max_steps=20000, raw=False):
    """run callables as managed threads; returns (schedule of thread indices, errors, sched)
    raw: the threads are started below the `threading` module (it does not count or list them)"""
    sched = dsched.Sched(chooser, max_steps=max_steps)
    sched.raw_threads = raw
    dsched.Sched.current = sched
    if tracer_codes:
        sched.tracer = dsched.trace_opcodes(tracer_codes)
    try:
        for i, f in enumerate(fns):
            sched.spawn(f, (), name="T%d" % i)
        outcome = sched.run()
        errors = ["%s: %s: %s" % (t.name, type(t.error).__name__, t.error) for t in sched.threads if t.error is not None]
        order = [int(e[0][1:]) for e in sched.trace if e[0].startswith("T")]
        return order, errors, outcome, [t.finished for t in sched.threads]
    finally:
        sched.shutdown()


# ---------------------------------------------------------------------------
# C30 singleton
# ---------------------------------------------------------------------------

def singleton_run(n, chooser, opcode=False, raw=False):
    saved = msing.RLock if hasattr(msing, "RLock") else None
    if saved is not None:
        msing.RLock = dsched.DRLock
    try:
        counter = itertools.count()

        class K:
            def __init__(self):
                self.oid = next(counter)
        dec = msing.SingletonDecorator(K)
        rets = [None] * n

        def mk(i):
            def f():
                rets[i] = dec()
            return f
        codes = class_codes(msing.SingletonDecorator) if opcode else None
        order, errors, outcome, fin = run_threads([mk(i) for i in range(n)], chooser, codes, raw=raw)
        return order, errors, [r.oid if r is not None else None for r in rets], next(counter)
    finally:
        if saved is not None:
            msing.RLock = saved


def explore_singleton(run, n_random):
    rng = run.rng
    done = []
    for _ in range(n_random):
        n = rng.randint(2, 4)
        seed = rng.randrange(1 << 30)
        order, errors, rets, nobj = singleton_run(n, dsched.random_chooser(random.Random(seed)))
        cj = {"what": "singleton", "threads": n, "seed": seed, "schedule": order}
        done.append((n, order, rets, nobj, cj))
        singleton_oracle(run, rets, errors, cj)
        run.case(cj, nontrivial=True)
    outs = leanrun.run_driver(["single 9 %d %d %s" % (n, len(o), " ".join(map(str, o))) for n, o, _, _, _ in done])
    for (n, order, rets, nobj, cj), mo in zip(done, outs):
        run.traces_validated += 1
        final = mo.split(" || ")[1]
        want = "rets=%s objects=%d" % (",".join("-" if r is None else str(r) for r in rets), nobj)
        if "DISABLED" in mo or final != want:
            run.disagree("SingletonDecorator under a lock-granularity schedule", cj, mo, want)
    # stream B: every bytecode is a yield point
    for _ in range(n_random):
        n = rng.randint(2, 3)
        seed = rng.randrange(1 << 30)
        raw = rng.random() < 0.4        # requesters that are not `threading.Thread`s (started below the threading module)
        r2 = random.Random(seed)
        chooser = dsched.pct_chooser(r2, depth=r2.randint(1, 3), est_len=80) if r2.random() < 0.5 else dsched.random_chooser(r2)
        order, errors, rets, nobj = singleton_run(n, chooser, opcode=True, raw=raw)
        cj = {"what": "singleton-opcode", "threads": n, "seed": seed, "schedule": order, "raw_threads": raw}
        run.count("singleton opcode-level runs" + (" (requesters unknown to the threading module)" if raw else ""))
        singleton_oracle(run, rets, errors, cj)
        run.case(cj, nontrivial=True)


def singleton_failing_run(n, bad, chooser):
    """as singleton_run at bytecode level, but the requests of the threads in `bad` pass an argument the constructor refuses
    (TypeError): they must get their exception, the others one shared, fully initialised object"""
    saved = msing.RLock if hasattr(msing, "RLock") else None
    if saved is not None:
        msing.RLock = dsched.DRLock
    try:
        counter = itertools.count()

        class K:
            def __init__(self, arg=None):
                if arg is not None:
                    raise TypeError("K takes no argument")
                self.oid = next(counter)
                self.ready = True
        dec = msing.SingletonDecorator(K)
        rets = [None] * n

        def mk(i):
            def f():
                try:
                    rets[i] = dec("fifo") if i in bad else dec()
                except TypeError:
                    rets[i] = "refused"
            return f
        order, errors, outcome, fin = run_threads([mk(i) for i in range(n)], chooser, class_codes(msing.SingletonDecorator))
        out = []
        for r in rets:
            out.append(r if r == "refused" or r is None else (getattr(r, "oid", "no-oid"), bool(getattr(r, "ready", False))))
        later = dec()
        return order, errors, out, (getattr(later, "oid", "no-oid"), bool(getattr(later, "ready", False)))
    finally:
        if saved is not None:
            msing.RLock = saved


def explore_singleton_failing(run, n_random):
    rng = run.rng
    for _ in range(n_random):
        n = rng.randint(2, 3)
        bad = set(rng.sample(range(n), rng.randint(1, n - 1)))
        seed = rng.randrange(1 << 30)
        r2 = random.Random(seed)
        # (priority schedules with one or two change points let one thread run far ahead before another takes a few steps)
        chooser = dsched.pct_chooser(r2, depth=r2.randint(1, 3), est_len=90) if r2.random() < 0.7 else dsched.random_chooser(r2)
        order, errors, rets, later = singleton_failing_run(n, bad, chooser)
        cj = {"what": "singleton-failing", "threads": n, "bad": sorted(bad), "seed": seed, "schedule": order}
        run.count("singleton: first requests of which some are refused by the constructor")
        run.traces_validated += 1
        if errors:
            run.violate("C30/error", "a thread failed: %s" % errors[:2], cj)
        # (a request with the refused argument that arrives when the object exists is simply handed the object)
        good = [r for i, r in enumerate(rets) if i not in bad] + [rets[i] for i in bad if rets[i] != "refused"]
        if any(r is None or r == "refused" or r != later or not r[1] for r in good):
            run.violate("C30/two-instances", "some first requests were refused by the constructor (TypeError) while others ran: the accepted "
                        "requests got %s (object number, initialised?), a later request gets %s" % (good, later), cj)
        run.case(cj, nontrivial=True)


def singleton_nested_run(direct, chooser):
    """two different singletons whose constructors both ask for a third one (as ActiveFabric and the instrumentation writer both ask
    for the run event), first requested at the same time from two threads - or one of them racing a direct first request of the third"""
    saved = msing.RLock if hasattr(msing, "RLock") else None
    if saved is not None:
        msing.RLock = dsched.DRLock
    try:
        counter = itertools.count()

        class I:
            def __init__(self):
                self.oid = next(counter)
        Inner = msing.SingletonDecorator(I)

        class A:
            def __init__(self):
                self.inner = Inner()

        class B:
            def __init__(self):
                self.inner = Inner()
        DA, DB = msing.SingletonDecorator(A), msing.SingletonDecorator(B)
        rets = [None, None]

        def t0():
            rets[0] = DA().inner

        def t1():
            rets[1] = Inner() if direct else DB().inner
        order, errors, outcome, fin = run_threads([t0, t1], chooser, class_codes(msing.SingletonDecorator))
        later = Inner()
        return order, errors, [getattr(r, "oid", None) for r in rets], later.oid, next(counter), all(fin)
    finally:
        if saved is not None:
            msing.RLock = saved


def explore_singleton_nested(run, n_random):
    rng = run.rng
    for _ in range(n_random):
        direct = rng.random() < 0.4
        seed = rng.randrange(1 << 30)
        r2 = random.Random(seed)
        chooser = dsched.pct_chooser(r2, depth=r2.randint(1, 3), est_len=120) if r2.random() < 0.6 else dsched.random_chooser(r2)
        order, errors, rets, later, made, fin = singleton_nested_run(direct, chooser)
        cj = {"what": "singleton-nested", "direct": direct, "seed": seed, "schedule": order}
        run.count("singleton first requested from inside the constructors of two other singletons" + (" and directly" if direct else ""))
        run.traces_validated += 1
        if errors or not fin:
            run.violate("C30/error", "nested first requests: %s" % (errors[:2] or "a request never returned"), cj)
        elif made != 1 or rets[0] != later or rets[1] != later:
            run.violate("C30/two-instances", "a singleton first requested from inside the constructors of two other singletons%s at the same time: "
                        "%d objects were constructed, the requesters hold objects %s, a later request gets %s"
                        % (" and directly" if direct else "", made, rets, later), cj)
        run.case(cj, nontrivial=True)


def explore_singleton_kinds(run):
    """sequential: the decorated class may be anything - instances that are falsy (empty containers, __bool__ False, __len__ 0),
    that compare equal to None-like values, that take constructor arguments: every request returns the first object"""
    class Falsy:
        def __bool__(self):
            return False

    class Empty(dict):
        pass

    class Sized:
        def __len__(self):
            return 0

    class Plain:
        pass
    for cls in (Falsy, Empty, Sized, Plain):
        dec = msing.SingletonDecorator(cls)
        objs = [dec() for _ in range(3)]
        if isinstance(objs[0], dict):
            objs[0]["k"] = 1
            objs[0].clear()            # emptied in place: still the one shared instance
            objs.append(dec())
        cj = {"what": "singleton-kinds", "class": cls.__name__}
        run.count("singleton of a class whose instances are %s" % ("falsy" if cls is not Plain else "ordinary"))
        run.traces_validated += 1
        if any(o is not objs[0] for o in objs):
            run.violate("C30/second-instance", "SingletonDecorator(%s): %d requests returned %d different objects (instances of this class are "
                        "falsy)" % (cls.__name__, len(objs), len(set(id(o) for o in objs))), cj)
        run.case(cj, nontrivial=True)


def singleton_oracle(run, rets, errors, cj):
    if errors:
        run.violate("C30/error", "a thread failed: %s" % errors[:2], cj)
    if len(set(rets)) != 1 or rets[0] is None:
        run.violate("C30/two-instances", "concurrent first requests returned different instances: %s" % rets, cj)


# ---------------------------------------------------------------------------
# C25 registry
# ---------------------------------------------------------------------------

def registry_run(progs, chooser, opcode=False, via="append"):
    saved = getattr(mevent, "_registry_lock", None)
    if saved is not None:
        mevent._registry_lock = dsched.DRLock()
    try:
        reg = mevent.SignalSource()
        before = dict(reg)

        handed = []       # (name, number handed back to the caller of an attribute access)

        asked = []        # (argument, answer) of is_inner_signal calls about the ten built-in signals

        def mk(p):
            def f():
                for name in p:
                    if name < 0:
                        # a question, while others register: is this built-in signal (by name / by number) an inner signal?
                        key = list(before)[(-name - 1) % 10]
                        arg = key if name % 2 else before[key]
                        asked.append((arg, reg.is_inner_signal(arg)))
                    elif via == "append":
                        reg.append("N%d" % name)
                    else:
                        handed.append(("N%d" % name, getattr(reg, "N%d" % name)))
            return f
        codes = [c for c in class_codes(mevent.SignalSource) if c.co_name not in ("__init__",)] if opcode else None
        order, errors, outcome, fin = run_threads([mk(p) for p in progs], chooser, codes)
        reg._vp_handed = handed
        reg._vp_asked = asked
        return order, errors, before, dict(reg), reg
    finally:
        if saved is not None:
            mevent._registry_lock = saved


def registry_oracle(run, before, after, reg, errors, cj, names):
    if errors:
        run.violate("C25/error", "a thread failed while registering signals: %s" % errors[:2], cj)
    vals = list(after.values())
    if len(set(vals)) != len(vals):
        dup = [k for k in after if vals.count(after[k]) > 1]
        run.violate("C25/same-number-twice", "signal names %s share a number: %s" % (dup, {k: after[k] for k in dup}), cj)
    for k, v in before.items():
        if after.get(k) != v:
            run.violate("C25/number-changed", "signal %s changed from %s to %s" % (k, v, after.get(k)), cj)
    for n in names:
        k = "N%d" % n
        if k not in after or not isinstance(after[k], int) or after[k] <= 0:
            run.violate("C25/not-registered", "signal %s has no positive number after registration" % k, cj)
    if len(set(vals)) == len(vals):
        for k, v in after.items():
            if reg.name_for_signal(v) != k:
                run.violate("C25/name_for_signal", "name_for_signal(%s) = %s, expected %s" % (v, reg.name_for_signal(v), k), cj)
                break
    for nm, num in getattr(reg, "_vp_handed", []):
        if after.get(nm) != num:
            run.violate("C25/attribute-access-number", "the attribute access signals.%s handed back %r, the registry binds that name to %r"
                        % (nm, num, after.get(nm)), cj)
            break
    for arg, ans in getattr(reg, "_vp_asked", []):
        if ans is not True:
            run.violate("C25/inner-signals", "is_inner_signal(%r) answered %r while other threads were registering new names: it is one of the ten "
                        "built-in signals" % (arg, ans), cj)
            break
    inner = [k for k in after if reg.is_inner_signal(k)]
    if inner != list(before)[:10]:
        run.violate("C25/inner-signals", "inner signals are %s" % inner, cj)


def explore_registry_readers(run, n_random):
    """C25 with readers racing readers: two or three threads look the same freshly registered numbers up (name_for_signal) at the
    same time, every bytecode a scheduling point; afterwards more names are registered: every name - the later ones too - is still
    bound to its own number in both directions"""
    rng = run.rng
    for _ in range(n_random):
        saved = getattr(mevent, "_registry_lock", None)
        if saved is not None:
            mevent._registry_lock = dsched.DRLock()
        try:
            reg = mevent.SignalSource()
            first = ["R%d" % k for k in range(rng.randint(1, 3))]
            for nm in first:
                reg.append(nm)
            nums = [reg[nm] for nm in first]
            answers = []

            def reader():
                for num in nums:
                    try:
                        answers.append((num, reg.name_for_signal(num)))
                    except Exception as ex:  # noqa
                        answers.append((num, "%s: %s" % (type(ex).__name__, ex)))
            codes = [c for c in class_codes(mevent.SignalSource) if c.co_name not in ("__init__",)]
            seed = rng.randrange(1 << 30)
            r2 = random.Random(seed)
            chooser = dsched.pct_chooser(r2, depth=r2.randint(1, 3), est_len=150) if r2.random() < 0.6 else dsched.random_chooser(r2)
            order, errors, outcome, fin = run_threads([reader] * rng.randint(2, 3), chooser, codes)
            later = ["L%d" % k for k in range(2)]
            for nm in later:
                reg.append(nm)
            bad = [(num, got) for num, got in answers if got != first[nums.index(num)]]
            for nm in first + later:
                try:
                    back = reg.name_for_signal(reg[nm])
                except Exception as ex:  # noqa
                    back = "%s: %s" % (type(ex).__name__, ex)
                if back != nm:
                    bad.append((reg[nm], back))
        finally:
            if saved is not None:
                mevent._registry_lock = saved
        cj = {"what": "registry-readers", "names": first, "seed": seed, "schedule": order}
        run.count("look-ups of the same fresh numbers racing each other (bytecode level)")
        run.traces_validated += 1
        if errors:
            run.violate("C25/error", "threads looking numbers up failed: %s" % errors[:2], cj)
        elif bad:
            run.violate("C25/name_for_signal", "after %d threads looked up the numbers of %s at the same time and two more names were registered: "
                        "name_for_signal(%s) = %r" % (len(fin), first, bad[0][0], bad[0][1]), cj)
        run.case(cj, nontrivial=True)


def explore_registry(run, n_random):
    rng = run.rng
    done = []
    for _ in range(n_random):
        nt = rng.randint(1, 3)
        pool = list(range(1, 7))
        progs = [[rng.choice(pool) for _ in range(rng.randint(1, 4))] for _ in range(nt)]
        seed = rng.randrange(1 << 30)
        via = "append"      # (attribute access takes the lock only for unknown names; it is exercised in the opcode stream)
        order, errors, before, after, reg = registry_run(progs, dsched.random_chooser(random.Random(seed)), via=via)
        cj = {"what": "registry", "progs": progs, "seed": seed, "via": via, "schedule": order}
        registry_oracle(run, before, after, reg, errors, cj, set(x for p in progs for x in p))
        done.append((progs, order, before, after, cj))
        run.case(cj, nontrivial=nt >= 2)
    lines = []
    for progs, order, before, after, cj in done:
        toks = ["reg", 9, len(before)] + [x for i, (k, v) in enumerate(before.items()) for x in (1000 + i, v)]
        toks += [len(progs)]
        for p in progs:
            toks += [len(p)] + p
        toks += [len(order)] + order
        lines.append(" ".join(str(t) for t in toks))
    outs = leanrun.run_driver(lines)
    for (progs, order, before, after, cj), mo in zip(done, outs):
        run.traces_validated += 1
        names = list(before)
        want = ",".join("%d:%d" % ((1000 + names.index(k)) if k in before else int(k[1:]), v) for k, v in after.items())
        final = mo.split(" || ")[1]
        if "DISABLED" in mo or final != "dict=" + want:
            run.disagree("SignalSource.append under a lock-granularity schedule", cj, mo, want)
    for _ in range(n_random):
        nt = rng.randint(2, 3)
        progs = [[rng.randint(1, 5) for _ in range(rng.randint(1, 2))] for _ in range(nt)]
        if rng.random() < 0.5:
            # one thread asks about built-in signals (the later ones in the table need the longer look) while the others register
            progs[0] = [-rng.randint(1, 20) for _ in range(rng.randint(1, 2))]
            run.count("is_inner_signal asked while names are being registered")
        seed = rng.randrange(1 << 30)
        via = rng.choice(["append", "attr"])
        order, errors, before, after, reg = registry_run(progs, dsched.random_chooser(random.Random(seed)), opcode=True, via=via)
        cj = {"what": "registry-opcode", "progs": progs, "seed": seed, "schedule": order, "via": via}
        run.count("registry opcode-level runs")
        registry_oracle(run, before, after, reg, errors, cj, set(x for p in progs for x in p if x > 0))
        run.case(cj, nontrivial=True)
    # lock-free readers racing registration: a number read from the registry is bound to its name for name_for_signal too
    for _ in range(n_random):
        saved = getattr(mevent, "_registry_lock", None)
        if saved is not None:
            mevent._registry_lock = dsched.DRLock()
        try:
            reg = mevent.SignalSource()
            names = ["N%d" % k for k in range(1, rng.randint(2, 4))]
            bad = []

            def writer():
                for nm in names:
                    reg.append(nm)

            def reader():
                for _ in range(8):
                    for nm in names:
                        dsched.cur().yield_point("reader.poll")      # a scheduling point of its own: it polls while the writer works
                        num = reg.get(nm)
                        if num is not None:
                            try:
                                back = reg.name_for_signal(num)
                            except Exception as ex:  # noqa
                                back = "%s: %s" % (type(ex).__name__, ex)
                            if back != nm:
                                bad.append((nm, num, back))
            codes = [c for c in class_codes(mevent.SignalSource) if c.co_name not in ("__init__",)]
            seed = rng.randrange(1 << 30)
            order, errors, outcome, fin = run_threads([writer, reader], dsched.random_chooser(random.Random(seed)), codes)
        finally:
            if saved is not None:
                mevent._registry_lock = saved
        cj = {"what": "registry-reader", "names": names, "seed": seed, "schedule": order}
        run.count("lock-free reader racing registration")
        if errors:
            run.violate("C25/error", "a thread failed: %s" % errors[:2], cj)
        if bad:
            run.violate("C25/name_for_signal", "while another thread registers %s: the registry gives %s the number %s, and name_for_signal(%s) "
                        "answers %r" % (names, bad[0][0], bad[0][1], bad[0][1], bad[0][2]), cj)
        run.case(cj, nontrivial=True)
    # Event construction racing registration (global registry; fresh names per run)
    for k in range(max(1, n_random // 4)):
        tag = "R%d_%d_" % (run.seed, rng.randrange(1 << 30))
        saved = getattr(mevent, "_registry_lock", None)
        if saved is not None:
            mevent._registry_lock = dsched.DRLock()
        try:
            made = []

            def a():
                for j in range(3):
                    made.append(mevent.Event(signal=tag + "A%d" % j))

            def b():
                for j in range(3):
                    made.append(mevent.Event(signal=mevent.signals.ENTRY_SIGNAL))
                    made.append(mevent.Event(signal=tag + "B%d" % j))
            codes = [mevent.Event.__init__.__code__, mevent.SignalSource.append.__code__]
            seed = rng.randrange(1 << 30)
            order, errors, outcome, fin = run_threads([a, b], dsched.random_chooser(random.Random(seed)), codes)
        finally:
            if saved is not None:
                mevent._registry_lock = saved
        cj = {"what": "event-construction-opcode", "seed": seed, "schedule": order}
        run.count("Event() vs registration opcode-level runs")
        if errors:
            run.violate("C25/event-construction-error", "constructing events while another thread registers signals failed: %s" % errors[:2], cj)
        for e in made:
            if mevent.signals[e.signal_name] != e.signal:
                run.violate("C25/event-number", "Event %s carries number %s, the registry says %s" % (e.signal_name, e.signal, mevent.signals[e.signal_name]), cj)
        nums = [mevent.signals[n] for n in mevent.signals if n.startswith(tag)]
        if len(set(nums)) != len(nums):
            run.violate("C25/same-number-twice", "names registered through Event() share numbers: %s" % nums, cj)
        run.case(cj, nontrivial=True)
    # a thread whose request the registry refuses (an unknown signal number, an unhashable name) goes on, and so do the others
    for k in range(max(1, n_random // 6)):
        tag = "X%d_%d_" % (run.seed, rng.randrange(1 << 30))
        saved = getattr(mevent, "_registry_lock", None)
        if saved is not None:
            mevent._registry_lock = dsched.DRLock()
        refused = []
        try:
            def a():
                for bad in (10 ** 9 + k, [tag], None):
                    try:
                        if isinstance(bad, list):
                            mevent.signals.append(bad)
                        else:
                            mevent.Event(signal=bad)
                        refused.append("accepted %r" % (bad,))
                    except Exception as ex:  # noqa
                        refused.append(type(ex).__name__)
                mevent.Event(signal=tag + "A")
                dsched.cur().yield_point("a.idle")              # stays alive while the others work

            def b():
                for j in range(2):
                    mevent.Event(signal=tag + "B%d" % j)
                getattr(mevent.signals, tag + "B_attr")
            seed = rng.randrange(1 << 30)
            order, errors, outcome, fin = run_threads([a, b], dsched.random_chooser(random.Random(seed)), None)
            held = mevent._registry_lock._count if saved is not None else 0
        finally:
            if saved is not None:
                mevent._registry_lock = saved
        cj = {"what": "registry-refusal", "seed": seed, "schedule": order}
        run.count("a refused registry request, then other threads register")
        if errors:
            run.violate("C25/event-construction-error", "after a refused request (%s): %s" % (refused, errors[:2]), cj)
        elif not all(fin) or held:
            run.violate("C25/registry-blocked-after-refusal", "a thread's requests were refused (%s) as they must be; afterwards another thread "
                        "registering names never finished (registry lock still held %d time(s))" % (refused, held), cj)
        run.case(cj, nontrivial=True)
    # names of every shape first used through attribute access on a fresh registry: each gets a number of its own, for good
    import collections
    shapes = ["__RESET__", "__x__", "__%d__" % rng.randrange(1000), "__private", "_tick", "trailing__", "__", "___", "_", "a.b", "1abc",
              "with space", "caf\u00e9", "X" * 300, "lower", "MiXed", "__init_subclass_hook__", "__custom_%d" % rng.randrange(1000),
              "__reset__", "__A", "A__", "__0__"]
    reg2 = mevent.SignalSource()
    plain_obj = collections.OrderedDict()
    got = {}
    cj = {"what": "names-first-used-through-attribute-access", "names": shapes}
    for nm in shapes:
        if hasattr(plain_obj, nm):
            continue                    # a real attribute of the registry object's class: the recorded C25 finding, probed elsewhere
        try:
            n1 = getattr(reg2, nm)
            n2 = getattr(reg2, nm)
        except Exception as ex:  # noqa
            run.violate("C25/attribute-access-error", "getattr(signals, %r) raised %s: %s" % (nm, type(ex).__name__, ex), cj)
            continue
        if not isinstance(n1, int) or n1 != n2 or reg2.get(nm) != n1:
            run.violate("C25/attribute-access-number", "getattr(signals, %r) gave %r, then %r; the registry holds %r" % (nm, n1, n2, reg2.get(nm)), cj)
            continue
        if n1 in got:
            run.violate("C25/same-number-twice", "names %r and %r, both first used through attribute access, share number %r" % (got[n1], nm, n1), cj)
        got[n1] = nm
        try:
            back = reg2.name_for_signal(n1)
        except Exception as ex:  # noqa
            back = "%s: %s" % (type(ex).__name__, ex)
        if back != nm:
            run.violate("C25/name_for_signal", "name_for_signal(%r) answers %r for the name %r registered through attribute access" % (n1, back, nm), cj)
    run.count("names of many shapes first used through attribute access")
    run.case(cj, nontrivial=True)
    # Event(signal=<name>) with names that are also attributes of the registry object
    import text_corr
    cj = {"what": "event-with-attribute-like-name"}
    seen = {}
    for nm in text_corr.ATTR_LIKE_NAMES:
        try:
            e = mevent.Event(signal=nm)
        except Exception as ex:  # noqa
            run.violate("C25/event-construction-error", "Event(signal=%r) raised %s: %s" % (nm, type(ex).__name__, ex), cj)
            continue
        if not isinstance(e.signal, int) or e.signal_name != nm or mevent.signals.get(nm) != e.signal:
            run.violate("C25/event-number", "Event(signal=%r) carries name %r and number %r; the registry has %r"
                        % (nm, e.signal_name, e.signal, mevent.signals.get(nm)), cj)
        elif e.signal in seen or mevent.signals.name_for_signal(e.signal) != nm:
            run.violate("C25/same-number-twice", "Event(signal=%r) got number %r, which belongs to %r"
                        % (nm, e.signal, seen.get(e.signal, mevent.signals.name_for_signal(e.signal))), cj)
        if isinstance(e.signal, int):
            seen[e.signal] = nm
    run.count("Event() with attribute-like names")
    run.case(cj, nontrivial=True)
    # a registry with several hundred names: Event(signal=<number>) for numbers that are equal to, but not the same int
    # object as, the registered value (computed, parsed, received over the wire)
    big = ["BIG_%d_%d" % (run.seed, k) for k in range(300)]
    numbers = {}
    for nm in big:
        numbers[nm] = mevent.Event(signal=nm).signal
    cj = {"what": "event-from-number-above-256"}
    for nm in rng.sample(big, 40) + big[-3:]:
        n = int(str(numbers[nm]))          # an equal int, not the registry's own object
        try:
            e = mevent.Event(signal=n)
            got = (e.signal, e.signal_name)
        except Exception as ex:  # noqa
            got = "%s: %s" % (type(ex).__name__, ex)
        if got != (numbers[nm], nm):
            run.violate("C25/event-from-number", "Event(signal=%d) (the number of %s, as a freshly computed int) gives %r" % (n, nm, got), cj)
            break
    run.count("Event(signal=number) with numbers above 256")
    run.case(cj, nontrivial=True)
    # attribute access of a name that is a dict method
    reg = mevent.SignalSource()
    cj = {"what": "reserved-attribute-name"}
    if not isinstance(getattr(reg, "items"), int):
        run.violate("C25/attribute-name-shadowed-by-dict-method",
                    "signals.items (and keys, values, get, pop, clear, …) is the OrderedDict method, not a signal number: such names "
                    "can not be registered through attribute access", cj)
    run.case(cj, nontrivial=True)


# ---------------------------------------------------------------------------
# C27 / C29 thread-safe attributes
# ---------------------------------------------------------------------------

def make_delegating_class():
    """instances forward unknown attribute names to a parent instance (a common wrapper / prototype pattern)"""
    class Obj(metaclass=mtsa.MetaThreadSafeAttributes):
        _attributes = ["x"]

        def __init__(self, parent=None):
            self.parent = parent

        def __getattr__(self, name):
            if name.startswith("__") or self.__dict__.get("parent") is None:
                raise AttributeError(name)
            return getattr(self.__dict__["parent"], name)
    return Obj


def make_falsy_class():
    """instances that are falsy (an empty container-like object)"""
    class Obj(metaclass=mtsa.MetaThreadSafeAttributes):
        _attributes = ["x"]

        def __len__(self):
            return 0
    return Obj


TSA_CLASS_SHAPES = ("body-number", "body-list", "body-none", "mixin-value", "subclass", "subclass-redeclares")


def make_tsa_class(by_value=False, shape=None):
    class Obj(metaclass=mtsa.MetaThreadSafeAttributes):
        _attributes = ["x"]
    if shape == "body-number":
        class Obj(metaclass=mtsa.MetaThreadSafeAttributes):  # noqa
            _attributes = ["x"]
            x = 3                     # written for the reader / the IDE: the metaclass replaces it
    elif shape == "body-list":
        class Obj(metaclass=mtsa.MetaThreadSafeAttributes):  # noqa
            _attributes = ["x"]
            x = []
    elif shape == "body-none":
        class Obj(metaclass=mtsa.MetaThreadSafeAttributes):  # noqa
            x = None
            _attributes = ["x"]
    elif shape == "mixin-value":
        class Defaults:
            x = 7

        class Obj(Defaults, metaclass=mtsa.MetaThreadSafeAttributes):  # noqa
            _attributes = ["x"]
    elif shape == "subclass":
        class Base(metaclass=mtsa.MetaThreadSafeAttributes):
            _attributes = ["x"]

        class Obj(Base):  # noqa
            pass
    elif shape == "subclass-redeclares":
        class Base(metaclass=mtsa.MetaThreadSafeAttributes):
            _attributes = ["x"]

        class Obj(Base):  # noqa
            _attributes = ["x", "y"]
    if by_value:
        # instances that compare (and hash) equal are still different objects with their own attribute values
        class Obj(metaclass=mtsa.MetaThreadSafeAttributes):  # noqa
            _attributes = ["x"]

            def __init__(self, key="k"):
                self.key = key

            def __eq__(self, other):
                return isinstance(other, type(self)) and other.key == self.key

            def __hash__(self):
                return hash(self.key)
    return Obj


KIND = {"read": 0, "assign": 1, "aug": 2, "aug2": 2, "augh": 2, "misread": 3, "classread": 0, "hasattr": 0}   # a look-up through the class is a read


def tsa_run(progs, chooser, opcode=False):
    with dsched.PatchedLocks(mtsa):        # locks the code creates at run time are scheduler-aware too
        return _tsa_run(progs, chooser, opcode)


STMTS = None          # the module holding the statements (None: harness/tsa_stmts.py as imported from its file)


def _tsa_run(progs, chooser, opcode=False):
    tsa_stmts = STMTS or globals()["tsa_stmts"]
    Obj = make_tsa_class()
    o = Obj()
    desc = Obj.__dict__["x"]
    if hasattr(desc, "_lock"):
        desc._lock = dsched.DRLock()

    def mk(p):
        def f():
            for kind, arg in p:
                if kind == "read":
                    tsa_stmts.do_read(o)
                elif kind == "classread":
                    tsa_stmts.do_class_read(o)
                elif kind == "hasattr":
                    tsa_stmts.do_hasattr(o)
                elif kind == "assign":
                    tsa_stmts.do_assign(o, arg)
                elif kind == "aug":
                    tsa_stmts.do_aug(o, arg)
                elif kind == "augh":
                    # the object reached through a mapping whose key holds a `#` (a hashtag, a CSS id): `holder['#tag'].x += d`
                    (tsa_stmts.do_aug_hashkey if arg % 2 else tsa_stmts.do_aug_hashkey2)({"#tag": o, "#id": o}, arg)
                elif kind == "aug2":
                    tsa_stmts.do_aug_two_lines(o, arg)       # the same statement continued on a second physical line
                else:
                    tsa_stmts.do_misread(o)
        return f
    codes = [c for c in class_codes(mtsa.ThreadSafeAttribute) if c.co_name not in ("__init__", "__set_name__")] if opcode else None
    order, errors, outcome, fin = run_threads([mk(p) for p in progs], chooser, codes)
    lock = getattr(desc, "_lock", None)
    if not isinstance(lock, dsched.DRLock):
        lock = dsched.DRLock()          # the descriptor keeps no lock of its own any more: nothing to report about it
    owner = None
    if lock._owner is not None:
        owner = int(lock._owner.name[1:]) if hasattr(lock._owner, "name") else -1
    # the value, read without going through the descriptor
    val = o.__dict__.get(getattr(desc, "_key", None), getattr(desc, "_value", 0)) if hasattr(desc, "_key") else desc._value
    return order, errors, val, owner, lock._count, all(fin), outcome


def serial_results(progs, v0=0):
    """all final values of serial executions (each statement atomic)"""
    stmts = [(i, j) for i, p in enumerate(progs) for j in range(len(p))]
    res = set()

    def rec(pos, v):
        if all(pos[i] == len(progs[i]) for i in range(len(progs))):
            res.add(v)
            return
        for i in range(len(progs)):
            if pos[i] < len(progs[i]):
                kind, arg = progs[i][pos[i]]
                nv = arg if kind == "assign" else (v + arg if kind in ("aug", "aug2", "augh") else v)
                pos[i] += 1
                rec(pos, nv)
                pos[i] -= 1
    rec([0] * len(progs), v0)
    return res


def gen_tsa_progs(rng, allow_misread=False):
    nt = rng.randint(2, 3)
    progs = []
    for _ in range(nt):
        p = []
        for _ in range(rng.randint(1, 3)):
            r = rng.random()
            if r < 0.06:
                p.append((rng.choice(["classread", "hasattr"]), 0))
            elif r < 0.3:
                p.append(("read", 0))
            elif r < 0.6:
                p.append(("assign", rng.randint(1, 9)))
            elif r < 0.95 or not allow_misread:
                # (0: an update whose result is the very object already stored)
                p.append((rng.choice(["aug", "aug", "aug", "aug2", "augh"]), rng.choice([0, 0, 1, 2, 3, 4, 5])))
            else:
                p.append(("misread", 0))
        progs.append(p)
    return progs


def explore_tsa(run, n_random):
    rng = run.rng
    done = []
    for _ in range(n_random):
        progs = gen_tsa_progs(rng)
        seed = rng.randrange(1 << 30)
        order, errors, val, owner, count, fin, outcome = tsa_run(progs, dsched.random_chooser(random.Random(seed)))
        cj = {"what": "tsa", "progs": progs, "seed": seed, "schedule": order}
        tsa_oracle(run, progs, errors, val, owner, count, fin, cj)
        done.append((progs, order, errors, val, owner, count, fin, cj))
        run.case(cj, nontrivial=True)
    lines = []
    for progs, order, *_ in done:
        toks = ["tsa", 9, 0, len(progs)]
        for p in progs:
            toks += [len(p)]
            for kind, arg in p:
                toks += [KIND[kind], arg]
        toks += [len(order)] + order
        lines.append(" ".join(str(t) for t in toks))
    outs = leanrun.run_driver(lines)
    for (progs, order, errors, val, owner, count, fin, cj), mo in zip(done, outs):
        run.traces_validated += 1
        want = "value=%d owner=%s count=%d err=%d done=%d" % (val, "-" if owner is None else owner, count, 1 if errors else 0, 1 if fin else 0)
        if "DISABLED" in mo or mo.split(" || ")[1] != want:
            run.disagree("ThreadSafeAttribute under a lock-granularity schedule", cj, mo, want)
    for _ in range(n_random):
        progs = gen_tsa_progs(rng)
        seed = rng.randrange(1 << 30)
        order, errors, val, owner, count, fin, outcome = tsa_run(progs, dsched.random_chooser(random.Random(seed)), opcode=True)
        cj = {"what": "tsa-opcode", "progs": progs, "seed": seed, "schedule": order}
        run.count("tsa opcode-level runs")
        tsa_oracle(run, progs, errors, val, owner, count, fin, cj)
        run.case(cj, nontrivial=True)


import contextlib


@contextlib.contextmanager
def zipped_stmts(tag):
    """the statements module imported from a zip archive on sys.path (built in a scratch directory, removed afterwards)"""
    import tempfile, zipfile, shutil, importlib
    global STMTS
    tmp = tempfile.mkdtemp(prefix="vp_zip_")
    modname = "tsa_stmts_zipped_%d_%d" % (os.getpid(), tag)
    zpath = os.path.join(tmp, "bundle.zip")
    try:
        with zipfile.ZipFile(zpath, "w") as z:
            z.writestr(modname + ".py", open(os.path.join(os.path.dirname(os.path.abspath(__file__)), "tsa_stmts.py")).read())
        sys.path.insert(0, zpath)
        importlib.invalidate_caches()
        STMTS = importlib.import_module(modname)
        yield STMTS
    finally:
        STMTS = None
        if zpath in sys.path:
            sys.path.remove(zpath)
        sys.modules.pop(modname, None)
        shutil.rmtree(tmp, ignore_errors=True)


def explore_tsa_loader_source(run, n_random):
    """C27 / C28 for statements whose source text is only reachable through the module's loader: the statements module imported
    from a zip archive on sys.path (a zipapp, an egg), never seen by linecache before (oracle only)"""
    import linecache
    rng = run.rng
    with zipped_stmts(rng.randrange(1 << 30)):
        for _ in range(n_random):
            progs = [[("aug", rng.randint(1, 9)) if rng.random() < 0.8 else ("assign", rng.randint(1, 9)) for _ in range(rng.randint(1, 2))]
                     for _ in range(rng.randint(2, 3))]
            seed = rng.randrange(1 << 30)
            linecache.clearcache()
            order, errors, val, owner, count, fin, outcome = tsa_run(progs, dsched.random_chooser(random.Random(seed)))
            cj = {"what": "tsa-zip", "progs": progs, "seed": seed, "schedule": order}
            run.count("statements in a module imported from a zip archive (source served by the loader)")
            run.traces_validated += 1
            tsa_oracle(run, progs, errors, val, owner, count, fin, cj)
            run.case(cj, nontrivial=True)


def tsa_oracle(run, progs, errors, val, owner, count, fin, cj):
    if errors:
        run.violate("C27/error", "a statement using the attribute failed: %s" % errors[:2], cj)
    if not fin:
        run.violate("C27/deadlock", "the threads did not all finish (lock owner %s, count %s)" % (owner, count), cj)
    elif not errors:
        ok = serial_results(progs)
        if val not in ok:
            run.violate("C27/lost-update", "final value %s is not the result of any serial order (possible: %s)" % (val, sorted(ok)), cj)
        if owner is not None or count:
            run.violate("C27/lock-held", "all statements finished but the lock is still held (owner %s, count %s)" % (owner, count), cj)


def explore_instances(run, n_random):
    """C29: sequences of instance creation, assignment and reads on a real class vs the value-store model"""
    rng = run.rng
    for _ in range(n_random):
        by_value = rng.random() < 0.4
        delegating = not by_value and rng.random() < 0.3
        falsy = not by_value and not delegating and rng.random() < 0.25
        shape = rng.choice(TSA_CLASS_SHAPES) if (not by_value and not delegating and not falsy and rng.random() < 0.35) else None
        Obj = make_delegating_class() if delegating else (make_falsy_class() if falsy else make_tsa_class(by_value, shape))
        if shape:
            run.count("class shape: " + shape)
        if falsy:
            run.count("instances are falsy (__len__ == 0)")
        run.count("instances %s" % ("forward unknown attributes to the first instance (__getattr__)" if delegating else
                                    ("compare by value (all equal)" if by_value else "compare by identity")))
        insts, model = [], {}
        ops = []
        for _ in range(rng.randint(3, 12)):
            r = rng.random()
            if r < 0.12 and insts and not delegating and not by_value:
                # a new instance made as a shallow copy of an existing one (copy.copy, or a clone that copies the instance dict):
                # it starts with the original's values and is independent from then on
                import copy
                i = rng.randrange(len(insts))
                how = rng.choice(["copy.copy", "vars-update"])
                if how == "copy.copy":
                    insts.append(copy.copy(insts[i]))
                else:
                    fresh = Obj()
                    vars(fresh).update(vars(insts[i]))
                    insts.append(fresh)
                model[len(insts) - 1] = model.get(i, 0)
                ops.append(("clone", how, i))
                run.count("instance made as a shallow copy of another (%s)" % how)
                continue
            if r < 0.3 or not insts:
                insts.append(Obj(insts[0]) if (delegating and insts) else Obj())
                ops.append(("new",))
                got = insts[-1].x
                if got != 0:
                    run.violate("C29/new-instance-not-zero", "a new instance%s reads %r (other instances were assigned before)"
                                % (" of a class of shape %s" % shape if shape else "", got), {"what": "instances", "ops": ops, "shape": shape})
                    break
            elif r < 0.55:
                i, v = rng.randrange(len(insts)), rng.randint(1, 99)
                insts[i].x = v
                model[i] = v
                ops.append(("set", i, v))
            elif r < 0.75 and len(insts) >= 2 and not delegating:
                # one statement (or two consecutive ones) that uses two instances
                i, j = rng.sample(range(len(insts)), 2)
                a, b = insts[i], insts[j]
                form = rng.choice(["b.x += a.x", "b.x = a.x + 1", "a.x, b.x = b.x, a.x", "total += a.x; b.x = v", "if a.x <= K: b.x = v",
                                   "b.x -= a.x", "a.x + b.x"])
                v = rng.randint(1, 99)
                va, vb = model.get(i, 0), model.get(j, 0)
                if form == "b.x += a.x":
                    tsa_stmts.two_aug_from(b, a)
                    model[j] = vb + va
                elif form == "b.x = a.x + 1":
                    tsa_stmts.two_assign_from(b, a)
                    model[j] = va + 1
                elif form == "a.x, b.x = b.x, a.x":
                    tsa_stmts.two_swap(a, b)
                    model[i], model[j] = vb, va
                elif form == "total += a.x; b.x = v":
                    tsa_stmts.two_accumulate_then_assign(a, b, v)
                    model[j] = v
                elif form == "if a.x <= K: b.x = v":
                    tsa_stmts.two_compare_then_assign(a, b, v)
                    model[j] = v
                elif form == "b.x -= a.x":
                    tsa_stmts.two_sub_from(b, a)
                    model[j] = vb - va
                else:
                    tsa_stmts.two_read_both(a, b)
                ops.append(("two", form, i, j, v))
                run.count("statement using two instances: " + form)
                for k in range(len(insts)):
                    got = insts[k].__dict__.get(getattr(Obj.__dict__["x"], "_key", None), None) if hasattr(Obj.__dict__["x"], "_key") else None
                    if got is None:
                        continue
                    if got != model.get(k, 0):
                        run.violate("C29/value-shared-between-instances", "after `%s` (a = instance %d, b = instance %d) instance %d holds %r, "
                                    "expected %r" % (form, i, j, k, got, model.get(k, 0)), {"what": "instances", "ops": ops, "shape": shape})
                        model[k] = got
            else:
                i = rng.randrange(len(insts))
                got = insts[i].x
                ops.append(("get", i))
                if got != model.get(i, 0):
                    run.violate("C29/value-shared-between-instances", "instance %d reads %r, the last value assigned to it is %r"
                                % (i, got, model.get(i, 0)), {"what": "instances", "ops": ops, "shape": shape})
        for k in range(len(insts)):
            got = insts[k].x
            if got != model.get(k, 0):
                run.violate("C29/value-shared-between-instances", "at the end instance %d reads %r, the value it should hold is %r"
                            % (k, got, model.get(k, 0)), {"what": "instances", "ops": ops, "shape": shape})
        run.traces_validated += 1
        run.case({"what": "instances", "ops": ops, "shape": shape}, nontrivial=len(insts) >= 2)


def explore_tsa_operators(run, n_random):
    """C27 for every augmented-assignment operator: two or three threads each apply one or two `o.x OP= d` statements to the
    same attribute, bytecode-level interleaving; the final value is the result of some serial order"""
    rng = run.rng
    ops = list(tsa_stmts.AUG_OPS)
    for _ in range(n_random):
        v0 = rng.choice([64, 48, 7, 100])
        nt = rng.randint(2, 3)
        progs = []
        # true division makes the value a float: keep it away from the integer-only operators within one case
        group = rng.choice([["+=", "-=", "*=", "/=", "//=", "%=", "**=", "/="], ["+=", "-=", "*=", "//=", "%=", ">>=", "<<=", "&=", "^=", "|="]])
        for _ in range(nt):
            p = []
            for _ in range(rng.randint(1, 2)):
                op = rng.choice(group)
                d = rng.choice([1, 2, 3]) if op in ("**=", ">>=", "<<=") else rng.choice([2, 3, 5, 8])
                p.append((op, d))
            progs.append(p)
        serial = set()

        def rec(pos, v):
            if all(pos[i] == len(progs[i]) for i in range(nt)):
                serial.add(v)
                return
            for i in range(nt):
                if pos[i] < len(progs[i]):
                    op, d = progs[i][pos[i]]
                    pos[i] += 1
                    rec(pos, tsa_stmts.AUG_OPS[op][1](v, d))
                    pos[i] -= 1
        rec([0] * nt, v0)
        with dsched.PatchedLocks(mtsa):
            Obj = make_tsa_class()
            o = Obj()
            o.x = v0

            def mk(p):
                def f():
                    for op, d in p:
                        tsa_stmts.AUG_OPS[op][0](o, d)
                return f
            codes = [c for c in class_codes(mtsa.ThreadSafeAttribute) if c.co_name not in ("__init__", "__set_name__")]
            seed = rng.randrange(1 << 30)
            order, errors, outcome, fin = run_threads([mk(p) for p in progs], dsched.random_chooser(random.Random(seed)), codes)
            val = o.x
        cj = {"what": "tsa-operators", "v0": v0, "progs": progs, "seed": seed, "schedule": order}
        for p in progs:
            for op, _ in p:
                run.count("augmented operator " + op)
        run.traces_validated += 1
        if errors:
            run.violate("C27/error", "a statement using the attribute failed: %s" % errors[:2], cj)
        elif all(fin) and val not in serial:
            run.violate("C27/not-serializable", "from %r, threads %s: final value %r is not the result of any serial order (possible: %s)"
                        % (v0, progs, val, sorted(serial, key=repr)[:6]), cj)
        run.case(cj, nontrivial=True)


def explore_tsa_two_attributes(run, n_random):
    """C27 with a second thread-safe attribute read inside the right-hand side of an update (in a called function, on its own
    source line): lock-granularity schedules; every thread finishes and the value is that of a serial order"""
    rng = run.rng
    for _ in range(n_random):
        with dsched.PatchedLocks(mtsa):
            class Obj(metaclass=mtsa.MetaThreadSafeAttributes):
                _attributes = ["x", "y"]
            o = Obj()
            o.y = rng.randint(1, 5)
            yv = o.y
            nt = rng.randint(2, 3)
            progs = [[rng.choice(["x+=y()", "x+=1", "x+=y()"]) for _ in range(rng.randint(1, 2))] for _ in range(nt)]

            def mk(p):
                def f():
                    for st in p:
                        if st == "x+=1":
                            tsa_stmts.do_aug(o, 1)
                        else:
                            tsa_stmts.aug_x_by_y(o)
                return f
            seed = rng.randrange(1 << 30)
            order, errors, outcome, fin = run_threads([mk(p) for p in progs], dsched.random_chooser(random.Random(seed)))
            val = o.__dict__.get(getattr(Obj.__dict__["x"], "_key", None), None)
        want = sum(1 if st == "x+=1" else yv for p in progs for st in p)
        cj = {"what": "tsa-two-attributes", "progs": progs, "y": yv, "seed": seed, "schedule": order}
        run.count("update whose right-hand side reads another thread-safe attribute")
        run.traces_validated += 1
        if errors:
            run.violate("C27/error", "a statement using the attribute failed: %s" % errors[:2], cj)
        elif not all(fin):
            run.violate("C27/blocked", "threads %s: %s never finished (outcome %s): after `o.x += g(o)` (g reads o.y) the attribute's lock stays held"
                        % (progs, [i for i, f in enumerate(fin) if not f], outcome), cj)
        elif val is not None and val != want:
            run.violate("C27/not-serializable", "threads %s with y=%d: final x=%r, every serial order gives %d" % (progs, yv, val, want), cj)
        run.case(cj, nontrivial=True)


def explore_instances_threads(run, n_random):
    """C29 under threads: each thread works on its OWN instance (reads and assignments), every bytecode of the descriptor a
    scheduling point; a read returns the last value that thread assigned to its instance"""
    rng = run.rng
    for _ in range(n_random):
        with dsched.PatchedLocks(mtsa):
            Obj = make_tsa_class()
            nt = rng.randint(2, 3)
            insts = [Obj() for _ in range(nt)]
            progs = [[("set", rng.randint(1, 99)) if rng.random() < 0.4 else ("get",) for _ in range(rng.randint(2, 5))] for _ in range(nt)]
            bad = []

            def mk(i):
                def f():
                    last = 0
                    for op in progs[i]:
                        if op[0] == "set":
                            tsa_stmts.do_assign(insts[i], op[1])
                            last = op[1]
                        else:
                            got = tsa_stmts.do_read(insts[i])
                            if got != last:
                                bad.append((i, got, last))
                return f
            codes = [c for c in class_codes(mtsa.ThreadSafeAttribute) if c.co_name not in ("__init__", "__set_name__")]
            seed = rng.randrange(1 << 30)
            order, errors, outcome, fin = run_threads([mk(i) for i in range(nt)], dsched.random_chooser(random.Random(seed)), codes)
        cj = {"what": "instances-threads", "progs": progs, "seed": seed, "schedule": order}
        run.count("instances used by different threads (bytecode level)")
        run.traces_validated += 1
        if errors:
            run.violate("C29/thread-error", "threads working on different instances failed: %s" % errors[:2], cj)
        if bad:
            i, got, last = bad[0]
            run.violate("C29/value-shared-between-instances", "thread %d read %r from its own instance, to which it last assigned %r, while "
                        "other threads used other instances" % (i, got, last), cj)
        run.case(cj, nontrivial=True)


def replay(case):
    cc = case.get("case", case)
    what = cc.get("what", "")
    ch = dsched.scripted_chooser(["T%d" % i for i in cc.get("schedule", [])], then=dsched.round_robin_chooser())
    if what == "singleton-nested":
        print(singleton_nested_run(cc["direct"], ch))
    elif what == "singleton-failing":
        print(singleton_failing_run(cc["threads"], set(cc["bad"]), ch))
    elif what.startswith("singleton"):
        print(singleton_run(cc["threads"], ch, opcode=what.endswith("opcode"), raw=cc.get("raw_threads", False)))
    elif what.startswith("registry"):
        r = registry_run(cc["progs"], ch, opcode=what.endswith("opcode"), via=cc.get("via", "append"))
        print(r[1], r[3])
    elif what == "tsa-zip":
        import linecache
        with zipped_stmts(0):
            linecache.clearcache()
            print(tsa_run([[tuple(s) for s in p] for p in cc["progs"]], ch))
    elif what.startswith("tsa"):
        print(tsa_run([[tuple(s) for s in p] for p in cc["progs"]], ch, opcode=what.endswith("opcode")))
    else:
        print(cc)
    return 0
