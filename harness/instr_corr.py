"""Layer-3 correspondence: spy log, trace and live output of an instrumented queued chart
(real `HsmWithQueues` with spied handlers) ↔ Lean `Instr` model; oracles for C19, C20, C21, C18."""
import random, os, sys, json, re, datetime as _dt
import charts, leanrun, queue_corr
from charts import mhsm, Event, Diverged

SIGTOK = {"ENTRY_SIGNAL": "en", "EXIT_SIGNAL": "ex", "INIT_SIGNAL": "in", "SEARCH_FOR_SUPER_SIGNAL": "su",
          "EMPTY_SIGNAL": "em", "REFLECTION_SIGNAL": "rf"}


def sig_tok(name):
    if name in SIGTOK:
        return SIGTOK[name]
    if name.startswith("E") and name[1:].isdigit():
        return "u" + name[1:]
    return "?" + name


def line_tok(line):
    """real spy string -> model token"""
    if charts.scribble_tok(line) is not None:
        return "sc.%d" % charts.scribble_tok(line)
    if not isinstance(line, str):
        return "?%r" % (line,)
    if line == "START":
        return "st"
    m = re.match(r"^<- Queued:\((\d+)\) Deferred:\((\d+)\)$", line)
    if m:
        return "rf.%s.%s" % (m.group(1), m.group(2))
    m = re.match(r"^(POST_FIFO|POST_LIFO|POST_DEFERRED|RECALL):E(\d+)$", line)
    if m:
        return {"POST_FIFO": "pf", "POST_LIFO": "pl", "POST_DEFERRED": "pd", "RECALL": "rc"}[m.group(1)] + "." + m.group(2)
    m = re.match(r"^SCRIBBLE(\d+)$", line)
    if m:
        return "sc." + m.group(1)
    m = re.match(r"^(\w+):s(\d+):HOOK$", line)
    if m:
        return "h.%s.%s" % (m.group(2), sig_tok(m.group(1)))
    m = re.match(r"^(\w+):s(\d+)$", line)
    if m:
        return "c.%s.%s" % (m.group(2), sig_tok(m.group(1)))
    return "?" + line


def rec_tok(tr):
    st = lambda n: "0" if n == "top" else n[1:]
    return "%s>%s>%s" % (st(tr.start_state), "start" if tr.signal is None else sig_tok(tr.signal), st(tr.end_state))


class FakeClock:
    """stand-in for `datetime.datetime` inside miros.hsm: now() follows a script"""

    def __init__(self, mode):
        self.mode = mode
        self.n = 0
        self.base = _dt.datetime(2020, 1, 1, 0, 0, 0)

    def now(self):
        self.n += 1
        if self.mode == "constant":
            k = 0
        elif self.mode == "coarse":
            k = self.n // 7
        elif self.mode == "backwards":
            k = 1000 - self.n
        else:
            k = self.n
        return self.base + _dt.timedelta(microseconds=k)

    @staticmethod
    def strftime(d, fmt):
        return _dt.datetime.strftime(d, fmt)


def encode(c, eff, cap, caps, ops):
    head = c.encode([], family="qspy").split(" ")[:-1]
    toks = head + [cap, caps[0], caps[1], caps[2]]
    el = []
    for (i, k), lst in sorted(eff.items()):
        for ek, a in lst:
            el += [i, queue_corr.sigcode(k), queue_corr.EFFK[ek], a]
    toks += [len(el) // 4] + el + [len(ops)]
    for o, a in ops:
        toks += [o, a]
    return " ".join(str(t) for t in toks)


def run_real(c, eff, cap, caps, ops, clock="fine", live=True, twin_seed=None):
    P = mhsm.HsmEventProcessor
    saved = (P.RTC_RING_BUFFER_SIZE, P.SPY_RING_BUFFER_SIZE, P.TRC_RING_BUFFER_SIZE, mhsm.stdlib_datetime)
    P.RTC_RING_BUFFER_SIZE, P.SPY_RING_BUFFER_SIZE, P.TRC_RING_BUFFER_SIZE = caps
    mhsm.stdlib_datetime = FakeClock(clock)
    try:
        base = charts.probed_class(mhsm.HsmWithQueues)

        class Q(base):
            QUEUE_SIZE = cap
        hsm = Q()
        live_spy, live_trace = [], []
        hsm.live_spy = live
        hsm.live_trace = live
        hsm.register_live_spy_callback(lambda line: live_spy.append(line))
        hsm.register_live_trace_callback(lambda line: live_trace.append(line))
        uid = [0]
        log = []

        def mkev(sig):
            e = Event(signal="E%d" % sig, payload=uid[0])
            uid[0] += 1
            return e

        def effects(chart, i, kind, e):
            for ek, a in eff.get((i, kind), ()):
                if ek == "F":
                    chart.post_fifo(mkev(a))
                elif ek == "L":
                    chart.post_lifo(mkev(a))
                elif ek == "D":
                    chart.defer(mkev(a))
                elif ek == "R":
                    chart.recall()
                else:
                    if a >= 90 and hasattr(chart, "current_state"):
                        chart.current_state()      # a handler asking the chart for its state (no line, no effect)
                    scrib.append(a)
                    chart.scribble(charts.scribble_value(a))
        scrib = []
        fns = c.build(log, spied=True, counter=hsm._vp_count, effects=effects)
        out = []
        steps = []       # per op: (handler-call log, new trace records) for the oracles
        twin = queue_corr.Twin(twin_seed) if twin_seed is not None else None
        if twin is not None:
            twin.hsm.live_spy = twin.hsm.live_trace = True
            twin.hsm.register_live_spy_callback(lambda line: None)
            twin.hsm.register_live_trace_callback(lambda line: None)
        for o, a in ops:
            if twin is not None:
                twin.poke()
            del log[:]
            del scrib[:]
            hsm._vp_calls = 0
            ntrace = len(hsm.full.trace)
            try:
                if o == 0:
                    hsm.start_at(fns[a])
                elif o == 4:
                    hsm.post_fifo(mkev(a))
                elif o == 5:
                    hsm.post_lifo(mkev(a))
                elif o == 6:
                    hsm.defer(mkev(a))
                elif o == 7:
                    hsm.recall()
                else:
                    hsm.next_rtc()
            except (mhsm.HsmTopologyException, Diverged):
                out.append("raise")
                break
            out.append("rtc=" + ",".join(line_tok(x) for x in hsm.spy_rtc()))
            steps.append({"op": (o, a), "calls": list(log), "rtc": hsm.spy_rtc(), "scribbles": list(scrib)})
        final = {"full": ",".join(line_tok(x) for x in hsm.spy()),
                 "trace": ",".join(rec_tok(t) for t in hsm.full.trace),
                 "livespy": ",".join(line_tok(x) for x in live_spy),
                 "livetrace_raw": list(live_trace),
                 "trace_recs": list(hsm.full.trace)}
    finally:
        P.RTC_RING_BUFFER_SIZE, P.SPY_RING_BUFFER_SIZE, P.TRC_RING_BUFFER_SIZE, mhsm.stdlib_datetime = saved
    return out, final, steps


def live_trace_tokens(final):
    """the formatted live-trace strings, mapped back to start>sig>end tokens"""
    out = []
    for s in final["livetrace_raw"]:
        m = re.search(r"e->(\w+)\(\) (\w+)->(\w+)", s)
        if not m:
            out.append("?" + s)
            continue
        st = lambda n: "0" if n == "top" else n[1:]
        out.append("%s>%s>%s" % (st(m.group(2)), "start" if m.group(1) == "start_at" else sig_tok(m.group(1)), st(m.group(3))))
    return ",".join(out)


def gen_case(rng, small_rings=None):
    c = charts.gen_chart(rng, nmax=7)
    eff = queue_corr.gen_effects(rng, c, rate=rng.choice([0.0, 0.2, 0.4]))
    cap = rng.choice([3, 5, 500])
    if small_rings is None:
        small_rings = rng.random() < 0.3
    # the per-step ring stays large enough for one step of a <=7-state chart (the theorems' hypothesis: no more
    # than rtcCap handler calls per step); the full-spy and trace rings are made small to exercise truncation
    caps = (rng.choice([100, 250]), rng.choice([20, 40, 120]), rng.choice([2, 3, 5])) if small_rings else (250, 500, 500)
    ops = [(0, rng.randrange(1, c.n + 1))]
    for _ in range(rng.randint(2, 12)):
        r = rng.random()
        if r < 0.3:
            ops.append((4, rng.randrange(c.nsig)))
        elif r < 0.4:
            ops.append((5, rng.randrange(c.nsig)))
        elif r < 0.47:
            ops.append((6, rng.randrange(c.nsig)))
        elif r < 0.53:
            ops.append((7, 0))
        else:
            ops.append((8, 0))
    if rng.random() < 0.1:
        # a post before start_at
        ops.insert(0, (4, rng.randrange(c.nsig)))
    return c, eff, cap, caps, ops


def explore(run, focus, n_random):
    rng = run.rng
    cases = [gen_case(rng) for _ in range(n_random)]
    outs = leanrun.run_driver([encode(*k) for k in cases])
    for k, mo in zip(cases, outs):
        c, eff, cap, caps, ops = k
        clock = rng.choice(["fine", "constant", "coarse", "backwards"]) if focus == "C21" else rng.choice(["fine", "fine", "coarse"])
        twin_seed = rng.randrange(1 << 30) if rng.random() < 0.3 else None
        real, final, steps = run_real(c, eff, cap, caps, ops, clock=clock, twin_seed=twin_seed)
        body, mfinal = mo.split(" || ")
        model = body.split(" | ")
        cj = queue_corr.case_json(c, eff, cap, ops, caps=list(caps), clock=clock, twin_seed=twin_seed)
        if twin_seed is not None:
            run.count("a second instrumented chart object busy alongside")
        run.traces_validated += 1
        run.count("clock " + clock)
        run.count("rings %s" % ("small" if caps[0] < 250 else "real"))
        mf = dict(kv.split("=", 1) for kv in mfinal.split(" "))
        ok = real == model and mf["full"] == final["full"] and mf["trace"] == final["trace"] and mf["livespy"] == final["livespy"] \
            and mf["livetrace"] == live_trace_tokens(final)
        if not ok:
            diff = None
            for i, (a, b) in enumerate(zip(real, model)):
                if a != b:
                    diff = "op %d %s: impl %s, model %s" % (i, ops[i], a, b)
                    break
            if diff is None:
                for key, val in (("full", final["full"]), ("trace", final["trace"]), ("livespy", final["livespy"]),
                                 ("livetrace", live_trace_tokens(final))):
                    if mf[key] != val:
                        diff = "%s: impl %s, model %s" % (key, val, mf[key])
                        break
            run.disagree("spy / trace / live output of an instrumented queued chart", cj, diff, None)
        interesting = oracle(run, focus, c, ops, caps, final, steps, cj, clock)
        run.case(cj, nontrivial=interesting)


def oracle(run, focus, c, ops, caps, final, steps, cj, clock):
    """independent of the model: the spy lines against the handlers' own record of their invocations"""
    hit = False
    small = caps[0] < 250
    recs = final["trace_recs"]
    for st in steps:
        o, a = st["op"]
        if o not in (0, 8):
            continue
        calls = ["c.%d.%s" % (i, k) for i, k in st["calls"] if k != "rf"]
        toks = [line_tok(x) for x in st["rtc"]]
        got_calls = [t for t in toks if t.startswith("c.")]
        if focus == "C19":
            hit = True
            if len(toks) < caps[0]:          # nothing fell out of the ring
                if got_calls != calls:
                    run.violate("C19/calls", "spy lines %s do not list the handler invocations %s" % (got_calls, calls), cj)
                got_sc = [t for t in toks if t.startswith("sc.")]
                want_sc = ["sc.%d" % x for x in st.get("scribbles", [])]
                if got_sc != want_sc:
                    run.violate("C19/scribbles", "the handlers of this step scribbled %s (in this order), the step log holds %s"
                                % ([charts.scribble_value(x) for x in st.get("scribbles", [])], got_sc), cj)
                # HOOK exactly after handled user-signal offers
                for idx, t in enumerate(toks):
                    if t.startswith("h."):
                        _, sid, sg = t.split(".")
                        if c.react[int(sid)].get(int(sg[1:]), ("P",))[0] != "H":
                            run.violate("C19/hook", "HOOK line %s for a state that did not handle the event" % t, cj)
                for (i, k) in st["calls"]:
                    if k[0] == "u" and c.react[i].get(int(k[1:]), ("P",))[0] == "H" and "h.%d.%s" % (i, k) not in toks:
                        run.violate("C19/hook-missing", "state %d handled %s but no HOOK line" % (i, k), cj)
                if not toks or not toks[-1].startswith("rf."):
                    run.violate("C19/reflection", "step log does not end with the queue reflection: %s" % toks[-3:], cj)
                if o == 0 and "st" not in toks:
                    run.violate("C19/start-marker", "no START marker in the start_at log", cj)
                # a RECALL marker names the event that is recalled: the post it causes follows it and carries the same signal
                for idx, t in enumerate(toks):
                    if t.startswith("rc.") and (idx + 1 >= len(toks) or toks[idx + 1] != "pf." + t[3:]):
                        run.violate("C19/recall-marker", "the step log has %s followed by %s: the RECALL line does not name the event "
                                    "that was recalled and posted" % (t, toks[idx + 1] if idx + 1 < len(toks) else "nothing"), cj)
            else:
                run.count("step log overflowed the rtc ring")
    if focus == "C20":
        hit = True
        # one record per transition step, none for others (only checked when nothing overflowed)
        if tuple(caps) == (250, 500, 500):
            # recompute from the handlers' record: a step is a transition iff some entry/exit/init ran
            ntr = 0
            for st in steps:
                o, a = st["op"]
                if o == 0:
                    ntr += 1
                elif o == 8 and any(k in ("en", "ex", "in") for _, k in st["calls"]):
                    ntr += 1
            if len(recs) != ntr:
                run.violate("C20/record-count", "%d trace records for %d transition steps (incl. start)" % (len(recs), ntr), cj)
            else:
                # each record carries the signal of the event that was dispatched in its step (first user-signal offer)
                k = 0
                for st in steps:
                    o, a = st["op"]
                    is_tr = o == 0 or (o == 8 and any(kk in ("en", "ex", "in") for _, kk in st["calls"]))
                    if not is_tr:
                        continue
                    rec = recs[k]
                    k += 1
                    if o == 8:
                        offered = [kk for _, kk in st["calls"] if kk[0] == "u"]
                        if offered and sig_tok(rec.signal or "") != offered[0]:
                            run.violate("C20/record-signal", "the step dispatched %s (%s -> %s) but its trace record names %s"
                                        % (offered[0], rec.start_state, rec.end_state, rec.signal), cj)
            if recs and (recs[0].start_state != "top" or recs[0].signal is not None):
                run.violate("C20/start-record", "first record is %s" % (recs[0],), cj)
            for a, b in zip(recs, recs[1:]):
                if a.end_state != b.start_state:
                    run.violate("C20/chain", "consecutive records do not chain: %s then %s" % (a, b), cj)
            if any(r.datetime is None for r in recs):
                run.violate("C20/no-timestamp", "a trace record has no timestamp", cj)
    if focus == "C21":
        hit = True
        # live spy = concatenation of the step logs as returned by spy_rtc() after each start/next_rtc
        want = []
        for st in steps:
            if st["op"][0] in (0, 8):
                want += [line_tok(x) for x in st["rtc"]]
        got = [x for x in final["livespy"].split(",") if x]
        if got != want:
            run.violate("C21/live-spy", "live spy callback received %d lines, the step logs hold %d (clock %s)" % (len(got), len(want), clock), cj)
        lt = [x for x in live_trace_tokens(final).split(",") if x]
        all_recs = [rec_tok(t) for t in recs]
        if caps[2] >= 500 and lt != all_recs:
            run.violate("C21/live-trace/%s-clock" % clock, "live trace callback received %s, the trace holds %s (clock %s)" % (lt, all_recs, clock), cj)
    return hit


def deep_probe(run, depth=130):
    """the region excluded by the theorems' hypothesis (more handler calls in one step than the 250-entry
    per-step ring holds): a chain of `depth` nested states, real ring sizes"""
    parent = {i: i - 1 for i in range(1, depth + 1)}
    c = charts.GenChart(depth, parent, {i: {} for i in range(1, depth + 1)}, {}, nsig=1)
    c.react[1][0] = ("T", depth)          # handled by the outermost state: exit everything, re-enter everything
    ops = [(0, depth), (4, 0), (8, 0)]
    real, final, steps = run_real(c, {}, 500, (250, 500, 500), ops, clock="fine")
    cj = {"deep_chain": depth, "ops": [list(o) for o in ops]}
    recs = final["trace_recs"]
    run.count("deep-chain probe (%d states, %d calls in start_at)" % (depth, len(steps[0]["calls"]) if steps else -1))
    if not recs or recs[0].signal is not None:
        run.violate("C20/start-record-lost/rtc-ring-overflow",
                    "start_at of a chain of %d nested states (%d handler calls > 250-entry per-step ring) appended no start record to the trace"
                    % (depth, len(steps[0]["calls"]) if steps else -1), cj)
    if any(r.datetime is None for r in recs):
        run.violate("C20/record-without-timestamp/rtc-ring-overflow",
                    "a step with more than 250 handler calls appended a trace record without timestamp or signal (trace() then raises TypeError)", cj)
    elif len([r for r in recs if r.signal is not None]) < 1:
        run.violate("C20/record-lost/rtc-ring-overflow",
                    "a transition step with more than 250 handler calls (exit and re-entry of %d nested states) appended no trace record" % depth, cj)
    run.case(cj, nontrivial=True)


def long_history_probe(run, focus, nsteps=560):
    """histories longer than the 500-entry trace / spy rings (real sizes): a two-state toggle chart stepped `nsteps` times
    with the live streams on; compared with the Lean model and counted: one live trace line per transition step"""
    rng = run.rng
    for clock in ("fine", "constant"):
        c = charts.GenChart(3, {1: 0, 2: 1, 3: 1}, {1: {}, 2: {0: ("T", 3), 1: ("H", 0)}, 3: {0: ("T", 2)}}, {}, nsig=2)
        ops = [(0, 2)]
        expected = 1
        for _ in range(nsteps):
            sig = 0 if rng.random() < 0.9 else 1
            ops += [(4, sig), (8, 0)]
        caps = (250, 500, 500)
        real, final, steps = run_real(c, {}, 500, caps, ops, clock=clock)
        mo = leanrun.run_driver([encode(c, {}, 500, caps, ops)])[0]
        cj = queue_corr.case_json(c, {}, 500, ops[:9], caps=list(caps), clock=clock)
        cj["long_history"] = nsteps
        run.traces_validated += 1
        run.count("long history (%d steps, clock %s)" % (nsteps, clock))
        body, mfinal = mo.split(" || ")
        mf = dict(kv.split("=", 1) for kv in mfinal.split(" "))
        lt = live_trace_tokens(final)
        if real != body.split(" | ") or mf["full"] != final["full"] or mf["trace"] != final["trace"] or mf["livespy"] != final["livespy"] \
                or mf["livetrace"] != lt:
            run.disagree("spy / trace / live output over a history longer than the rings", cj,
                         "live trace lines: impl %d, model %d" % (len(final["livetrace_raw"]), len(mf["livetrace"].split(",")) if mf["livetrace"] else 0), None)
        # oracle: a step is a transition iff an entry ran; one live trace line for each and for the start
        ntr = sum(1 for st in steps if st["op"][0] in (0, 8) and any(k == "en" for _, k in st["calls"]))
        if len(final["livetrace_raw"]) != ntr:
            run.violate("C21/live-trace-count", "%d transition steps (incl. start) over a history of %d steps produced %d live trace lines"
                        % (ntr, nsteps, len(final["livetrace_raw"])), cj)
        if focus == "C20" and len(final["trace_recs"]) != min(ntr, 500):
            run.violate("C20/trace-ring", "%d transition steps left %d records in the 500-entry trace ring" % (ntr, len(final["trace_recs"])), cj)
        run.case(cj, nontrivial=True)


def live_after_fabric_stop_probe(run, focus):
    """an active object with live spy (and / or live trace) on; the fabric is stopped (which halts the object's thread at its next
    wake-up and leaves the shared run flag cleared); then the stopped object is stepped by hand (post_fifo + next_rtc): the lines of
    those steps are handed to the callbacks like any others - each once, in order, at the latest when the next active object starts
    (oracle only)"""
    import dsched
    import miros.activeobject as mao
    from charts import signals, return_status
    for live_spy, live_trace in ((True, False), (False, True), (True, True)):
        res = {"spy": [], "trace": [], "produced_spy": [], "produced_trace": 0}
        saved_pp = mao.pp
        mao.pp = lambda x: None
        with dsched.Installed():
            sched = dsched.Sched(dsched.round_robin_chooser(), max_steps=8000, trace=False)
            dsched.Sched.current = sched
            try:
                def s1(chart, e):
                    if e.signal in (signals.ENTRY_SIGNAL, signals.INIT_SIGNAL, signals.EXIT_SIGNAL):
                        return return_status.HANDLED
                    if e.signal_name == "A":
                        return chart.trans(s2f[0])
                    chart.temp.fun = chart.top
                    return return_status.SUPER

                def s2(chart, e):
                    if e.signal in (signals.ENTRY_SIGNAL, signals.INIT_SIGNAL, signals.EXIT_SIGNAL):
                        return return_status.HANDLED
                    if e.signal_name == "A":
                        return chart.trans(s1f[0])
                    chart.temp.fun = chart.top
                    return return_status.SUPER
                s1.__name__, s2.__name__ = "s1", "s2"
                s1f, s2f = [mhsm.spy_on(s1)], [mhsm.spy_on(s2)]

                def quiet():
                    me = sched.me()
                    sched.yield_point("driver.settle", enabled=lambda: all(t is me or t.finished or not sched.is_enabled(t) for t in sched.threads))

                def driver():
                    ao = mao.ActiveObject(name="a")
                    ao.live_spy, ao.live_trace = live_spy, live_trace
                    ao.register_live_spy_callback(lambda line: res["spy"].append(line))
                    ao.register_live_trace_callback(lambda line: res["trace"].append(line))
                    ao.start_at(s1f[0])
                    ao.post_fifo(Event(signal="A"))
                    quiet()
                    res["before_stop"] = (len(res["spy"]), len(res["trace"]))
                    ao.fabric.stop()
                    quiet()
                    n_trace = len(ao.full.trace)
                    for _k in range(2):
                        ao.post_fifo(Event(signal="A"))
                        ao.next_rtc()
                        res["produced_spy"] += list(ao.spy_rtc())
                        quiet()
                    res["produced_trace"] = len(ao.full.trace) - n_trace
                    # (the writer thread rests while the shared run flag is cleared; the next active object that starts wakes it again)
                    other = mao.ActiveObject(name="b")
                    other.start_at(s2f[0])
                    quiet()
                sched.spawn(driver, (), name="D")
                res["outcome"] = sched.run()
                res["errors"] = ["%s: %s: %s" % (t.name, type(t.error).__name__, t.error) for t in sched.threads if t.error is not None]
            finally:
                sched.shutdown()
                mao.pp = saved_pp
        cj = {"live_after_fabric_stop_probe": [live_spy, live_trace]}
        run.count("live output of an object stepped by hand after the fabric was stopped")
        run.traces_validated += 1
        b_spy, b_trace = res.get("before_stop", (0, 0))
        got_spy = res["spy"][b_spy:]
        got_trace = res["trace"][b_trace:]
        if res.get("errors"):
            run.violate("%s/live-after-fabric-stop/error" % focus, "%s" % res["errors"][:2], cj)
        elif live_spy and got_spy != res["produced_spy"]:
            run.violate("%s/live-spy/after-fabric-stop" % focus, "after ActiveFabric().stop() the object was stepped twice by hand: the steps logged %d spy lines, the "
                        "live-spy callback was handed %d of them (%s ...)" % (len(res["produced_spy"]), len(got_spy), got_spy[:3]), cj)
        elif live_trace and len(got_trace) != res["produced_trace"]:
            run.violate("%s/live-trace/after-fabric-stop" % focus, "after ActiveFabric().stop() the object was stepped twice by hand: %d trace records were "
                        "appended, the live-trace callback was handed %d" % (res["produced_trace"], len(got_trace)), cj)
        run.case(cj, nontrivial=True)


def reentrant_step_probe(run, focus):
    """a handler that posts a follow-up event to its own chart and runs it at once (`chart.post_fifo(X); chart.next_rtc()`) before it
    answers its own event with a transition: two transitions, two trace records, each with the signal of ITS event (oracle only)"""
    from charts import signals, return_status
    for first_sig, nested_sig, spied_b in (("A", "X", True), ("GO", "NOTE", True), ("TICK", "A", True)):
        def a(chart, e):
            if e.signal in (signals.ENTRY_SIGNAL, signals.INIT_SIGNAL, signals.EXIT_SIGNAL):
                return return_status.HANDLED
            if e.signal_name == nested_sig:
                return chart.trans(a_fn[0])                 # a self transition
            if e.signal_name == first_sig:
                chart.post_fifo(Event(signal=nested_sig))
                chart.next_rtc()                            # the follow-up runs now, inside this step
                return chart.trans(b_fn[0])
            chart.temp.fun = chart.top
            return return_status.SUPER

        def b(chart, e):
            if e.signal in (signals.ENTRY_SIGNAL, signals.INIT_SIGNAL, signals.EXIT_SIGNAL):
                return return_status.HANDLED
            chart.temp.fun = chart.top
            return return_status.SUPER
        a.__name__, b.__name__ = "a", "b"
        a_fn, b_fn = [mhsm.spy_on(a)], [mhsm.spy_on(b) if spied_b else b]
        hsm = mhsm.HsmWithQueues()
        hsm.start_at(a_fn[0])
        hsm.post_fifo(Event(signal=first_sig))
        hsm.next_rtc()
        recs = [(t.start_state, t.signal, t.end_state) for t in hsm.full.trace]
        want = [("top", None, "a"), ("a", nested_sig, "a"), ("a", first_sig, "b")]
        cj = {"reentrant_step_probe": [first_sig, nested_sig, spied_b]}
        run.count("a handler that runs a follow-up event of its own chart inside its step")
        run.traces_validated += 1
        if [r[1:] for r in recs] != [w[1:] for w in want] or [r[0] for r in recs[:2]] != [w[0] for w in want[:2]]:
            run.violate("%s/record-of-a-nested-step" % focus, "the handler of %s posts %s to its own chart, runs it at once (a self transition) and then "
                        "transitions to b: the trace holds %s, expected %s" % (first_sig, nested_sig, recs, want), cj)
        run.case(cj, nontrivial=True)


def reserved_signal_probe(run, focus):
    """a spied superstate that swallows every event it is offered (`return HANDLED` for anything that is not its own entry / exit /
    init), handed the library's reserved signals 7-10 (the stop requests and the subscribe / publish meta events, which an active
    object finds in its own queue) and one user signal: the reserved ones are not user signals - the spy shows the state line of the
    invocation and no HOOK line - the user signal is hooked as usual (oracle only)"""
    from charts import signals, return_status
    for name in ("STOP_FABRIC_SIGNAL", "STOP_ACTIVE_OBJECT_SIGNAL", "SUBSCRIBE_META_SIGNAL", "PUBLISH_META_SIGNAL", "USER_PING"):
        seen = []

        def outer(chart, e):
            if e.signal in (signals.ENTRY_SIGNAL, signals.INIT_SIGNAL, signals.EXIT_SIGNAL):
                return return_status.HANDLED
            if e.signal in (signals.SEARCH_FOR_SUPER_SIGNAL, signals.EMPTY_SIGNAL):
                chart.temp.fun = chart.top
                return return_status.SUPER
            seen.append(e.signal_name)
            return return_status.HANDLED
        outer.__name__ = "swallow"
        hsm = mhsm.HsmWithQueues()
        hsm.start_at(mhsm.spy_on(outer))
        hsm.post_fifo(Event(signal=name))
        hsm.next_rtc()
        lines = [l for l in hsm.spy_rtc() if name in l and not l.startswith(("POST_", "<-"))]
        cj = {"reserved_signal_probe": name}
        run.count("reserved signal handed to a state that swallows everything")
        run.traces_validated += 1
        # (every invocation gets its state line; the HOOK line is for user signals)
        want = ["USER_PING:swallow", "USER_PING:swallow:HOOK"] if name == "USER_PING" else ["%s:swallow" % name]
        if lines != want:
            run.violate("%s/reserved-signal-logged-as-user-signal" % focus, "a spied state that answers HANDLED to everything is handed %s (%s): the step "
                        "log shows %s, expected %s" % (name, "a user signal" if name == "USER_PING" else "reserved signal number %d" % signals[name], lines, want), cj)
        run.case(cj, nontrivial=True)


def meta_signal_probe(run):
    """an instrumented active object that subscribes / publishes before it is started: the meta events are answered by `top`, no
    state takes part, no transition happens: the trace holds the start record only and trace() can be printed"""
    import dsched
    import miros.activeobject as mao
    from charts import signals, return_status
    for what in ("subscribe", "publish", "both"):
        res = {}
        saved_pp = mao.pp
        mao.pp = lambda x: None
        with dsched.Installed():
            sched = dsched.Sched(dsched.round_robin_chooser(), max_steps=6000, trace=False)
            dsched.Sched.current = sched
            try:
                def st(chart, e):
                    if e.signal in (signals.ENTRY_SIGNAL, signals.INIT_SIGNAL, signals.EXIT_SIGNAL):
                        return return_status.HANDLED
                    if e.signal_name == "PING":
                        return return_status.HANDLED
                    chart.temp.fun = chart.top
                    return return_status.SUPER
                st.__name__ = "only"
                ao = mao.ActiveObject(name="M")

                def driver():
                    if what in ("subscribe", "both"):
                        ao.subscribe(Event(signal="PING"))
                    if what in ("publish", "both"):
                        ao.publish(Event(signal="PONG"))
                    ao.start_at(mhsm.spy_on(st))
                sched.spawn(driver, (), name="D")
                sched.run()
                res["recs"] = [(t.datetime is not None, t.start_state, t.signal, t.end_state) for t in ao.full.trace]
                try:
                    res["trace"] = ao.trace()
                except Exception as ex:  # noqa
                    res["trace_error"] = "%s: %s" % (type(ex).__name__, ex)
            finally:
                sched.shutdown()
                mao.pp = saved_pp
        cj = {"meta_signal_probe": what}
        run.count("meta signals before start (%s)" % what)
        run.traces_validated += 1
        if len(res.get("recs", [])) != 1 or "trace_error" in res:
            run.violate("C20/meta-signal-record", "active object that calls %s before start_at: the trace holds %s%s; expected the start record only"
                        % (what, res.get("recs"), (", trace() raises " + res["trace_error"]) if "trace_error" in res else ""), cj)
        run.case(cj, nontrivial=True)


def clear_probe(run, focus, nsteps=620):
    """clear_spy() / clear_trace() in the middle of a history, then more than a ring's worth of steps, with trace() and spy()
    read again and again on the way (oracle only: the Lean model has no clear operation): the full spy is the last 500 lines
    of the step logs since the clear, the trace holds the last 500 records since the clear, trace() shows exactly them"""
    rng = run.rng
    saved_clock = mhsm.stdlib_datetime
    mhsm.stdlib_datetime = FakeClock("fine")
    try:
        c = charts.GenChart(3, {1: 0, 2: 1, 3: 1}, {1: {}, 2: {0: ("T", 3), 1: ("H", 0)}, 3: {0: ("T", 2)}}, {}, nsig=2)
        log = []
        hsm = mhsm.HsmWithQueues()
        fns = c.build(log, spied=True)
        hsm.start_at(fns[2])
        lines, recs = list(hsm.spy_rtc()), 1
        clear_at = rng.randint(20, 60)
        bad = None
        for k in range(nsteps):
            if k == clear_at:
                hsm.clear_spy()
                hsm.clear_trace()
                lines, recs = [], 0
            sig = 0 if rng.random() < 0.9 else 1
            hsm.post_fifo(Event(signal="E%d" % sig))
            hsm.next_rtc()
            step = list(hsm.spy_rtc())
            # (the marker of a post made between steps lives in the per-step log only until the step starts; the full spy is the
            # concatenation of the step logs as spy_rtc() shows them after each step)
            lines += step
            if sig == 0:
                recs += 1
            if k % 37 == 0 or k > nsteps - 4:
                full = list(hsm.spy())
                want = lines[-500:]
                if full != want and bad is None:
                    bad = ("C19/full-spy-after-clear", "step %d (clear_spy at step %d): spy() holds %d lines, the last 500 lines of the step logs "
                           "since the clear are %d lines%s" % (k, clear_at, len(full), len(want), "" if len(full) != len(want) else " (contents differ)"))
                tr = hsm.trace()
                n_tr = len([l for l in tr.split("\n") if l.strip()])
                held = list(hsm.full.trace)
                if (len(held) != min(recs, 500) or n_tr != len(held) or (held and ("%s->%s" % (held[-1].start_state, held[-1].end_state)) not in tr.strip().split("\n")[-1])) and bad is None:
                    bad = ("C20/trace-after-clear", "step %d (clear_trace at step %d): %d transitions since the clear, the trace holds %d records, "
                           "trace() shows %d lines, its last line is %r, the last record is %s->%s" % (
                               k, clear_at, recs, len(held), n_tr, tr.strip().split("\n")[-1][-40:], held[-1].start_state if held else None,
                               held[-1].end_state if held else None))
        cj = {"clear_probe": nsteps, "clear_at": clear_at}
        run.count("clear_spy / clear_trace probe (%d steps)" % nsteps)
        run.traces_validated += 1
        if bad and bad[0].startswith(focus):
            run.violate(bad[0], bad[1], cj)
        elif bad:
            run.count("clear probe: %s (belongs to %s)" % (bad[0], bad[0][:3]))
        run.case(cj, nontrivial=True)
    finally:
        mhsm.stdlib_datetime = saved_clock


def prestart_probe(run, focus):
    """the spy of a chart that has not been started yet (oracle only): spy() is the list of the lines logged so far - nothing on a
    fresh chart, the idle step's queue reflection after a next_rtc(), the markers of posts made before the start - and the first
    start_at's log is appended to it"""
    for host in (mhsm.HsmWithQueues,):
        for script in (["read"], ["next_rtc", "read"], ["post", "read"], ["post", "scribble", "read", "start", "read"], ["next_rtc", "start", "read", "step", "read"]):
            hsm = host()
            c = charts.GenChart(2, {1: 0, 2: 1}, {1: {0: ("T", 2)}, 2: {0: ("H",)}}, {1: 2}, nsig=1)
            log = []
            fns = c.build(log, spied=True)
            cj = {"prestart_probe": script}
            lines = []
            bad = None
            try:
                for op in script:
                    if op == "next_rtc":
                        hsm.next_rtc()
                        lines += list(hsm.spy_rtc())
                    elif op == "post":
                        hsm.post_fifo(Event(signal="E0"))
                    elif op == "scribble":
                        hsm.scribble("NOTE")
                    elif op == "start":
                        hsm.start_at(fns[1])
                        lines = None            # (what the start step adds is judged by the other streams)
                    elif op == "step":
                        hsm.next_rtc()
                    else:
                        got = hsm.spy()
                        if not isinstance(got, list) and bad is None:
                            bad = ("C19/full-spy-before-start", "after %s on a chart that %s: spy() returned %r instead of the list of logged lines"
                                   % (script[:script.index(op)] or "nothing", "was just created" if "start" not in script[:script.index(op)] else "is started", got))
                        elif lines is not None and [line_tok(x) for x in got if line_tok(x).startswith("rf.")] != [line_tok(x) for x in lines if line_tok(x).startswith("rf.")] and bad is None:
                            bad = ("C19/full-spy-before-start", "after %s: spy() holds %s, the step logs so far %s" % (script[:script.index(op)], got, lines))
            except Exception as ex:  # noqa
                bad = ("C19/full-spy-before-start", "%s raised %s: %s" % (script, type(ex).__name__, ex))
            run.count("spy() read before the first start_at")
            run.traces_validated += 1
            if bad and bad[0].startswith(focus):
                run.violate(bad[0], bad[1], cj)
            run.case(cj, nontrivial=True)


def live_callback_probe(run, focus, n=20):
    """a live-spy callback that reacts to what it is shown by making the chart log more (it posts the next stimulus, scribbles a
    note) while the step's lines are being handed over (oracle only): the hand-over goes on, every line of the step as it stood
    is handed exactly once, nothing escapes next_rtc / start_at"""
    rng = run.rng
    saved_clock = mhsm.stdlib_datetime
    mhsm.stdlib_datetime = FakeClock("fine")
    ties = []
    try:
        for _ in range(n):
            c = charts.gen_chart(rng, nmax=6, nsig=2)
            log = []
            hsm = mhsm.HsmWithQueues()
            fns = c.build(log, spied=True)
            handed = []
            react_at = rng.randint(0, 3)
            what = rng.choice(["post_fifo", "post_lifo", "scribble", "re-register", "re-register"])
            state = {"n": 0}
            second = []         # lines handed to the sink the first one registers in its place (a log that rotates on a marker line)

            sinks = []          # sink number of every line handed over, all steps, in order

            def other_sink(line):
                handed.append(line)
                second.append(line)
                sinks.append(2)

            def on_line(line):
                handed.append(line)
                sinks.append(1)
                state["n"] += 1
                if state["n"] == react_at + 1:
                    if what == "post_fifo":
                        hsm.post_fifo(Event(signal="E9"))
                    elif what == "post_lifo":
                        hsm.post_lifo(Event(signal="E9"))
                    elif what == "re-register":
                        hsm.register_live_spy_callback(other_sink)
                    else:
                        hsm.scribble("NOTE-FROM-CALLBACK")
            hsm.live_spy = True
            hsm.register_live_spy_callback(on_line)
            start = rng.randrange(1, c.n + 1)
            script = [rng.randrange(2) for _ in range(rng.randint(1, 5))]
            cj = {"live_callback_probe": True, "chart": c.to_json(), "start": start, "script": script, "reacts_at_line": react_at, "with": what}
            bad = None
            mine = lambda l: l in ("POST_FIFO:E9", "POST_LIFO:E9", "NOTE-FROM-CALLBACK")
            try:
                steps = ["start"] + script
                tie_steps = []      # per step: the sinks its lines went to
                for sg in steps:
                    del handed[:]
                    del second[:]
                    state["n"] = 0
                    mark = len(sinks)
                    if what == "re-register":
                        hsm.register_live_spy_callback(on_line)
                    if sg == "start":
                        hsm.start_at(fns[start])
                    else:
                        hsm.post_fifo(Event(signal="E%d" % sg))
                        hsm.next_rtc()
                    want = [l for l in hsm.spy_rtc() if not mine(l)]
                    got = [l for l in handed if not mine(l)]
                    if what == "re-register" and sg != "start":
                        tie_steps.append(sinks[mark:])
                    if got != want and bad is None:
                        bad = ("C21/live-spy/callback-logs", "the live-spy callback calls %s on the chart when it is shown line %d of a step: it was "
                               "handed %d of the step's %d lines (%s)" % (what, react_at + 1, len(got), len(want), "start_at" if sg == "start" else "E%d" % sg))
                    if what == "re-register" and sg != "start" and bad is None and len(want) > react_at + 1 and second != want[react_at + 1:]:
                        bad = ("C21/live-spy/callback-replaced-during-hand-over", "the live-spy callback registers another callback when it is shown line "
                               "%d of a step of %d lines: the callback registered from then on was handed %s, the lines that followed are %s"
                               % (react_at + 1, len(want), second, want[react_at + 1:]))
                for _k in range(6):                 # the E9 events it posted are dispatched (and ignored) like any other
                    if len(hsm.queue):
                        hsm.next_rtc()
            except (mhsm.HsmTopologyException, Diverged):
                pass
            except Exception as ex:  # noqa
                bad = ("C21/live-spy/callback-logs", "the live-spy callback calls %s on the chart while a step's lines are handed over: %s: %s escaped"
                       % (what, type(ex).__name__, ex))
            run.count("live-spy callback that makes the chart log during the hand-over (%s)" % what)
            run.traces_validated += 1
            if bad and bad[0].startswith(focus):
                run.violate(bad[0], bad[1], cj)
            run.case(cj, nontrivial=True)
            if what == "re-register" and tie_steps and not (bad and "escaped" in bad[1]):
                # the Lean model Instr.HandOver: sink 1 is registered before every step and registers sink 2 when shown line react_at + 1
                rules, ops, nid, expect = [], [], 0, []
                for got_sinks in tie_steps:
                    ids = list(range(nid, nid + len(got_sinks)))
                    nid += len(got_sinks)
                    if len(ids) > react_at:
                        rules += [1, ids[react_at], 2]
                    ops += [1, 1, 0, len(ids)] + ids
                    expect += ["%d:%d" % (k, i) for k, i in zip(got_sinks, ids)]
                ties.append(("handover 9 1 %d %s %d %s" % (len(rules) // 3, " ".join(map(str, rules)), 2 * len(tie_steps), " ".join(map(str, ops))),
                             "handed=%s" % (",".join(expect) or "-"), cj))
        if ties:
            outs = leanrun.run_driver([t[0] for t in ties])
            for (ln, want_handed, cj), mo in zip(ties, outs):
                run.traces_validated += 1
                if mo.split(" ")[0] != want_handed:
                    run.disagree("live-spy hand-over with a callback that registers another one", cj, mo, want_handed)
    finally:
        mhsm.stdlib_datetime = saved_clock


def orthogonal_probe(run, focus, n=40):
    """two instrumented charts, the second driven synchronously from the first one's handlers (the orthogonal-component pattern:
    `chart.region.dispatch(e)` while handling e): the first chart's trace and spy are what they are when it runs alone - one trace
    record per transition of ITS OWN, whatever the other chart did with the event it was handed (oracle only)"""
    rng = run.rng
    for _ in range(n):
        a = charts.gen_chart(rng, nmax=7, nsig=3)
        b = charts.gen_chart(rng, nmax=5, nsig=3)
        # the inner chart reacts to few signals: most of what it is handed it ignores
        for i in range(1, b.n + 1):
            for sg in list(b.react[i]):
                if rng.random() < 0.6:
                    del b.react[i][sg]
        trig = {}
        for i in range(1, a.n + 1):
            for kind in ("en", "ex", "in", "u0", "u1", "u2"):
                if rng.random() < (0.5 if kind[0] == "u" else 0.2):
                    trig[(i, kind)] = rng.randrange(b.nsig)
        start, bstart = rng.randrange(1, a.n + 1), rng.randrange(1, b.n + 1)
        script = [rng.randrange(3) for _ in range(rng.randint(2, 7))]
        how = rng.choice(["dispatch", "post+next_rtc"])

        def run_a(with_b):
            bh = mhsm.HsmWithQueues()
            bf = b.build([], spied=True)
            berr = []
            if with_b:
                try:
                    bh.start_at(bf[bstart])
                except Exception as ex:  # noqa
                    berr.append(type(ex).__name__)

            def eff(chart, i, kind, e):
                if with_b and (i, kind) in trig and not berr:
                    try:
                        if how == "dispatch":
                            bh.dispatch(Event(signal="E%d" % trig[(i, kind)]))
                        else:
                            bh.post_fifo(Event(signal="E%d" % trig[(i, kind)]))
                            bh.next_rtc()
                    except Exception as ex:  # noqa
                        berr.append(type(ex).__name__)
            ah = mhsm.HsmWithQueues()
            af = a.build([], spied=True, effects=eff)
            err = None
            try:
                ah.start_at(af[start])
                for sg in script:
                    ah.post_fifo(Event(signal="E%d" % sg))
                    ah.next_rtc()
            except (mhsm.HsmTopologyException, Diverged) as ex:
                err = type(ex).__name__
            return [(t.start_state, t.signal, t.end_state) for t in ah.full.trace], list(ah.full.spy), err, ah.state_name
        alone = run_a(False)
        both = run_a(True)
        cj = {"orthogonal_probe": True, "chart": a.to_json(), "inner": b.to_json(), "start": start, "inner_start": bstart, "script": script,
              "triggers": [[i, k, sg] for (i, k), sg in sorted(trig.items())], "how": how}
        run.count("a chart whose handlers drive a second instrumented chart synchronously (%s)" % how)
        run.traces_validated += 1
        if alone[2] is None and both != alone:
            what = "trace" if both[0] != alone[0] else ("spy" if both[1] != alone[1] else "outcome")
            run.violate("%s/other-chart-driven-from-handlers/%s" % (focus, what),
                        "chart A's handlers hand events to a second chart object (%s): A's %s is %s; when A runs alone it is %s"
                        % (how, what, (both[0] if what == "trace" else both[1][-8:] if what == "spy" else both[2:]),
                           (alone[0] if what == "trace" else alone[1][-8:] if what == "spy" else alone[2:])), cj)
        run.case(cj, nontrivial=bool(trig))


def handler_clear_probe(run, focus, n=30):
    """an entry / exit / init / event handler that calls chart.clear_spy() (or clear_trace()) in the middle of a step (oracle only):
    the step still appends its one trace record iff it is a transition (start_at included), and the step's own log still lists
    every handler invocation made after the clear"""
    rng = run.rng
    saved_clock = mhsm.stdlib_datetime
    mhsm.stdlib_datetime = FakeClock("fine")
    try:
        for _ in range(n):
            c = charts.gen_chart(rng, nmax=6, nsig=2)
            sites = [(i, k) for i in range(1, c.n + 1) for k in ("en", "ex", "in", "u0", "u1")]
            where = dict((site, rng.choice(["spy", "spy", "trace"])) for site in rng.sample(sites, rng.randint(1, 3)))
            log = []

            def effects(chart, i, kind, e):
                w = where.get((i, kind))
                if w == "spy":
                    chart.clear_spy()
                elif w == "trace":
                    chart.clear_trace()
                    cleared[0] = True
            hsm = mhsm.HsmWithQueues()
            fns = c.build(log, spied=True, effects=effects)
            start = rng.randrange(1, c.n + 1)
            cj = {"handler_clear_probe": True, "chart": c.to_json(), "start": start, "where": [[i, k, w] for (i, k), w in where.items()]}
            script = [rng.randrange(2) for _ in range(rng.randint(2, 8))]
            cj["script"] = script
            bad = None
            try:
                cleared = [False]
                del log[:]
                hsm.start_at(fns[start])
                recs = list(hsm.full.trace)
                if not (recs and recs[-1].start_state == "top" and recs[-1].signal is None) and bad is None:
                    bad = ("C20/start-record/handler-clears", "start_at(%d) with handlers that clear the %s while entering: the trace holds %s"
                           % (start, "/".join(sorted(set(where.values()))), [rec_tok(t) for t in recs]))
                for sg in script:
                    before = len(hsm.full.trace)
                    cleared[0] = False
                    del log[:]
                    st_before = hsm.state.fun.__name__
                    hsm.post_fifo(Event(signal="E%d" % sg))
                    hsm.next_rtc()
                    is_tr = any(k in ("en", "ex", "in") for _, k in log)
                    recs = list(hsm.full.trace)
                    grew = (len(recs) - before) if not cleared[0] else len(recs)
                    if is_tr and (not recs or recs[-1].end_state != hsm.state.fun.__name__ or sig_tok(recs[-1].signal or "") != "u%d" % sg) and bad is None:
                        bad = ("C20/record-lost/handler-clears", "the step E%d (%s -> %s) ran handlers that call clear_spy / clear_trace: no trace record "
                               "for it (last record: %s)" % (sg, st_before, hsm.state.fun.__name__, rec_tok(recs[-1]) if recs else None))
                    if not is_tr and not cleared[0] and grew != 0 and bad is None:
                        bad = ("C20/record-for-a-step-without-transition", "E%d in %s caused no transition but the trace grew by %d" % (sg, st_before, grew))
                    toks = [line_tok(x) for x in hsm.spy_rtc()]
                    calls = ["c.%d.%s" % (i, k) for i, k in log if k != "rf"]
                    if [t for t in toks if t.startswith("c.")] != calls and len(toks) < 250 and bad is None:
                        bad = ("C19/calls/handler-clears", "a handler of this step called clear_spy(): the step log lists %s, the handlers ran %s"
                               % ([t for t in toks if t.startswith("c.")], calls))
            except (mhsm.HsmTopologyException, Diverged):
                pass
            except Exception as ex:  # noqa
                bad = ("%s/handler-clears-error" % focus, "%s: %s" % (type(ex).__name__, ex))
            run.count("handlers that call clear_spy / clear_trace in the middle of a step")
            run.traces_validated += 1
            if bad and bad[0].startswith(focus):
                run.violate(bad[0], bad[1], cj)
            elif bad:
                run.count("handler-clear probe: %s (belongs to %s)" % (bad[0], bad[0][:3]))
            run.case(cj, nontrivial=True)
    finally:
        mhsm.stdlib_datetime = saved_clock


def replay(case):
    cc = case.get("case", case)
    if "handler_clear_probe" in cc or "prestart_probe" in cc or "live_callback_probe" in cc or "orthogonal_probe" in cc or "reserved_signal_probe" in cc or "reentrant_step_probe" in cc or "live_after_fabric_stop_probe" in cc:
        print(cc)
        return 0
    if "meta_signal_probe" in cc:
        class R2:
            traces_validated = 0
            def __getattr__(self, k):
                return lambda *a, **kw: print(k, a[:2])
        meta_signal_probe(R2())
        return 0
    if "clear_probe" in cc:
        class R:
            rng = random.Random(0)
            traces_validated = 0
            def __getattr__(self, k):
                return lambda *a, **kw: print(k, a[:2])
        clear_probe(R(), "C", cc["clear_probe"])
        return 0
    if "long_history" in cc:
        class R:
            rng = random.Random(0)
            traces_validated = 0
            def __getattr__(self, k):
                return lambda *a, **kw: print(k, a[:2])
        long_history_probe(R(), "C21", cc["long_history"])
        return 0
    if "deep_chain" in cc:
        class R:
            def __getattr__(self, k):
                return lambda *a, **kw: print(k, a[:2])
        deep_probe(R(), cc["deep_chain"])
        return 0
    c, eff, cap, ops = queue_corr.from_json(cc)
    caps = tuple(cc.get("caps", (250, 500, 500)))
    real, final, _ = run_real(c, eff, cap, caps, ops, clock=cc.get("clock", "fine"), twin_seed=cc.get("twin_seed"))
    mo = leanrun.run_driver([encode(c, eff, cap, caps, ops)])[0]
    print("impl :", real, {k: v for k, v in final.items() if k in ("full", "trace", "livespy")}, live_trace_tokens(final))
    print("model:", mo)
    return 0
