import MirosModel.Drive.Hsm
import MirosModel.Text.Strip
import MirosModel.Text.Regex
import MirosModel.Gen.Constants
/-! `strip n c1 … cn` (code points) → `M k len c… len c…` | `S len c…`
`natom n c1 … cn` → `0`/`1`
`leak <stmt tokens>` → `<leak> <gets> <sets> <rendered line>`
  Expr: 0 attr | 1 var n | 2 num n | 3 bin op a b | 4 cmp op a b | 5 call a | 6 index a
  Target: 0 attr | 1 var n | 2 item n
  Stmt: 0 expr e | 1 assign t e | 2 aug t op e | 3 ifPass e | 4 comment s w -/
namespace Miros.Drive
open Miros.Text

def charsOf (l : List Nat) : List Char := l.map Char.ofNat

def showChars (l : List Char) : String := s!"{l.length} " ++ " ".intercalate (l.map fun c => toString c.toNat)

def stripLine (toks : List Nat) : String :=
  match toks with
  | [] => "bad"
  | n :: rest =>
    match stripped Miros.Gen.singleLineStripped (charsOf (rest.take n)) with
    | .many ls => s!"M {ls.length} " ++ " ".intercalate (ls.map showChars)
    | .one l => "S " ++ showChars l

def natomLine (toks : List Nat) : String :=
  match toks with
  | [] => "bad"
  | n :: rest => if notAtomic (charsOf (rest.take n)) then "1" else "0"

def binOf (n : Nat) : BinOp := if n = 0 then .add else if n = 1 then .sub else if n = 2 then .mul else .lshift
def cmpOf (n : Nat) : CmpOp :=
  if n = 0 then .lt else if n = 1 then .le else if n = 2 then .gt else if n = 3 then .ge else if n = 4 then .eq else .ne
def augOf (n : Nat) : AugOp :=
  if n = 0 then .add else if n = 1 then .sub else if n = 2 then .mul else if n = 3 then .floordiv
  else if n = 4 then .lshift else if n = 5 then .pow else .and_

def parseExpr : Nat → P Expr
  | 0 => pure .attr
  | fuel + 1 => do
    let k ← nat
    if k = 0 then pure .attr
    else if k = 1 then pure (.var (← nat))
    else if k = 2 then pure (.num (← nat))
    else if k = 3 then do
      let op ← nat; let a ← parseExpr fuel; let b ← parseExpr fuel
      pure (.bin (binOf op) a b)
    else if k = 4 then do
      let op ← nat; let a ← parseExpr fuel; let b ← parseExpr fuel
      pure (.cmp (cmpOf op) a b)
    else if k = 5 then do pure (.call (← parseExpr fuel))
    else do pure (.index (← parseExpr fuel))

def parseTarget : P Target := do
  let k ← nat
  if k = 0 then pure .attr else if k = 1 then pure (.var (← nat)) else pure (.item (← nat))

def parseStmt : Nat → P Stmt
  | 0 => pure (.expr .attr)
  | fuel + 1 => do
    let k ← nat
    if k = 0 then pure (.expr (← parseExpr 30))
    else if k = 1 then do
      let t ← parseTarget; let e ← parseExpr 30
      pure (.assign t e)
    else if k = 2 then do
      let t ← parseTarget; let op ← nat; let e ← parseExpr 30
      pure (.aug t (augOf op) e)
    else if k = 3 then pure (.ifPass (← parseExpr 30))
    else do
      let s ← parseStmt fuel; let w ← nat
      pure (.comment s (w = 1))

def leakLine (toks : List Nat) : String :=
  let (s, _) := (parseStmt 5).run toks
  s!"{s.leak} {s.gets} {s.sets} {s.render}"

end Miros.Drive
