import MirosModel.Drive.Hsm
import MirosModel.Conc.FabFine
import MirosModel.Gen.Constants
/-! Line protocol for the fine-grained fabric delivery model.

`fabfine tag n step*n`
  tag: 9 = generated (`Miros.Gen.fabTags.subscribeKeepsOthers`), 1 = true, 0 = false
  step: `0 q` subscribe q (two tokens) | `1` publish | `2` deliver
answer: `reg=<ids> fq=<uids> d=<idle|app:u:q:n|done> items=<q>:<u,u,…>;<q>:<…> blocked=<k>`
  (queues sorted by id, only those that received something; `k` = steps that were blocked/skipped)
-/
namespace Miros.Drive
open Miros.Conc.FabFine

def fabFineTags (code : Nat) : Tags :=
  if code = 9 then ⟨Miros.Gen.fabTags.subscribeKeepsOthers⟩ else ⟨code = 1⟩

def parseFabFine : P (Tags × List Step) := do
  let tc ← nat
  let n ← nat
  let mut steps : List Step := []
  for _ in [0:n] do
    let k ← nat
    if k = 0 then
      let q ← nat
      steps := steps ++ [.subscribe q]
    else if k = 1 then steps := steps ++ [.publish]
    else steps := steps ++ [.deliver]
  pure (fabFineTags tc, steps)

def showNats (l : List Nat) : String := ",".intercalate (l.map toString)

def showDPc : DPc → String
  | .idle => "idle"
  | .app u q n => s!"app:{u}:{q}:{n}"
  | .done => "done"

def showItems (m : List (Nat × List Nat)) : String :=
  let l := (m.filter fun p => !p.2.isEmpty).mergeSort fun a b => a.1 ≤ b.1
  ";".intercalate (l.map fun p => s!"{p.1}:{showNats p.2}")

def fabFineLine (toks : List Nat) : String :=
  let ((t, steps), _) := parseFabFine.run toks
  let s := run t init steps
  s!"reg={showNats s.reg} fq={showNats s.fq} d={showDPc s.d} items={showItems s.items} blocked={blocked t init steps}"

end Miros.Drive
