import MirosModel.Drive.Hsm
import MirosModel.Conc.Fabric
import MirosModel.Gen.Constants
/-! Line protocol for the fabric model.

`fab tags nSubs (id isAO)* nClients (nCalls (code a b c)*)* nSched tid*`
  tags: 9 = generated; else bits feOrder=prioSeq(1) lifoDeliver=appendleftForAO(2) startKeeps(4) clearInPlace(8) subscribeKeeps(16)
  call codes: 0 subscribe q sig kind(0 fifo,1 lifo) | 1 publish sig uid prio | 2 start | 3 stop | 4 clear | 5 is_alive
  tids: 0 fifo thread, 1 lifo thread, 2+i client i, 100+j zombie j
-/
namespace Miros.Drive
open Miros.Conc.Fab

def tagsOf (code : Nat) : Tags :=
  if code = 9 then Miros.Gen.fabTags
  else { feOrder := if code % 2 = 1 then .prioSeq else .prioOnly,
         lifoDeliver := if (code / 2) % 2 = 1 then .appendleftForAO else .append,
         startKeepsHandles := (code / 4) % 2 = 1, clearInPlace := (code / 8) % 2 = 1,
         subscribeKeepsOthers := (code / 16) % 2 = 1 }

structure FabCase where
  tags : Tags
  subs : List SubQ
  progs : List (List Call)
  sched : List Nat

def parseFab : P FabCase := do
  let tc ← nat
  let nS ← nat
  let mut subs : List SubQ := []
  for _ in [0:nS] do
    let id ← nat; let ao ← nat
    subs := subs ++ [⟨id, ao = 1, []⟩]
  let nC ← nat
  let mut progs : List (List Call) := []
  for _ in [0:nC] do
    let n ← nat
    let mut l : List Call := []
    for _ in [0:n] do
      let code ← nat; let a ← nat; let b ← nat; let c ← nat
      let call : Call :=
        if code = 0 then .subscribe a b (if c = 0 then .fifo else .lifo)
        else if code = 1 then .publish a b c
        else if code = 2 then .start else if code = 3 then .stop
        else if code = 4 then .clear else .isAlive
      l := l ++ [call]
    progs := progs ++ [l]
  let nSch ← nat
  let sched ← nats nSch
  pure ⟨tagsOf tc, subs, progs, sched⟩

def fabTids (s : State) : List Nat :=
  [0, 1] ++ (List.range s.clients.length).map (· + 2) ++ (List.range s.zombies.length).map (· + 100)

def fabEnabled (t : Tags) (s : State) : String :=
  ",".intercalate (((fabTids s).filter fun tid => (stepL t s tid).isSome).map toString)

def fabRun (t : Tags) : State → List Nat → List String → State × List String
  | s, [], acc => (s, acc)
  | s, tid :: ts, acc =>
    let en := fabEnabled t s
    match stepL t s tid with
    | some (s', lbl) => fabRun t s' ts (acc ++ [s!"{tid}:{lbl}:{en}"])
    | none => fabRun t s ts (acc ++ [s!"{tid}:DISABLED:{en}"])

def showReg (r : Registry) : String :=
  ";".intercalate (r.map fun (sg, qs) => s!"{sg}>" ++ ",".intercalate (qs.map toString))

def showSubs (l : List SubQ) : String :=
  ";".intercalate (l.map fun q => s!"{q.id}>" ++ ",".intercalate (q.items.map fun e => s!"{e.sig}.{e.uid}"))

def fabLine (toks : List Nat) : String :=
  let (h, _) := parseFab.run toks
  let (s, out) := fabRun h.tags (init h.subs h.progs) h.sched []
  let res := ",".intercalate ((s.clients.map (·.results)).flatten.map fun b => if b then "1" else "0")
  " | ".intercalate out ++
    s!" || regF={showReg s.regF} regL={showReg s.regL} subs={showSubs s.subs} liveF={liveCount s .fifo} liveL={liveCount s .lifo} fq={s.fq.length} lq={s.lq.length} flag={if s.flag then 1 else 0} err={if s.err then 1 else 0} alive={res} enabled={fabEnabled h.tags s}"

end Miros.Drive
