import MirosModel.Drive.Hsm
import MirosModel.Drive.AOArm
import MirosModel.Conc.AOOwn
import MirosModel.Gen.Constants
/-! Line protocol for the `stop()`-from-an-own-handler model (`Miros.Conc.AOOwn`).

`aoown tagClear tagJoin cap nArms (times name)*nArms nPosts nMore n step*n`
  tagClear: 9 = generated `Miros.Gen.aoStopClearsFlagFirst`, else 1/0 = clearsFlag
  tagJoin:  9 = generated `Miros.Gen.aoStopOwnJoinGuarded`, else 1/0 = ownJoinSkipped
  step: 0 = client K, 1 = consumer, 2+i = timer thread of source i (2..999), 1000 = surplus wake-up of the consumer
→ `c=<check|wait|hClear|hAppend|hCancel:len|fin|dead> k=<post:n|halt|more:n|done> run=<0/1> q=<a|h|s|t<i>,…>
   srcs=<flag><tracked>:<name>:<posts>:<postsAfterStop>;… haltDone=<0/1> stepsAfterHalt=<n> blocked=<count>`
-/
namespace Miros.Drive
open Miros.Conc Miros.Conc.AOOwn

def aoownTags (c j : Nat) : AOOwn.Tags :=
  ⟨if c = 9 then Miros.Gen.aoStopClearsFlagFirst else decide (c = 1),
   if j = 9 then Miros.Gen.aoStopOwnJoinGuarded else decide (j = 1)⟩

def aoownStep (n : Nat) : AOOwn.Step :=
  if n = 0 then .k else if n = 1 then .c else if n = 1000 then .w else .t (n - 2)

structure AOOwnCase where
  tags : AOOwn.Tags
  cap : Nat
  arms : List (Nat × Nat)
  nPosts : Nat
  nMore : Nat
  sched : List AOOwn.Step

def parseAOOwn : P AOOwnCase := do
  let tc ← nat
  let tj ← nat
  let cap ← nat
  let nA ← nat
  let mut arms : List (Nat × Nat) := []
  for _ in [0:nA] do
    let times ← nat; let name ← nat
    arms := arms ++ [(times, name)]
  let nPosts ← nat
  let nMore ← nat
  let n ← nat
  let steps ← nats n
  pure ⟨aoownTags tc tj, cap, arms, nPosts, nMore, steps.map aoownStep⟩

def showOwnCPc : AOOwn.CPc → String
  | .check => "check"
  | .wait => "wait"
  | .hClear => "hClear"
  | .hAppend => "hAppend"
  | .hCancel snap => s!"hCancel:{snap.length}"
  | .fin => "fin"
  | .dead => "dead"

def showOwnKPc : AOOwn.KPc → String
  | .post n => s!"post:{n}"
  | .halt => "halt"
  | .more n => s!"more:{n}"
  | .done => "done"

def showOwnEv : AOOwn.Ev → String
  | .arm => "a"
  | .halt => "h"
  | .stop => "s"
  | .tick i => s!"t{i}"

def aoownLine (toks : List Nat) : String :=
  let (h, _) := parseAOOwn.run toks
  let s0 := AOOwn.init h.cap h.arms h.nPosts h.nMore
  let s := (AOOwn.sys h.tags).run s0 h.sched
  let blocked := AOOwn.blockedCount h.tags s0 h.sched
  s!"c={showOwnCPc s.c} k={showOwnKPc s.k} run={bit s.runFlag} q={",".intercalate (s.q.map showOwnEv)} " ++
  s!"srcs={";".intercalate (s.srcs.map showSrc)} haltDone={bit s.haltDone} " ++
  s!"stepsAfterHalt={s.stepsAfterHalt} blocked={blocked}"

end Miros.Drive
