import MirosModel.Drive.Conc
import MirosModel.Conc.AO
import MirosModel.Gen.Constants
/-! Line protocol for the active-object system model (timers, cancel, stop).

`ao tags alg cap refl maxTimers nPosters (n (kind sig uid)*)* nClients (n (code a b c d e)*)* nSched tid*`
  tags: 9 generated, else bits checkBeforeStart(1) cancelEq(2) cancelLocked(4); alg: 0/1/9
  call codes: 0 timed kind sig period total deferred | 1 cancel_event id same | 2 cancel_events name same | 3 stop
  tids: 0 consumer, 1+i poster i, 200+i timer i, 300+j client j, 1000 clock
-/
namespace Miros.Drive
open Miros.Conc.LD Miros.Conc.AO Miros.Queue

structure AoCase where
  tags : Miros.Conc.AO.Tags
  cfg : Config
  progs : List (List (Kind × Ev))
  clients : List (List Miros.Conc.AO.Call)
  maxTimers : Nat
  sched : List Nat

def parseAo : P AoCase := do
  let tc ← nat
  let algc ← nat
  let cap ← nat
  let refl ← nat
  let maxT ← nat
  let nP ← nat
  let mut progs := []
  for _ in [0:nP] do
    let n ← nat
    let mut l : List (Kind × Ev) := []
    for _ in [0:n] do
      let k ← nat; let sg ← nat; let uid ← nat
      l := l ++ [(kindOf k, ⟨sg, uid⟩)]
    progs := progs ++ [l]
  let nC ← nat
  let mut clients : List (List Miros.Conc.AO.Call) := []
  for _ in [0:nC] do
    let n ← nat
    let mut l : List Miros.Conc.AO.Call := []
    for _ in [0:n] do
      let code ← nat; let a ← nat; let b ← nat; let c ← nat; let d ← nat; let e ← nat
      let call : Miros.Conc.AO.Call :=
        if code = 0 then .timed (kindOf a) b c d (e = 1)
        else if code = 1 then .cancelEvent a (b = 1)
        else if code = 2 then .cancelEvents a (b = 1)
        else .stop
      l := l ++ [call]
    clients := clients ++ [l]
  let nS ← nat
  let sched ← nats nS
  let alg : Alg := if algc = 0 then .legacy else if algc = 1 then .tokenAfter else Miros.Gen.ldAlg
  let tags : Miros.Conc.AO.Tags := if tc = 9 then Miros.Gen.aoTags else
    { checkBeforeStart := tc % 2 = 1, cancelEq := (tc / 2) % 2 = 1, cancelLocked := (tc / 4) % 2 = 1 }
  pure ⟨tags, { alg := alg, cap := cap, refl := refl = 1, stopSig := 99, selfPosts := fun _ => [] }, progs, clients, maxT, sched⟩

def aoTids (s : Miros.Conc.AO.State) : List Nat :=
  (List.range (s.ld.posters.length + 1)) ++ (List.range s.timers.length).map (· + 200)
    ++ (List.range s.clients.length).map (· + 300) ++ [1000]

def aoEnabled (g : Miros.Conc.AO.Tags) (c : Config) (s : Miros.Conc.AO.State) : String :=
  ",".intercalate (((aoTids s).filter fun t => (Miros.Conc.AO.stepL g c s t).isSome).map toString)

def aoRun (g : Miros.Conc.AO.Tags) (c : Config) : Miros.Conc.AO.State → List Nat → List String → Miros.Conc.AO.State × List String
  | s, [], acc => (s, acc)
  | s, t :: ts, acc =>
    let en := aoEnabled g c s
    match Miros.Conc.AO.stepL g c s t with
    | some (s', lbl) => aoRun g c s' ts (acc ++ [s!"{t}:{lbl}:{en}"])
    | none => aoRun g c s ts (acc ++ [s!"{t}:DISABLED:{en}"])

def showTimer (tm : Timer) : String :=
  s!"{tm.id}/{if tm.flag then 1 else 0}/{if tm.tracked then 1 else 0}/{tm.activated}/" ++
    ",".intercalate (tm.placedAt.map toString)

def aoLine (toks : List Nat) : String :=
  let (h, _) := parseAo.run toks
  let (s, out) := aoRun h.tags h.cfg (Miros.Conc.AO.init h.cfg h.progs h.clients h.maxTimers) h.sched []
  let res := ",".intercalate ((s.clients.map (·.results)).flatten.map toString)
  " | ".intercalate out ++
    s!" || dq={showEvs s.ld.dq} tok={s.ld.tok} disp={showEvs s.ld.dispatched} cpc={showCpc s.ld.cpc} now={s.now} timers={";".intercalate (s.timers.map showTimer)} results={res} err={if s.ld.err then 1 else 0} enabled={aoEnabled h.tags h.cfg s}"

end Miros.Drive
