import MirosModel.Drive.Queue
import MirosModel.Instr.Spy
/-! `qspy <chart as in hsm> cap rtcCap spyCap trcCap nEff (state sigcode effkind arg)* nOps (op arg)*`
  ops: 0 start s | 4 post_fifo sig | 5 post_lifo sig | 6 defer sig | 7 recall | 8 next_rtc
Answer: per op the rtc spy (`rtc=tok,tok,…`), then ` || full=… trace=… livespy=… livetrace=…`. -/
namespace Miros.Drive
open Miros.Hsm Miros.Queue Miros.Instr

def sigTok : Sig → String
  | .entry => "en" | .exit => "ex" | .init => "in" | .search => "su" | .empty => "em" | .refl => "rf"
  | .user n => s!"u{n}"

def lineTok : Line → String
  | .start => "st"
  | .call s sg => s!"c.{sid s}.{sigTok sg}"
  | .hook s n => s!"h.{sid s}.u{n}"
  | .postFifo sg => s!"pf.{sg}" | .postLifo sg => s!"pl.{sg}" | .postDeferred sg => s!"pd.{sg}"
  | .recall sg => s!"rc.{sg}" | .scribble i => s!"sc.{i}" | .refl q d => s!"rf.{q}.{d}"

def linesTok (l : List Line) : String := ",".intercalate (l.map lineTok)

def recTok (r : TraceRec) : String :=
  s!"{sid r.startState}>{match r.signal with | some n => s!"u{n}" | none => "start"}>{sid r.endState}"

def qspyLine (toks : List Nat) : String :=
  let p : P (QCase × Caps) := do
    let (cfg, tab, chart) ← parseChart
    let cap ← nat
    let rtc ← nat; let spy ← nat; let trc ← nat
    let el ← parseEffs
    let nOps ← nat
    let mut ops := []
    for _ in [0:nOps] do
      let o ← nat; let a ← nat
      ops := ops ++ [(o, a)]
    let eff : St → Sig → List Eff := fun s sg =>
      (el.filter (fun x => x.1 = sid s && x.2.1 = sigCode sg)).map (fun x => effOf x.2.2.1 x.2.2.2)
    pure (⟨cfg, tab, ⟨chart, eff⟩, cap, ops⟩, ⟨rtc, spy, trc⟩)
  let ((h, caps), _) := p.run toks
  let rec go : List (Nat × Nat) → IState → List String → IState × List String
    | [], st, acc => (st, acc)
    | (o, a) :: rest, st, acc =>
      let r : Option IState :=
        if o = 0 then iStart caps h.qc h.cfg st (h.tab.path a)
        else if o = 4 then some (clientPost caps st (.fifo a))
        else if o = 5 then some (clientPost caps st (.lifo a))
        else if o = 6 then some (clientPost caps st (.defer a))
        else if o = 7 then some (clientPost caps st .recall)
        else iNext caps h.qc h.cfg st
      match r with
      | some st' => go rest st' (acc ++ [s!"rtc={linesTok st'.rtcSpy}"])
      | none => (st, acc ++ ["raise"])
  let (st, out) := go h.ops (iInit h.cap) []
  " | ".intercalate out ++
    s!" || full={linesTok st.fullSpy} trace={",".intercalate (st.trace.map recTok)} livespy={linesTok st.liveSpy} livetrace={",".intercalate (st.liveTrace.map recTok)}"

end Miros.Drive
