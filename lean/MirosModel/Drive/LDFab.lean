import MirosModel.Drive.Conc
import MirosModel.Conc.LDFab
/-! Line protocol for the `LockingDeque` / consumer model with the fabric-stop thread (`LDFab`).

`ldfab alg cap refl stopSig nSelf (sig n (kind sig)*n)* nPosters (n (kind sig uid)*n)* nSched tid*`
  exactly the `ld` line (parsed by `parseLd`); schedule entry `500` is the `fabstop` step
  (`ActiveFabric().stop()` clears the fabric run event), any other entry is a thread of `ld`.
Answer: as for `ld` — `tid:label:enabled,…` per effective step (`tid:DISABLED:…` if the scheduled
thread is not enabled in the model), with `500:fabstop:…` for the new step; the enabled set lists
`500` (last) while the fabric flag is up — then ` || `, the final state as for `ld` (its `enabled=`
list follows the same rule) and ` fab=<0/1>`.
-/
namespace Miros.Drive
open Miros.Conc.LD Miros.Queue

/-- schedule entry → thread of `LDFab` -/
def ldfabTid (t : Nat) : Miros.Conc.LDFab.Tid := if t = 500 then .fabstop else .ld t

def ldfabEnabled (c : Config) (s : State) (n : Nat) : String :=
  ",".intercalate ((((List.range (n + 1)).filter fun t => (stepL c s t).isSome) ++
    (if s.fabFlag then [500] else [])).map toString)

def ldfabRun (c : Config) (np : Nat) : State → List Nat → List String → State × List String
  | s, [], acc => (s, acc)
  | s, t :: ts, acc =>
    let en := ldfabEnabled c s np
    match Miros.Conc.LDFab.step c s (ldfabTid t) with
    | some (s', lbl) => ldfabRun c np s' ts (acc ++ [s!"{t}:{lbl}:{en}"])
    | none => ldfabRun c np s ts (acc ++ [s!"{t}:DISABLED:{en}"])

def ldfabLine (toks : List Nat) : String :=
  let (h, _) := parseLd.run toks
  let s0 := Miros.Conc.LDFab.init h.cfg h.progs
  let np := h.progs.length
  let (s, out) := ldfabRun h.cfg np s0 h.sched []
  let done := s.posters.all (fun p => p.posts.isEmpty) && s.inline.posts.isEmpty
  " | ".intercalate out ++
    s!" || dq={showEvs s.dq} tok={s.tok} unf={s.unfinished} disp={showEvs s.dispatched} displaced={showEvs s.displaced} cpc={showCpc s.cpc} done={if done then 1 else 0} err={if s.err then 1 else 0} enabled={ldfabEnabled h.cfg s np} fab={if s.fabFlag then 1 else 0}"

end Miros.Drive
