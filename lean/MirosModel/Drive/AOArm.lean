import MirosModel.Drive.Hsm
import MirosModel.Conc.AOArm
import MirosModel.Gen.Constants
/-! Line protocol for the `stop()`-versus-arming-handlers model (`Miros.Conc.AOArm`).

`aoarm tag cap nArms (times name)*nArms nPosts n step*n`
  tag: 9 = generated `Miros.Gen.aoStopSnapshotAfterJoin`, else 1/0 = snapshotAfterJoin
  step: 0 = client K, 1 = consumer, 2+i = timer thread of source i (2..999), 1000 = surplus wake-up of the consumer
→ `c=<check|wait|fin> k=<post:n|stopClear|stopAppend|join|cancel:len|done> run=<0/1> q=<a|s|t<i>,…>
   srcs=<flag><tracked>:<name>:<posts>:<postsAfterStop>;… stopReturned=<0/1> stepsAfterStop=<n> blocked=<count>`
-/
namespace Miros.Drive
open Miros.Conc Miros.Conc.AOArm

def aoarmTags (code : Nat) : AOArm.Tags :=
  if code = 9 then ⟨Miros.Gen.aoStopSnapshotAfterJoin⟩ else ⟨code = 1⟩

def aoarmStep (n : Nat) : AOArm.Step :=
  if n = 0 then .k else if n = 1 then .c else if n = 1000 then .w else .t (n - 2)

structure AOArmCase where
  tags : AOArm.Tags
  cap : Nat
  arms : List (Nat × Nat)
  nPosts : Nat
  sched : List AOArm.Step

def parseAOArm : P AOArmCase := do
  let tc ← nat
  let cap ← nat
  let nA ← nat
  let mut arms : List (Nat × Nat) := []
  for _ in [0:nA] do
    let times ← nat; let name ← nat
    arms := arms ++ [(times, name)]
  let nPosts ← nat
  let n ← nat
  let steps ← nats n
  pure ⟨aoarmTags tc, cap, arms, nPosts, steps.map aoarmStep⟩

def bit (b : Bool) : String := if b then "1" else "0"

def showCPc : AOArm.CPc → String
  | .check => "check"
  | .wait => "wait"
  | .fin => "fin"

def showKPc : AOArm.KPc → String
  | .post n => s!"post:{n}"
  | .stopClear => "stopClear"
  | .stopAppend => "stopAppend"
  | .join => "join"
  | .cancel snap => s!"cancel:{snap.length}"
  | .done => "done"

def showArmEv : AOArm.Ev → String
  | .arm => "a"
  | .stop => "s"
  | .tick i => s!"t{i}"

def showSrc (x : AOArm.Src) : String :=
  s!"{bit x.flag}{bit x.tracked}:{x.name}:{x.posts}:{x.postsAfterStop}"

def aoarmLine (toks : List Nat) : String :=
  let (h, _) := parseAOArm.run toks
  let s0 := AOArm.init h.cap h.arms h.nPosts
  let s := (AOArm.sys h.tags).run s0 h.sched
  let blocked := AOArm.blockedCount h.tags s0 h.sched
  s!"c={showCPc s.c} k={showKPc s.k} run={bit s.runFlag} q={",".intercalate (s.q.map showArmEv)} " ++
  s!"srcs={";".intercalate (s.srcs.map showSrc)} stopReturned={bit s.stopReturned} " ++
  s!"stepsAfterStop={s.stepsAfterStop} blocked={blocked}"

end Miros.Drive
