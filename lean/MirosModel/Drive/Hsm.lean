import MirosModel.Hsm.Spec
import MirosModel.Gen.Constants
/-! Line-protocol front end for layer 1 (used by Driver.lean). Numeric tokens only.

`hsm <cfg> n p1..pn i1..in x1..xn depth nR (s sig kind tgt)*nR nOps (op arg)*nOps`
  cfg: 9 = generated `Gen.cfg`, else bits resync(1) drillGuard(2) initGuard(4) superGuard(16)
       (the historical codes 0..7 have `superGuard = false`; 16..23 are the same with it on)
  kind: 0 tran, 1 handled, 2 unhandled, 3 none   (absent ⇒ pass)
  op: 0 start s | 1 dispatch n | 2 is_in X | 3 child_state P | 4 (test only) place the chart in state s
`hsmspec …` same input, answers with the UML spec instead of the faithful model.
`hsmf …` the `hsm` format with ` nFall f1..f_nFall` (ids of the fall-through states: handlers without
  final `else`) inserted directly after `depth`; `hsm` / `hsmspec` charts have none.
-/
namespace Miros.Drive
open Miros.Hsm

abbrev P := StateM (List Nat)
def nat : P Nat := do
  let l ← get
  match l with
  | [] => pure 0
  | x :: r => set r; pure x
def nats (n : Nat) : P (List Nat) := do
  let mut r := []
  for _ in [0:n] do
    r := r ++ [← nat]
  pure r

structure Tab where
  n : Nat
  parent : List Nat
  deriving Repr

def pathOf (t : Tab) : Nat → Nat → St
  | 0, _ => []
  | fuel + 1, i => if i = 0 then [] else i :: pathOf t fuel ((t.parent[i - 1]?).getD 0)

def Tab.path (t : Tab) (i : Nat) : St := pathOf t (t.n + 1) i

def sid (s : St) : Nat := s.headD 0

def showSig : Sig → String
  | .entry => "en" | .exit => "ex" | .init => "in" | .search => "su"
  | .empty => "em" | .refl => "rf" | .user n => s!"u{n}"

def showLog (l : Log) : String :=
  ",".intercalate (l.map fun c => s!"{sid c.s}.{showSig c.sig}")

def cfgOf (code : Nat) : Cfg :=
  if code = 9 then Miros.Gen.cfg
  else { resync := code % 2 = 1, drillGuard := (code / 2) % 2 = 1, initGuard := (code / 4) % 2 = 1,
         superGuard := (code / 16) % 2 = 1 }

structure HCase where
  cfg : Cfg
  tab : Tab
  chart : Chart
  ops : List (Nat × Nat)

def parseChartF (withFall : Bool) : P (Cfg × Tab × Chart) := do
  let code ← nat
  let n ← nat
  let parent ← nats n
  let inits ← nats n
  let exith ← nats n
  let depth ← nat
  let falls ← if withFall then (do let nF ← nat; nats nF) else pure []
  let nR ← nat
  let mut rl : List (Nat × Nat × Nat × Nat) := []
  for _ in [0:nR] do
    let s ← nat; let sg ← nat; let k ← nat; let t ← nat
    rl := rl ++ [(s, sg, k, t)]
  let tab : Tab := ⟨n, parent⟩
  let chart : Chart := {
    react := fun s sg =>
      match rl.find? (fun x => x.1 = sid s && x.2.1 = sg) with
      | some (_, _, k, t) =>
        if k = 0 then .tran (tab.path t) else if k = 1 then .handled
        else if k = 2 then .unhandled else .none
      | none => .pass
    init := fun s =>
      match inits[sid s - 1]? with
      | some t => if sid s = 0 || t = 0 then none else some (tab.path t)
      | none => none
    exitH := fun s => (exith[sid s - 1]?).getD 1 = 1
    depth := depth
    fall := fun s => sid s != 0 && falls.contains (sid s) }
  pure (cfgOf code, tab, chart)

def parseChart : P (Cfg × Tab × Chart) := parseChartF false

def parseCaseF (withFall : Bool) : P HCase := do
  let (cfg, tab, chart) ← parseChartF withFall
  let nOps ← nat
  let mut ops := []
  for _ in [0:nOps] do
    let o ← nat; let a ← nat
    ops := ops ++ [(o, a)]
  pure ⟨cfg, tab, chart, ops⟩

def parseCase : P HCase := parseCaseF false

def showRes (tag : String) (r : Res) : String :=
  s!"{tag} state={sid r.state} temp={sid r.temp} log={showLog r.log}"

def showOutcome (o : Outcome Res) : String × Option Res :=
  match o with
  | .ok r => (showRes "ok" r, some r)
  | .raise l => (s!"raise log={showLog l}", none)
  | .diverge l => (s!"diverge log={showLog l}", none)

/-- a query: `tag` renders the answer (`none` = AssertionError, the caller may go on) -/
def showQuery {α : Type} (tag : α → Option String) (o : Outcome (α × Res)) : String × Bool :=
  match o with
  | .ok (a, r) =>
    match tag a with
    | some t => (showRes t r, true)
    | none => (s!"assert state={sid r.state} temp={sid r.temp} log={showLog r.log}", true)
  | .raise l => (s!"raise log={showLog l}", false)
  | .diverge l => (s!"diverge log={showLog l}", false)

def runOps (h : HCase) : List (Nat × Nat) → St → List String → List String
  | [], _, acc => acc
  | (o, a) :: rest, cur, acc =>
    if o = 0 then
      match showOutcome (startAt h.chart h.cfg (h.tab.path a)) with
      | (s, some r) => runOps h rest r.state (acc ++ [s])
      | (s, none) => acc ++ [s]
    else if o = 1 then
      match showOutcome (dispatch h.chart h.cfg cur a) with
      | (s, some r) => runOps h rest r.state (acc ++ [s])
      | (s, none) => acc ++ [s]
    else if o = 2 then
      match showQuery (fun b => some (if b then "ok res=1" else "ok res=0")) (isIn h.chart cur (h.tab.path a)) with
      | (s, true) => runOps h rest cur (acc ++ [s])
      | (s, false) => acc ++ [s]
    else if o = 4 then
      -- test only: place the chart in state `a` (state.fun = temp.fun = a) without running anything
      runOps h rest (h.tab.path a) (acc ++ [showRes "ok" ⟨h.tab.path a, h.tab.path a, []⟩])
    else
      -- a failed query (AssertionError) is reported and the caller may go on using the chart
      match showQuery (fun (r : Option St) => r.map fun ch => s!"ok res={sid ch}")
          (childState h.chart cur (h.tab.path a)) with
      | (s, true) => runOps h rest cur (acc ++ [s])
      | (s, false) => acc ++ [s]

def hsmLine (toks : List Nat) : String :=
  let (h, _) := parseCase.run toks
  " | ".intercalate (runOps h h.ops [] [])

def hsmfLine (toks : List Nat) : String :=
  let (h, _) := (parseCaseF true).run toks
  " | ".intercalate (runOps h h.ops [] [])

/-- the same operations answered by the (checked) specification (actions only) -/
def specOps (h : HCase) : List (Nat × Nat) → St → List String → List String
  | [], _, acc => acc
  | (o, a) :: rest, cur, acc =>
    if o = 0 then
      match specStartC h.chart (h.tab.path a) with
      | some r => specOps h rest r.state (acc ++ [s!"ok state={sid r.state} log={showLog r.log}"])
      | none => acc ++ ["raise"]
    else if o = 1 then
      match specDispatchC h.chart cur a with
      | some r => specOps h rest r.state (acc ++ [s!"ok state={sid r.state} log={showLog r.log}"])
      | none => acc ++ ["raise"]
    else if o = 2 then
      specOps h rest cur (acc ++ [s!"ok res={if specIsIn cur (h.tab.path a) then 1 else 0} state={sid cur} log="])
    else
      match specChild cur (h.tab.path a) with
      | some ch => specOps h rest cur (acc ++ [s!"ok res={sid ch} state={sid cur} log="])
      | none => specOps h rest cur (acc ++ [s!"assert state={sid cur} log="])

def hsmSpecLine (toks : List Nat) : String :=
  let (h, _) := parseCase.run toks
  " | ".intercalate (specOps h h.ops [] [])

end Miros.Drive
