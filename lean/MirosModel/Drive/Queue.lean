import MirosModel.Drive.Hsm
import MirosModel.Queue.Model
import MirosModel.Queue.Unbounded
/-! Line protocol for layer 2.

`q <chart as in hsm> cap nEff (state sigcode effkind arg)* nOps (op arg)*`
  sigcode: 0 entry, 1 exit, 2 init, 10+n user n ; effkind: 0 fifo 1 lifo 2 defer 3 recall 4 scribble
  op: 0 start s | 4 post_fifo sig | 5 post_lifo sig | 6 defer sig | 7 recall | 8 next_rtc | 9 complete_circuit
  cap: a number (`QUEUE_SIZE = cap`), or the literal `U` (`QUEUE_SIZE = None`, unbounded queues)
-/
namespace Miros.Drive
open Miros.Hsm Miros.Queue

def sigCode : Sig → Nat
  | .entry => 0 | .exit => 1 | .init => 2 | .user n => 10 + n
  | .search => 3 | .empty => 4 | .refl => 5

def showEvs (l : List Ev) : String := ",".intercalate (l.map fun e => s!"{e.sig}.{e.uid}")

structure QCase where
  cfg : Cfg
  tab : Tab
  qc : QChart
  cap : Nat
  ops : List (Nat × Nat)

def parseEffs : P (List (Nat × Nat × Nat × Nat)) := do
  let nE ← nat
  let mut el : List (Nat × Nat × Nat × Nat) := []
  for _ in [0:nE] do
    let s ← nat; let sc ← nat; let k ← nat; let a ← nat
    el := el ++ [(s, sc, k, a)]
  pure el

def effOf (k a : Nat) : Eff :=
  if k = 0 then .fifo a else if k = 1 then .lifo a else if k = 2 then .defer a
  else if k = 3 then .recall else .scribble a

def parseQCase : P QCase := do
  let (cfg, tab, chart) ← parseChart
  let cap ← nat
  let el ← parseEffs
  let nOps ← nat
  let mut ops := []
  for _ in [0:nOps] do
    let o ← nat; let a ← nat
    ops := ops ++ [(o, a)]
  let eff : St → Sig → List Eff := fun s sg =>
    (el.filter (fun x => x.1 = sid s && x.2.1 = sigCode sg)).map (fun x => effOf x.2.2.1 x.2.2.2)
  pure ⟨cfg, tab, ⟨chart, eff⟩, cap, ops⟩

def showQ (ret : String) (s : QState) (log : Log) : String :=
  s!"ok ret={ret} cur={sid s.cur} q={showEvs s.q} d={showEvs s.dq} disp={showEvs s.dispatched} log={showLog log}"

def qOps (h : QCase) : List (Nat × Nat) → QState → List String → List String
  | [], _, acc => acc
  | (o, a) :: rest, s, acc =>
    if o = 0 then
      match startQ h.qc h.cfg s (h.tab.path a) with
      | .stepped s1 log => qOps h rest s1 (acc ++ [showQ "-" s1 log])
      | .idle s1 => qOps h rest s1 (acc ++ [showQ "-" s1 []])
      | .failed => acc ++ ["raise"]
    else if o = 4 then let s1 := applyEff s (.fifo a); qOps h rest s1 (acc ++ [showQ "-" s1 []])
    else if o = 5 then let s1 := applyEff s (.lifo a); qOps h rest s1 (acc ++ [showQ "-" s1 []])
    else if o = 6 then let s1 := applyEff s (.defer a); qOps h rest s1 (acc ++ [showQ "-" s1 []])
    else if o = 7 then
      let (s1, r) := recall s
      let rs := match r with | some e => s!"{e.sig}.{e.uid}" | none => "None"
      qOps h rest s1 (acc ++ [showQ rs s1 []])
    else if o = 8 then
      match nextRtc h.qc h.cfg s with
      | .stepped s1 log => qOps h rest s1 (acc ++ [showQ "True" s1 log])
      | .idle s1 => qOps h rest s1 (acc ++ [showQ "False" s1 []])
      | .failed => acc ++ ["raise"]
    else
      match completeCircuit h.qc h.cfg 300 s with
      | some s1 => qOps h rest s1 (acc ++ [showQ "-" s1 []])
      | none => acc ++ ["diverge"]

def qLine (toks : List Nat) : String :=
  let (h, _) := parseQCase.run toks
  let s0 : QState := { cap := h.cap, q := [], dq := [], cur := [], next := 0, dispatched := [] }
  " | ".intercalate (qOps h h.ops s0 [])

/-! ### `QUEUE_SIZE = None`: capacity token `U`

`q <chart> U nEff … nOps …` — the literal `U` in the place of the capacity runs the unbounded model
(`Queue/Unbounded.lean`: `traceOpsU`); same operations, same output format as for a number. -/

/-- the operation codes of the line protocol as operations of the model -/
def xopOf (h : QCase) (o a : Nat) : XOp :=
  if o = 0 then .start (h.tab.path a)
  else if o = 4 then .postFifo a
  else if o = 5 then .postLifo a
  else if o = 6 then .defer a
  else if o = 7 then .recall
  else if o = 8 then .nextRtc
  else .completeCircuit 300

def showRet : Ret → String
  | .unit => "-"
  | .ev (some e) => s!"{e.sig}.{e.uid}"
  | .ev none => "None"
  | .bool true => "True"
  | .bool false => "False"

def showQU (ret : String) (u : QStateU) (log : Log) : String :=
  s!"ok ret={ret} cur={sid u.cur} q={showEvs u.q} d={showEvs u.dq} disp={showEvs u.dispatched} log={showLog log}"

def showX : XRes QStateU → String
  | .ok ret u log => showQU (showRet ret) u log
  | .raise => "raise"
  | .diverge => "diverge"

def qLineU (toks : List Nat) : String :=
  let (h, _) := parseQCase.run toks
  " | ".intercalate ((traceOpsU h.qc h.cfg (initU []) (h.ops.map fun (o, a) => xopOf h o a)).map showX)

/-- the bounded model through the same recording runner (`traceOps`); prints what `qLine` prints
(used to cross-check `qOps` against `traceOps`: family `qx`) -/
def qLineX (toks : List Nat) : String :=
  let (h, _) := parseQCase.run toks
  let s0 : QState := { cap := h.cap, q := [], dq := [], cur := [], next := 0, dispatched := [] }
  " | ".intercalate ((traceOps h.qc h.cfg s0 (h.ops.map fun (o, a) => xopOf h o a)).map showX)

/-- entry of family `q` on the raw tokens: the capacity token (the first token after the chart) may
be the literal `U`; every other token is a number (anything else is dropped, as before) -/
def qLineS (rest : List String) : String :=
  let kept := rest.filter (fun t => t == "U" || t.toNat?.isSome)
  let toks := kept.map (fun t => (t.toNat?).getD 0)
  let (_, afterChart) := parseChart.run toks
  let capIdx := toks.length - afterChart.length
  if kept[capIdx]? == some "U" then qLineU toks else qLine (rest.filterMap String.toNat?)

end Miros.Drive
