import MirosModel.Drive.Hsm
import MirosModel.Conc.Track
import MirosModel.Gen.Constants
/-! Line protocol for the tracked-source-list model (`Miros.Conc.Track`).

`track tag cap nThreads (nCalls (kind arg)*nCalls)*nThreads n step*n`
  tag: 9 = generated `Miros.Gen.aoTrackingLocked`, else 1/0 = locked
  kind: 0 = arm name, 1 = cancelName name, 2 = cancelId id
  step: index of the thread that moves
→ `q=<id>:<name>:<flag>,… all=<id>:<name>:<flag>,… rejected=<n> owner=<-|i>
   pcs=<idle|armTest|armAppend|loopHead:k|loopAct:k>,… blocked=<count>`
-/
namespace Miros.Drive
open Miros.Conc Miros.Conc.Track

def trackTags (code : Nat) : Track.Tags :=
  if code = 9 then ⟨Miros.Gen.aoTrackingLocked⟩ else ⟨code = 1⟩

def trackCall (kind arg : Nat) : Track.Call :=
  if kind = 0 then .arm arg else if kind = 1 then .cancelName arg else .cancelId arg

structure TrackCase where
  tags : Track.Tags
  cap : Nat
  progs : List (List Track.Call)
  sched : List Track.Step

def parseTrack : P TrackCase := do
  let tc ← nat
  let cap ← nat
  let nT ← nat
  let mut progs : List (List Track.Call) := []
  for _ in [0:nT] do
    let nC ← nat
    let mut calls : List Track.Call := []
    for _ in [0:nC] do
      let kind ← nat; let arg ← nat
      calls := calls ++ [trackCall kind arg]
    progs := progs ++ [calls]
  let n ← nat
  let steps ← nats n
  pure ⟨trackTags tc, cap, progs, steps⟩

def showTrackRec (r : Track.Rec) : String :=
  s!"{r.id}:{r.name}:{if r.flag then "1" else "0"}"

def showTrackPc : Track.Pc → String
  | .idle => "idle"
  | .armTest => "armTest"
  | .armAppend _ => "armAppend"
  | .loopHead k _ => s!"loopHead:{k}"
  | .loopAct k _ _ => s!"loopAct:{k}"

def showTrackOwner : Option Nat → String
  | none => "-"
  | some i => s!"{i}"

def trackLine (toks : List Nat) : String :=
  let (h, _) := parseTrack.run toks
  let s0 := Track.init h.cap h.progs
  let s := (Track.sys h.tags).run s0 h.sched
  let blocked := Track.blockedCount h.tags s0 h.sched
  s!"q={",".intercalate (s.q.map showTrackRec)} all={",".intercalate (s.all.map showTrackRec)} " ++
  s!"rejected={s.rejected} owner={showTrackOwner s.owner} " ++
  s!"pcs={",".intercalate (s.threads.map fun t => showTrackPc t.pc)} blocked={blocked}"

end Miros.Drive
