import MirosModel.Drive.Hsm
import MirosModel.Drive.Queue
import MirosModel.Conc.LockingDeque
import MirosModel.Conc.LockingDequeSeq
import MirosModel.Gen.Constants
/-! Line protocol for the `LockingDeque` / consumer model.

`ld alg cap refl stopSig nSelf (sig n (kind sig)*n)* nPosters (n (kind sig uid)*n)* nSched tid*`
  alg: 0 legacy, 1 tokenAfter, 9 generated; kind: 0 fifo, 1 lifo; tid 0 consumer, i+1 poster i
Answer: `tid:label:enabled,…` per effective step (`tid:DISABLED` if the scheduled thread is not enabled
in the model), then ` || ` and the final state.
-/
namespace Miros.Drive
open Miros.Conc.LD Miros.Queue

def kindOf (n : Nat) : Kind := if n = 0 then .fifo else .lifo

structure LdCase where
  cfg : Config
  progs : List (List (Kind × Ev))
  sched : List Nat

def parseLd : P LdCase := do
  let algc ← nat
  let cap ← nat
  let refl ← nat
  let stopSig ← nat
  let nSelf ← nat
  let mut tbl : List (Nat × List (Kind × Nat)) := []
  for _ in [0:nSelf] do
    let sg ← nat; let n ← nat
    let mut l := []
    for _ in [0:n] do
      let k ← nat; let s2 ← nat
      l := l ++ [(kindOf k, s2)]
    tbl := tbl ++ [(sg, l)]
  let nP ← nat
  let mut progs := []
  for _ in [0:nP] do
    let n ← nat
    let mut l : List (Kind × Ev) := []
    for _ in [0:n] do
      let k ← nat; let sg ← nat; let uid ← nat
      l := l ++ [(kindOf k, ⟨sg, uid⟩)]
    progs := progs ++ [l]
  let nS ← nat
  let sched ← nats nS
  let alg : Alg := if algc = 0 then .legacy else if algc = 1 then .tokenAfter else Miros.Gen.ldAlg
  let cfg : Config := { alg := alg, cap := cap, refl := refl = 1, stopSig := stopSig,
                        selfPosts := fun sg => match tbl.find? (fun x => x.1 = sg) with
                                               | some (_, l) => l | none => [] }
  pure ⟨cfg, progs, sched⟩

def enabledSet (c : Config) (s : State) (n : Nat) : String :=
  ",".intercalate (((List.range (n + 1)).filter fun t => (stepL c s t).isSome).map toString)

def showCpc : CPc → String
  | .t => "t" | .w => "w" | .f => "f" | .n => "n" | .p => "p" | .r0 => "r0" | .r1 => "r1" | .h => "h"
  | .q1 => "q1" | .q2 => "q2" | .d => "d" | .fin => "fin"

def ldRun (c : Config) (np : Nat) : State → List Nat → List String → State × List String
  | s, [], acc => (s, acc)
  | s, t :: ts, acc =>
    let en := enabledSet c s np
    match stepL c s t with
    | some (s', lbl) => ldRun c np s' ts (acc ++ [s!"{t}:{lbl}:{en}"])
    | none => ldRun c np s ts (acc ++ [s!"{t}:DISABLED:{en}"])

def ldLine (toks : List Nat) : String :=
  let (h, _) := parseLd.run toks
  let s0 := init h.cfg h.progs
  let np := h.progs.length
  let (s, out) := ldRun h.cfg np s0 h.sched []
  let done := s.posters.all (fun p => p.posts.isEmpty) && s.inline.posts.isEmpty
  " | ".intercalate out ++
    s!" || dq={showEvs s.dq} tok={s.tok} unf={s.unfinished} disp={showEvs s.dispatched} displaced={showEvs s.displaced} cpc={showCpc s.cpc} done={if done then 1 else 0} err={if s.err then 1 else 0} enabled={enabledSet h.cfg s np}"

/-- `lds alg cap clearAcks nOps (op sig uid)*` — op: 0 append 1 appendleft 2 pop 3 popleft 4 clear 5 len;
clearAcks: 0/1, 9 = generated -/
def ldsLine (toks : List Nat) : String :=
  let p : P (Config × Bool × List SOp) := do
    let algc ← nat
    let cap ← nat
    let ca ← nat
    let n ← nat
    let mut ops : List SOp := []
    for _ in [0:n] do
      let o ← nat; let sg ← nat; let uid ← nat
      let op : SOp := if o = 0 then .append ⟨sg, uid⟩ else if o = 1 then .appendleft ⟨sg, uid⟩
        else if o = 2 then .pop else if o = 3 then .popleft else if o = 4 then .clear else .len
      ops := ops ++ [op]
    let alg : Alg := if algc = 0 then .legacy else if algc = 1 then .tokenAfter else Miros.Gen.ldAlg
    let acks := if ca = 9 then Miros.Gen.clearAcksEach else ca = 1
    pure ({ alg := alg, cap := cap, refl := false, stopSig := 99, selfPosts := fun _ => [] }, acks, ops)
  let ((c, acks, ops), _) := p.run toks
  let rec go (s : Seq) : List SOp → List String → List String
    | [], acc => acc
    | o :: rest, acc =>
      let (s', r) := seqStep c acks s o
      go { s' with err := false } rest (acc ++ [s!"{r} dq={showEvs s'.dq} tok={s'.tok} unf={s'.unfinished}"])
  " | ".intercalate (go seqInit ops [])

end Miros.Drive
