import MirosModel.Drive.Hsm
import MirosModel.Queue.EagerRecall
import MirosModel.Gen.Constants
/-! Line protocol for `recall()` re-entered from the step its own post started
(`Miros.Queue.Eager`: a chart whose `post_fifo` drains the queue, a handler that recalls).

`eager tag chain nOps (op arg)*nOps`
  tag: 9 = generated `Miros.Gen.recallPopsFirst`, 1 = popFirst (current source), 0 = peek first
  chain: 1 = the handler recalls when handed a payload `< 1000`, 0 = it never recalls
  op: 0 = defer arg | 1 = recall (arg ignored) | 2 = post arg
  fuel: `3 * nOps + 10` (never exhausted, see `C15_eager_fuel_enough_coarse`)
→ `dispatched=<a,b,…|-> returned=<n|x,…|-> dq=<…|-> q=<…|-> failed=<0|1> running=<0|1>`
  (`n` = a recall that returned None)
-/
namespace Miros.Drive
open Miros.Queue

def eagerTags (code : Nat) : Eager.Tags :=
  if code = 9 then ⟨Miros.Gen.recallPopsFirst⟩ else ⟨code = 1⟩

structure EagerCase where
  tags : Eager.Tags
  chain : Bool
  ops : List Eager.Op

def parseEager : P EagerCase := do
  let tc ← nat
  let ch ← nat
  let n ← nat
  let mut ops : List Eager.Op := []
  for _ in [0:n] do
    let o ← nat
    let a ← nat
    ops := ops ++ [if o = 0 then Eager.Op.defer a else if o = 1 then Eager.Op.recall else Eager.Op.post a]
  pure ⟨eagerTags tc, ch = 1, ops⟩

def showEagerNats (l : List Nat) : String :=
  if l.isEmpty then "-" else ",".intercalate (l.map toString)

def showEagerRet (l : List (Option Nat)) : String :=
  if l.isEmpty then "-"
  else ",".intercalate (l.map fun | none => "n" | some x => toString x)

def showEagerBool (b : Bool) : String := if b then "1" else "0"

def eagerLine (toks : List Nat) : String :=
  let (c, _) := parseEager.run toks
  let h : Nat → Bool := if c.chain then Eager.isDef else fun _ => false
  let fuel := 3 * c.ops.length + 10
  let s := Eager.runOps c.tags h fuel Eager.S.empty c.ops
  s!"dispatched={showEagerNats s.dispatched} returned={showEagerRet s.returned} " ++
  s!"dq={showEagerNats s.dq} q={showEagerNats s.q} failed={showEagerBool s.failed} " ++
  s!"running={showEagerBool s.running}"

end Miros.Drive
