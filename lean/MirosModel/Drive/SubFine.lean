import MirosModel.Drive.Hsm
import MirosModel.Conc.SubFine
import MirosModel.Gen.Constants
/-! Line protocol for the fine-grained `subscribe` model (`Miros.Conc.SubFine`).

`subfine tag nInit (sig nq q*nq)*nInit nThreads (nCalls (sig q)*nCalls)*nThreads n step*n`
  tag: 9 = generated from `Miros.Gen.fabSubscribeCoversAppend`, 2 = all, 1 = lookupOnly, 0 = none
  step: index of the thread that moves
→ `reg=<sig>:<q>.<q>…;<sig>:… owner=<-|i> pcs=<pc>,… done=<sig>:<q>,… blocked=<count>`
  (`reg=-` when the registry is empty; pc names: idle acquire look test append create release
  releaseThenTest)
-/
namespace Miros.Drive
open Miros.Conc Miros.Conc.SubFine

def subFineTags (code : Nat) : SubFine.Tags :=
  if code = 9 then ⟨if Miros.Gen.fabSubscribeCoversAppend then .all else .lookupOnly⟩
  else if code = 2 then ⟨.all⟩
  else if code = 1 then ⟨.lookupOnly⟩
  else ⟨.none⟩

structure SubFineCase where
  tags : SubFine.Tags
  reg : SubFine.Registry
  progs : List (List SubFine.Call)
  sched : List SubFine.Step

def parseSubFine : P SubFineCase := do
  let tc ← nat
  let nI ← nat
  let mut reg : SubFine.Registry := []
  for _ in [0:nI] do
    let sig ← nat
    let nq ← nat
    let qs ← nats nq
    reg := reg ++ [(sig, qs)]
  let nT ← nat
  let mut progs : List (List SubFine.Call) := []
  for _ in [0:nT] do
    let nC ← nat
    let mut calls : List SubFine.Call := []
    for _ in [0:nC] do
      let sig ← nat; let q ← nat
      calls := calls ++ [⟨sig, q⟩]
    progs := progs ++ [calls]
  let n ← nat
  let steps ← nats n
  pure ⟨subFineTags tc, reg, progs, steps⟩

def showSubFineEntry (e : Nat × List Nat) : String :=
  s!"{e.1}:{".".intercalate (e.2.map toString)}"

def showSubFineReg (r : SubFine.Registry) : String :=
  if r.isEmpty then "-" else ";".intercalate (r.map showSubFineEntry)

def showSubFinePc : SubFine.Pc → String
  | .idle => "idle"
  | .acquire => "acquire"
  | .look => "look"
  | .test => "test"
  | .append => "append"
  | .create => "create"
  | .release false => "release"
  | .release true => "releaseThenTest"

def showSubFineOwner : Option Nat → String
  | none => "-"
  | some i => s!"{i}"

def subFineLine (toks : List Nat) : String :=
  let (h, _) := parseSubFine.run toks
  let s0 := SubFine.init h.reg h.progs
  let s := (SubFine.sys h.tags).run s0 h.sched
  let blocked := SubFine.blockedCount h.tags s0 h.sched
  s!"reg={showSubFineReg s.reg} owner={showSubFineOwner s.owner} " ++
  s!"pcs={",".intercalate (s.threads.map fun t => showSubFinePc t.pc)} " ++
  s!"done={",".intercalate (s.done.map fun c => s!"{c.sig}:{c.q}")} blocked={blocked}"

end Miros.Drive
