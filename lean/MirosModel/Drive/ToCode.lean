import MirosModel.Drive.Hsm
import MirosModel.Text.ToCode
/-! `tocode n (sigcode cbkind target namedHandled)*n` — one state's registrations in order
  sigcode: 0 entry 1 init 2 exit 10+k user k ; cbkind: 0 tran 1 handled 2 unhandled
Answer: the ladder `sig:cb` joined by `,` (cb: `T<target>` | `H` | `U` | `H!` for the inlined HANDLED). -/
namespace Miros.Drive
open Miros.Text

def rsigOf (c : Nat) : RSig := if c = 0 then .entry else if c = 1 then .init else if c = 2 then .exit else .user (c - 10)
def rsigTok : RSig → String
  | .entry => "en" | .init => "in" | .exit => "ex" | .user n => s!"u{n}"

def tocodeLine (toks : List Nat) : String :=
  let p : P (List (RSig × Cb × Bool)) := do
    let n ← nat
    let mut tbl : List (RSig × Cb × Bool) := []
    for _ in [0:n] do
      let sc ← nat; let k ← nat; let t ← nat; let nh ← nat
      let cb : Cb := if k = 0 then .tran [t] else if k = 1 then .handled else .unhandled
      tbl := register tbl (rsigOf sc) cb (nh = 1)
    pure tbl
  let (tbl, _) := p.run toks
  ",".intercalate ((toCode tbl).map fun b =>
    match b with
    | .handledInline sg => s!"{rsigTok sg}:H!"
    | .call sg (.tran t) => s!"{rsigTok sg}:T{t.headD 0}"
    | .call sg .handled => s!"{rsigTok sg}:H"
    | .call sg .unhandled => s!"{rsigTok sg}:U")

end Miros.Drive
