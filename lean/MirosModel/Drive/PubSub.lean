import MirosModel.Drive.Hsm
import MirosModel.Conc.PubSub
import MirosModel.Gen.Constants
/-! `ps tags subInstr subRunning nOthers pubInstr pubRunning` → `subscribed=<0/1> published=<0/1>`
  tags: 9 generated, else bits wrapperAlwaysCalls(1) subscribedAsksOwnQueue(2).
  The subscriber's queue is id 1, other subscribers 2,3 are already registered for signal 7. -/
namespace Miros.Drive
open Miros.Conc.PS Miros.Conc.Fab

def psLine (toks : List Nat) : String :=
  let p : P (Miros.Conc.PS.Tags × Cfg × Nat × Cfg) := do
    let tc ← nat
    let si ← nat; let sr ← nat; let no ← nat; let pi ← nat; let pr ← nat
    let t : Miros.Conc.PS.Tags := if tc = 9 then Miros.Gen.psTags else ⟨tc % 2 = 1, (tc / 2) % 2 = 1⟩
    pure (t, ⟨si = 1, sr = 1, false⟩, no, ⟨pi = 1, pr = 1, false⟩)
  let ((t, sc, no, pc), _) := p.run toks
  let reg : Registry := if no = 0 then [] else [(7, (List.range no).map (· + 2))]
  let reg' := subscribeEffect t sc reg 7 1
  let sub := ((reg'.get 7).getD []).contains 1
  s!"subscribed={if sub then 1 else 0} published={if publishReaches t pc then 1 else 0}"

end Miros.Drive
