import MirosModel.Drive.Hsm
import MirosModel.Conc.FabFault
import MirosModel.Gen.Constants
/-! Line protocol for the fabric start/stop/die model.

`fabfault tag n op*n`
  tag: 9 = generated `Miros.Gen.fabStartChecksOwnThread`, 1 = true (initiate_thread tests the thread
       object's is_alive()), 0 = false (tests the whole fabric's is_alive())
  ops: 0 start | 1 stop | 2 die fifo | 3 die lifo | 4 isAlive   (any other code: isAlive)
answer: `live=F<count>L<count> handles=<hF alive 0/1><hL alive 0/1> flag=<0/1> stuck=<0/1> results=<0/1 digits>`
-/
namespace Miros.Drive
open Miros.Conc.FabFault

def fabFaultTags (code : Nat) : Tags :=
  if code = 9 then ⟨Miros.Gen.fabStartChecksOwnThread⟩ else ⟨code = 1⟩

def fabFaultOp (code : Nat) : Op :=
  if code = 0 then .start else if code = 1 then .stop
  else if code = 2 then .die .fifo else if code = 3 then .die .lifo else .isAlive

def parseFabFault : P (Tags × List Op) := do
  let tc ← nat
  let n ← nat
  let codes ← nats n
  pure (fabFaultTags tc, codes.map fabFaultOp)

def fabFaultLine (toks : List Nat) : String :=
  let ((t, ops), _) := parseFabFault.run toks
  let s := run t init ops
  let bit (b : Bool) : String := if b then "1" else "0"
  s!"live=F{countKind s .fifo}L{countKind s .lifo} handles={bit (handleAlive s .fifo)}{bit (handleAlive s .lifo)} " ++
    s!"flag={bit s.flag} stuck={bit s.stuck} results={String.join (s.results.map bit)}"

end Miros.Drive
