import MirosModel.Drive.Hsm
