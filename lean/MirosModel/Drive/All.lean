import MirosModel.Drive.Hsm
import MirosModel.Drive.Queue
