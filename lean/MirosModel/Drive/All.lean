import MirosModel.Drive.Hsm
import MirosModel.Drive.Queue
import MirosModel.Drive.Conc
import MirosModel.Drive.Fabric
import MirosModel.Drive.AO
import MirosModel.Drive.PubSub
import MirosModel.Drive.Instr
