import MirosModel.Drive.Hsm
import MirosModel.Conc.SingleInit
import MirosModel.Gen.Constants
/-! Line protocol for `SingletonDecorator.__call__` with initialisers that can fail
(`Miros.Conc.SingleInit`).

`singleinit tag nThreads (nReq ok*nReq)*nThreads n step*n`
  tag: 9 = generated `Miros.Gen.singletonPublishesEarly`, else 1/0 = publishEarly
  ok: 1 = the constructor accepts the request's arguments, 0 = its initialiser raises
  step: index of the thread that moves (one model step = one shared access)
→ `inst=<-|o> lock=<-|i> next=<n> inited=<o,…|-> failed=<o,…|->
   outs=<per thread: o<k> | r | n joined by '.', '-' if empty>,…
   pcs=<check|acquire|check2|alloc|storeEarly|initRun|store|rollback|release|releaseRaised|read|idle>,…
   blocked=<count of schedule entries that could not move>`
-/
namespace Miros.Drive
open Miros.Conc Miros.Conc.SingleInit

def singleInitTags (code : Nat) : SingleInit.Tags :=
  if code = 9 then ⟨Miros.Gen.singletonPublishesEarly⟩ else ⟨code = 1⟩

structure SingleInitCase where
  tags : SingleInit.Tags
  progs : List (List SingleInit.Req)
  sched : List SingleInit.Step

def parseSingleInit : P SingleInitCase := do
  let tc ← nat
  let nT ← nat
  let mut progs : List (List SingleInit.Req) := []
  for _ in [0:nT] do
    let nR ← nat
    let oks ← nats nR
    progs := progs ++ [oks.map fun k => (⟨k = 1⟩ : SingleInit.Req)]
  let n ← nat
  let steps ← nats n
  pure ⟨singleInitTags tc, progs, steps⟩

def showSingleInitPc : SingleInit.Pc → String
  | .check => "check"
  | .acquire => "acquire"
  | .check2 => "check2"
  | .alloc => "alloc"
  | .storeEarly => "storeEarly"
  | .initRun => "initRun"
  | .store => "store"
  | .rollback => "rollback"
  | .release false => "release"
  | .release true => "releaseRaised"
  | .read => "read"
  | .idle => "idle"

def showSingleInitOut : SingleInit.Out → String
  | .obj o => s!"o{o}"
  | .raised => "r"
  | .none => "n"

def showSingleInitOpt : Option Nat → String
  | none => "-"
  | some i => s!"{i}"

def showSingleInitNats (l : List Nat) : String :=
  if l.isEmpty then "-" else ",".intercalate (l.map toString)

def showSingleInitOuts (l : List SingleInit.Out) : String :=
  if l.isEmpty then "-" else ".".intercalate (l.map showSingleInitOut)

def singleInitLine (toks : List Nat) : String :=
  let (h, _) := parseSingleInit.run toks
  let s0 := SingleInit.init h.progs
  let s := (SingleInit.sys h.tags).run s0 h.sched
  let blocked := SingleInit.blockedCount h.tags s0 h.sched
  s!"inst={showSingleInitOpt s.instance_} lock={showSingleInitOpt s.lock} next={s.nextObj} " ++
  s!"inited={showSingleInitNats s.inited} failed={showSingleInitNats s.failed} " ++
  s!"outs={",".intercalate (s.threads.map fun t => showSingleInitOuts t.outs)} " ++
  s!"pcs={",".intercalate (s.threads.map fun t => showSingleInitPc t.pc)} blocked={blocked}"

end Miros.Drive
