import MirosModel.Drive.Hsm
import MirosModel.Data.Heap
import MirosModel.Gen.Constants
/-! Line protocol for the binary heap under the fabric's `PriorityQueue` (`heapq`).

`heap <tag> <n> <op>*n`
  tag: 9 = `Miros.Gen.fabTags`, 1 = `(priority, sequence number)` order, 0 = priority only
  op:  `1 <prio> <seq>` = `heappush(h, FabricEvent(prio, seq))`, `0` = `heappop(h)`
Answer (one line): per op, `;`-separated — after a push the array layout `p:s,p:s,…`; after a pop
`<p:s>|layout` (`empty|` when the heap was empty) — then ` heap=<0/1>` (`IsHeap` of the final array).
-/
namespace Miros.Drive
open Miros.Conc.Fab Miros.Data.Heap

def heapTags (code : Nat) : Tags :=
  if code = 9 then Miros.Gen.fabTags
  else { Miros.Gen.fabTags with feOrder := if code = 1 then .prioSeq else .prioOnly }

def parseHeap : P (Tags × List Op) := do
  let tc ← nat
  let n ← nat
  let mut ops : List Op := []
  for _ in [0:n] do
    let k ← nat
    if k = 1 then
      let p ← nat; let s ← nat
      ops := ops ++ [Op.push ⟨p, s, none⟩]
    else
      ops := ops ++ [Op.pop]
  pure (heapTags tc, ops)

def showFE (x : FE) : String := s!"{x.prio}:{x.seq}"

def showHeap (h : Heap) : String := ",".intercalate (h.map showFE)

def heapRun (t : Tags) : Heap → List Op → List String → Heap × List String
  | h, [], acc => (h, acc)
  | h, .push x :: ops, acc =>
    let h' := push t h x
    heapRun t h' ops (acc ++ [showHeap h'])
  | h, .pop :: ops, acc =>
    match pop t h with
    | none => heapRun t h ops (acc ++ ["empty|" ++ showHeap h])
    | some (r, h') => heapRun t h' ops (acc ++ [showFE r ++ "|" ++ showHeap h'])

def heapLine (toks : List Nat) : String :=
  let ((t, ops), _) := parseHeap.run toks
  let (h, out) := heapRun t [] ops []
  ";".intercalate out ++ s!" heap={if isHeapB t h then 1 else 0}"

end Miros.Drive
