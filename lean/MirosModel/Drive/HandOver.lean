import MirosModel.Drive.Hsm
import MirosModel.Instr.HandOver
import MirosModel.Gen.Constants
/-! Line protocol for the live-spy hand-over when a callback registers another callback
(`Miros.Instr.HandOver`).

`handover tag first nRules (sink line newSink)*nRules nOps (op …)*nOps`
  tag: 9 = generated `Miros.Gen.liveSpyReadsCallbackEachLine`, 1 = the callback is read for each
       line (current source), 0 = read once before the loop
  first: the sink registered at the start
  rules: sink `sink`, handed `line`, registers `newSink` (the first matching rule decides; no
         matching rule: the sink registers nothing)
  op: `0 n line*n` = a step that produced these n lines | `1 k` = the client registers sink k
→ `handed=<sink>:<line>,… registered=<k>`   (`handed=-` when nothing was handed over)
-/
namespace Miros.Drive
open Miros.Instr

def handOverTags (code : Nat) : HandOver.Tags :=
  if code = 9 then ⟨Miros.Gen.liveSpyReadsCallbackEachLine⟩ else ⟨code = 1⟩

structure HandOverCase where
  tags : HandOver.Tags
  first : Nat
  rules : List (Nat × Nat × Nat)
  ops : List HandOver.Op

def parseHandOver : P HandOverCase := do
  let tc ← nat
  let first ← nat
  let nr ← nat
  let mut rules : List (Nat × Nat × Nat) := []
  for _ in [0:nr] do
    let k ← nat
    let l ← nat
    let k' ← nat
    rules := rules ++ [(k, l, k')]
  let n ← nat
  let mut ops : List HandOver.Op := []
  for _ in [0:n] do
    let o ← nat
    if o = 0 then
      let m ← nat
      let ls ← nats m
      ops := ops ++ [HandOver.Op.step ls]
    else
      let k ← nat
      ops := ops ++ [HandOver.Op.register k]
  pure ⟨handOverTags tc, first, rules, ops⟩

def showHanded (l : List (Nat × Nat)) : String :=
  if l.isEmpty then "-" else ",".intercalate (l.map fun p => s!"{p.1}:{p.2}")

def handoverLine (toks : List Nat) : String :=
  let (c, _) := parseHandOver.run toks
  let s := HandOver.runOps c.tags (HandOver.ruleB c.rules) (HandOver.S.init c.first) c.ops
  s!"handed={showHanded s.handed} registered={s.registered}"

end Miros.Drive
