import MirosModel.Drive.Hsm
import MirosModel.Conc.SingleNested
import MirosModel.Gen.Constants
/-! Line protocol for a singleton first requested from inside the constructors of other singletons
(`Miros.Conc.SingleNested`).

`singlenested tag nThreads req*nThreads n step*n`
  tag: 9 = generated `Miros.Gen.singletonNestedSkipsLock`, else 1/0 = nestedSkipsLock
  req: 0 = the inner singleton, k = outer singleton k (1 or 2; any k ≥ 1 is accepted)
  step: index of the thread that moves (one model step = one shared access of its top frame)
→ `insts=<-|o>,<-|o>,<-|o>          (decorators 0, 1, 2; more if an outer k > 2 was requested)
   made=<dec>:<obj>,…|-             (in order of construction)
   rets=<per thread: - (not returned yet) | <obj|->/<inner obj|->>,…
   pcs=<per thread, top frame: check|acquire|check2|construct|construct2|store|release|read, or done>,…
   blocked=<count of schedule entries that could not move>`
-/
namespace Miros.Drive
open Miros.Conc Miros.Conc.SingleNested

def singleNestedTags (code : Nat) : SingleNested.Tags :=
  if code = 9 then ⟨Miros.Gen.singletonNestedSkipsLock⟩ else ⟨code = 1⟩

structure SingleNestedCase where
  tags : SingleNested.Tags
  reqs : List SingleNested.Req
  sched : List SingleNested.Step

def parseSingleNested : P SingleNestedCase := do
  let tc ← nat
  let nT ← nat
  let rs ← nats nT
  let n ← nat
  let steps ← nats n
  pure ⟨singleNestedTags tc, rs.map fun k => if k = 0 then .inner else .outer k, steps⟩

def showSingleNestedPc : SingleNested.Pc → String
  | .check => "check"
  | .acquire => "acquire"
  | .check2 => "check2"
  | .construct => "construct"
  | .construct2 => "construct2"
  | .store => "store"
  | .release => "release"
  | .read => "read"

def showSingleNestedOpt : Option Nat → String
  | none => "-"
  | some i => s!"{i}"

def showSingleNestedTop (t : SingleNested.Thread) : String :=
  match t.stack with
  | [] => "done"
  | f :: _ => showSingleNestedPc f.pc

def showSingleNestedRet (t : SingleNested.Thread) : String :=
  match t.ret with
  | none => "-"
  | some (o, io) => s!"{showSingleNestedOpt o}/{showSingleNestedOpt io}"

def singleNestedLine (toks : List Nat) : String :=
  let (h, _) := parseSingleNested.run toks
  let s0 := SingleNested.init h.reqs
  let s := (SingleNested.sys h.tags).run s0 h.sched
  let blocked := SingleNested.blockedCount h.tags s0 h.sched
  let insts := (List.range (max 3 s.insts.length)).map fun d => showSingleNestedOpt (getI s.insts d)
  let made := if s.made.isEmpty then "-" else ",".intercalate (s.made.map fun p => s!"{p.1}:{p.2}")
  s!"insts={",".intercalate insts} made={made} " ++
  s!"rets={",".intercalate (s.threads.map showSingleNestedRet)} " ++
  s!"pcs={",".intercalate (s.threads.map showSingleNestedTop)} blocked={blocked}"

end Miros.Drive
