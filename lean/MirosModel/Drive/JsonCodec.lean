import MirosModel.Drive.Hsm
import MirosModel.Text.JsonCodec
/-! Line protocol for the JSON text codec.

A value in prefix tokens: `0` null, `1 b` bool, `2 <sign 0|1> <ndigits> <digit>*` int (sign 1: negative,
decimal digits most significant first), `3 <len> <cp>*len` string, `4 <k> <value>*k` array,
`5 <k> (<len> <cp>*len <value>)*k` object.

`jsonc enc <n> <tok>*n`   → the code points of `enc v`, space-separated decimals (`bad-value` if the tokens
                            are not a value)
`jsonc dec <len> <cp>*len` → `none`, or the value `json.loads` returns (`normV` of the parsed value: the
                            members of an object as a Python dict holds them) in the same tokens -/
namespace Miros.Drive
open Miros.Text.JsonCodec

def jcTake : Nat → List Nat → List Nat × List Nat
  | 0, l => ([], l)
  | _ + 1, [] => ([], [])
  | n + 1, x :: l => ((jcTake n l).1.cons x, (jcTake n l).2)

mutual
def jcReadV : Nat → List Nat → Option (V × List Nat)
  | 0, _ => none
  | _ + 1, [] => none
  | fuel + 1, t :: r =>
    if t = 0 then some (.null, r)
    else if t = 1 then match r with
      | b :: r' => some (.bool (b != 0), r')
      | [] => none
    else if t = 2 then match r with
      | sg :: n :: r' =>
        let (ds, r'') := jcTake n r'
        let m : Nat := ds.foldl (fun a d => a * 10 + d) 0
        some (.int (if sg = 1 then -(m : Int) else (m : Int)), r'')
      | _ => none
    else if t = 3 then match r with
      | n :: r' => let (s, r'') := jcTake n r'; some (.str s, r'')
      | [] => none
    else if t = 4 then match r with
      | k :: r' => match jcReadVs fuel k r' with
        | some (xs, r'') => some (.arr xs, r'')
        | none => none
      | [] => none
    else if t = 5 then match r with
      | k :: r' => match jcReadMs fuel k r' with
        | some (kvs, r'') => some (.obj kvs, r'')
        | none => none
      | [] => none
    else none
def jcReadVs : Nat → Nat → List Nat → Option (List V × List Nat)
  | 0, _, _ => none
  | _ + 1, 0, r => some ([], r)
  | fuel + 1, k + 1, r =>
    match jcReadV fuel r with
    | none => none
    | some (x, r') => match jcReadVs fuel k r' with
      | none => none
      | some (xs, r'') => some (x :: xs, r'')
def jcReadMs : Nat → Nat → List Nat → Option (List (List Nat × V) × List Nat)
  | 0, _, _ => none
  | _ + 1, 0, r => some ([], r)
  | _ + 1, _ + 1, [] => none
  | fuel + 1, k + 1, n :: r =>
    let (key, r0) := jcTake n r
    match jcReadV fuel r0 with
    | none => none
    | some (x, r') => match jcReadMs fuel k r' with
      | none => none
      | some (kvs, r'') => some ((key, x) :: kvs, r'')
end

mutual
def jcShowV : V → List Nat
  | .null => [0]
  | .bool b => [1, if b then 1 else 0]
  | .int n =>
    let ds := (natDigits n.natAbs).map (· - 48)
    [2, if n < 0 then 1 else 0, ds.length] ++ ds
  | .str s => [3, s.length] ++ s
  | .arr xs => [4, xs.length] ++ jcShowVs xs
  | .obj kvs => [5, kvs.length] ++ jcShowMs kvs
def jcShowVs : List V → List Nat
  | [] => []
  | x :: xs => jcShowV x ++ jcShowVs xs
def jcShowMs : List (List Nat × V) → List Nat
  | [] => []
  | (k, x) :: kvs => [k.length] ++ k ++ jcShowV x ++ jcShowMs kvs
end

def jcNums (l : List Nat) : String := " ".intercalate (l.map toString)

def jsoncLine (mode : String) (toks : List Nat) : String :=
  match mode, toks with
  | "enc", n :: r =>
    match jcReadV (2 * n + 2) (r.take n) with
    | some (v, []) => jcNums (enc v)
    | _ => "bad-value"
  | "dec", n :: r =>
    match dec (r.take n) with
    | none => "none"
    | some v => jcNums (jcShowV (normV v))
  | _, _ => "bad-mode"

end Miros.Drive
