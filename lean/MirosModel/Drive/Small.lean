import MirosModel.Drive.Hsm
import MirosModel.Conc.Small
import MirosModel.Gen.Constants
/-! Line protocol for the small protocols.  The implementation is run with yield points at the lock
operations only; a scheduled thread performs its pending lock operation and then runs on to its next
lock operation.  The driver does the same on the model ("macro step").

`single locked n nSched tid*`               → returned object ids per thread
`reg locked nInit (name num)* nThreads (n name*)* nSched tid*` → final dictionary
`tsa perThread v0 nThreads (n (kind arg)*)* nSched tid*`  kind: 0 read 1 assign v 2 aug d 3 misread → value, lock, err
`locked`/`perThread`: 0/1, 9 = generated tag. -/
namespace Miros.Drive
open Miros.Conc

/-! ### singleton -/
def singleIsLockOp (pc : Single.Pc) : Bool := pc = .acquire || pc = .release

/-- run thread `i` to just before its next lock operation (or to the end) -/
def singleSettle (locked : Bool) : Nat → Single.State → Nat → Single.State
  | 0, s, _ => s
  | fuel + 1, s, i =>
    match s.threads[i]? with
    | none => s
    | some t =>
      if t.pc = .done || singleIsLockOp t.pc then s
      else match Single.step locked s i with
        | some s' => singleSettle locked fuel s' i
        | none => s

def singleMacro (locked : Bool) (s : Single.State) (i : Nat) : Option Single.State :=
  match s.threads[i]? with
  | none => none
  | some t =>
    if t.pc = .done then none
    else if singleIsLockOp t.pc then
      match Single.step locked s i with
      | some s' => some (singleSettle locked 20 s' i)
      | none => none
    else some (singleSettle locked 20 s i)

def singleLine (toks : List Nat) : String :=
  let p : P (Bool × Nat × List Nat) := do
    let l ← nat; let n ← nat; let ns ← nat; let sched ← nats ns
    pure (if l = 9 then Miros.Gen.singletonLocked else l = 1, n, sched)
  let ((locked, n, sched), _) := p.run toks
  let rec go : List Nat → List Nat → Single.State → List String → Single.State × List String
    | [], _, s, acc => (s, acc)
    | t :: ts, begun, s, acc =>
      if !begun.contains t then go ts (t :: begun) (singleSettle locked 20 s t) (acc ++ [s!"{t}"])
      else match singleMacro locked s t with
        | some s' => go ts begun s' (acc ++ [s!"{t}"])
        | none => go ts begun s (acc ++ [s!"{t}:DISABLED"])
  let (s, out) := go sched [] (Single.init n) []
  let rets := ",".intercalate (s.threads.map fun t => match t.ret with | some r => toString r | none => "-")
  " ".intercalate out ++ s!" || rets={rets} objects={s.nextObj}"

/-! ### registry -/
def regIsLockOp (pc : Registry.Pc) : Bool := pc = .acquire || pc = .release

def regSettle (locked : Bool) : Nat → Registry.State → Nat → Registry.State
  | 0, s, _ => s
  | fuel + 1, s, i =>
    match s.threads[i]? with
    | none => s
    | some t =>
      if t.pc = .done || t.names.isEmpty || regIsLockOp t.pc then s
      else match Registry.step locked s i with
        | some s' => regSettle locked fuel s' i
        | none => s

def regMacro (locked : Bool) (s : Registry.State) (i : Nat) : Option Registry.State :=
  match s.threads[i]? with
  | none => none
  | some t =>
    if t.pc = .done || t.names.isEmpty then none
    else if regIsLockOp t.pc then
      match Registry.step locked s i with
      | some s' => some (regSettle locked 50 s' i)
      | none => none
    else some (regSettle locked 50 s i)

def regLine (toks : List Nat) : String :=
  let p : P (Bool × Registry.Dict × List (List Nat) × List Nat) := do
    let l ← nat
    let nI ← nat
    let mut d : Registry.Dict := []
    for _ in [0:nI] do
      let a ← nat; let b ← nat
      d := d ++ [(a, b)]
    let nT ← nat
    let mut progs := []
    for _ in [0:nT] do
      let n ← nat; let names ← nats n
      progs := progs ++ [names]
    let ns ← nat; let sched ← nats ns
    pure (if l = 9 then Miros.Gen.registryLocked else l = 1, d, progs, sched)
  let ((locked, d, progs, sched), _) := p.run toks
  let rec go : List Nat → List Nat → Registry.State → List String → Registry.State × List String
    | [], _, s, acc => (s, acc)
    | t :: ts, begun, s, acc =>
      if !begun.contains t then go ts (t :: begun) (regSettle locked 50 s t) (acc ++ [s!"{t}"])
      else match regMacro locked s t with
        | some s' => go ts begun s' (acc ++ [s!"{t}"])
        | none => go ts begun s (acc ++ [s!"{t}:DISABLED"])
  let (s, out) := go sched [] (Registry.init locked d progs) []
  " ".intercalate out ++ " || dict=" ++ ",".intercalate (s.dict.map fun x => s!"{x.1}:{x.2}")

/-! ### thread-safe attribute -/
def tsaIsLockOp (t : Tsa.Thread) : Bool :=
  match t.stmts with
  | [] => false
  | st :: _ =>
    t.pc = .getAcquire || t.pc = .setAcquire || t.pc = .setRelease || (t.pc = .getClassify && st = .read)

def tsaSettle (pt : Bool) : Nat → Tsa.State → Nat → Tsa.State
  | 0, s, _ => s
  | fuel + 1, s, i =>
    match s.threads[i]? with
    | none => s
    | some t =>
      if t.stmts.isEmpty || tsaIsLockOp t then s
      else match Tsa.step pt s i with
        | some s' => tsaSettle pt fuel s' i
        | none => s

def tsaMacro (pt : Bool) (s : Tsa.State) (i : Nat) : Option Tsa.State :=
  match s.threads[i]? with
  | none => none
  | some t =>
    if t.stmts.isEmpty then none
    else if tsaIsLockOp t then
      match Tsa.step pt s i with
      | some s' => some (tsaSettle pt 50 s' i)
      | none => none
    else some (tsaSettle pt 50 s i)

def tsaLine (toks : List Nat) : String :=
  let p : P (Bool × Int × List (List Tsa.Stmt) × List Nat) := do
    let l ← nat
    let v0 ← nat
    let nT ← nat
    let mut progs : List (List Tsa.Stmt) := []
    for _ in [0:nT] do
      let n ← nat
      let mut l2 : List Tsa.Stmt := []
      for _ in [0:n] do
        let k ← nat; let a ← nat
        let st : Tsa.Stmt := if k = 0 then .read else if k = 1 then .assign a else if k = 2 then .aug a else .misread
        l2 := l2 ++ [st]
      progs := progs ++ [l2]
    let ns ← nat; let sched ← nats ns
    pure (if l = 9 then Miros.Gen.tsaFlagPerThread else l = 1, (v0 : Int), progs, sched)
  let ((pt, v0, progs, sched), _) := p.run toks
  let rec go : List Nat → List Nat → Tsa.State → List String → Tsa.State × List String
    | [], _, s, acc => (s, acc)
    | t :: ts, begun, s, acc =>
      if !begun.contains t then go ts (t :: begun) (tsaSettle pt 50 s t) (acc ++ [s!"{t}"])
      else match tsaMacro pt s t with
        | some s' => go ts begun s' (acc ++ [s!"{t}"])
        | none => go ts begun s (acc ++ [s!"{t}:DISABLED"])
  let (s, out) := go sched [] (Tsa.init v0 progs) []
  let own := match s.owner with | some o => toString o | none => "-"
  " ".intercalate out ++ s!" || value={s.value} owner={own} count={s.count} err={if s.err then 1 else 0} done={if s.threads.all (fun t => t.stmts.isEmpty) then 1 else 0}"

end Miros.Drive
