import MirosModel.Text.JsonCodec
/-!
# Lemmas for the JSON text codec (`MirosModel/Text/JsonCodec.lean`)

The printer/parser round trip: for each printer `printX` a lemma
`parseX (printX x ++ rest) = some (x, rest)` for every `rest` that does not continue the token,
with enough fuel; the fuel the decoder supplies (the length of the text) is always enough.
-/
namespace Miros.Text.JsonCodec

/-! ### decidable equality of values -/
mutual
theorem V.beq_eq : ∀ (a b : V), V.beq a b = true → a = b
  | .null, b => by cases b <;> simp [V.beq]
  | .bool x, b => by cases b <;> simp [V.beq]
  | .int x, b => by cases b <;> simp [V.beq]
  | .str x, b => by cases b <;> simp [V.beq]
  | .arr xs, b => by
    cases b <;> simp [V.beq]
    exact V.beqList_eq xs _
  | .obj xs, b => by
    cases b <;> simp [V.beq]
    exact V.beqMembers_eq xs _
theorem V.beqList_eq : ∀ (a b : List V), V.beqList a b = true → a = b
  | [], b => by cases b <;> simp [V.beqList]
  | x :: xs, b => by
    cases b with
    | nil => simp [V.beqList]
    | cons y ys =>
      simp [V.beqList]
      exact fun h1 h2 => ⟨V.beq_eq x y h1, V.beqList_eq xs ys h2⟩
theorem V.beqMembers_eq : ∀ (a b : List (List Nat × V)), V.beqMembers a b = true → a = b
  | [], b => by cases b <;> simp [V.beqMembers]
  | (k, x) :: xs, b => by
    cases b with
    | nil => simp [V.beqMembers]
    | cons y ys =>
      obtain ⟨l, y⟩ := y
      simp [V.beqMembers]
      exact fun h0 h1 h2 => ⟨⟨h0, V.beq_eq x y h1⟩, V.beqMembers_eq xs ys h2⟩
end

mutual
theorem V.beq_refl : ∀ (a : V), V.beq a a = true
  | .null => by simp [V.beq]
  | .bool x => by simp [V.beq]
  | .int x => by simp [V.beq]
  | .str x => by simp [V.beq]
  | .arr xs => by simp [V.beq]; exact V.beqList_refl xs
  | .obj xs => by simp [V.beq]; exact V.beqMembers_refl xs
theorem V.beqList_refl : ∀ (a : List V), V.beqList a a = true
  | [] => by simp [V.beqList]
  | x :: xs => by simp [V.beqList]; exact ⟨V.beq_refl x, V.beqList_refl xs⟩
theorem V.beqMembers_refl : ∀ (a : List (List Nat × V)), V.beqMembers a a = true
  | [] => by simp [V.beqMembers]
  | (k, x) :: xs => by simp [V.beqMembers]; exact ⟨V.beq_refl x, V.beqMembers_refl xs⟩
end

instance : DecidableEq V := fun a b =>
  if h : V.beq a b = true then isTrue (V.beq_eq a b h)
  else isFalse (fun e => h (e ▸ V.beq_refl a))


/-! ### hex digits, surrogate arithmetic -/
theorem hexVal_hexDigit : ∀ d < 16, hexVal (hexDigit d) = some d := by decide

theorem decU_hex4 (n : Nat) (h : n < 65536) (r : List Nat) : decU (hex4 n ++ r) = some (n, r) := by
  have h1 := hexVal_hexDigit (n / 4096 % 16) (Nat.mod_lt _ (by decide))
  have h2 := hexVal_hexDigit (n / 256 % 16) (Nat.mod_lt _ (by decide))
  have h3 := hexVal_hexDigit (n / 16 % 16) (Nat.mod_lt _ (by decide))
  have h4 := hexVal_hexDigit (n % 16) (Nat.mod_lt _ (by decide))
  simp only [hex4, List.cons_append, List.nil_append, decU, h1, h2, h3, h4]
  congr 2
  omega

theorem or_D800 (y : Nat) (h : y < 1024) : 0xD800 ||| y = 0xD800 + y := by
  have := Nat.shiftLeft_add_eq_or_of_lt (i := 10) (b := y) (by simpa using h) 54
  simpa using this.symm

theorem or_DC00 (y : Nat) (h : y < 1024) : 0xDC00 ||| y = 0xDC00 + y := by
  have := Nat.shiftLeft_add_eq_or_of_lt (i := 10) (b := y) (by simpa using h) 55
  simpa using this.symm

theorem and_3FF (x : Nat) : x &&& 0x3FF = x % 1024 := Nat.and_two_pow_sub_one_eq_mod x 10

theorem joinSur_eq (hi lo : Nat) (h : lo - 0xDC00 < 1024) :
    joinSur hi lo = 0x10000 + ((hi - 0xD800) * 1024 + (lo - 0xDC00)) := by
  unfold joinSur
  have := Nat.shiftLeft_add_eq_or_of_lt (i := 10) (b := lo - 0xDC00) (by simpa using h) (hi - 0xD800)
  rw [← this, Nat.shiftLeft_eq]

/-- the two units of the surrogate pair of a code point above the BMP, in arithmetic -/
def hiOf (c : Nat) : Nat := 0xD800 + (c - 0x10000) / 1024
def loOf (c : Nat) : Nat := 0xDC00 + (c - 0x10000) % 1024

/-- the four shapes of the replacement of one code point -/
inductive CharShape (c : Nat) : Prop
  | letter (e : Nat) (h : encChar c = [0x5C, e]) (he : e ≠ 0x75) (hu : unesc e = some c) (hc : c < 0x10000) (hs : c < 0xD800)
  | plain (h : encChar c = [c]) (h1 : 0x20 ≤ c) (h2 : c ≠ 0x22) (h3 : c ≠ 0x5C) (hs : c < 0xD800)
  | bmp (h : encChar c = uEsc c) (hc : c < 0x10000)
  | astral (h : encChar c = uEsc (hiOf c) ++ uEsc (loOf c)) (hc : 0x10000 ≤ c) (hr : c ≤ 0x10FFFF)

theorem encChar_shape (c : Nat) (hr : c ≤ 0x10FFFF) : CharShape c := by
  by_cases h1 : c = 0x22
  · subst c; exact .letter 0x22 rfl (by decide) rfl (by decide) (by decide)
  by_cases h2 : c = 0x5C
  · subst c; exact .letter 0x5C rfl (by decide) rfl (by decide) (by decide)
  by_cases h3 : c = 0x0A
  · subst c; exact .letter 0x6E rfl (by decide) rfl (by decide) (by decide)
  by_cases h4 : c = 0x0D
  · subst c; exact .letter 0x72 rfl (by decide) rfl (by decide) (by decide)
  by_cases h5 : c = 0x09
  · subst c; exact .letter 0x74 rfl (by decide) rfl (by decide) (by decide)
  by_cases h6 : c = 0x08
  · subst c; exact .letter 0x62 rfl (by decide) rfl (by decide) (by decide)
  by_cases h7 : c = 0x0C
  · subst c; exact .letter 0x66 rfl (by decide) rfl (by decide) (by decide)
  by_cases h8 : 0x20 ≤ c ∧ c ≤ 0x7E
  · exact .plain (by simp [encChar, *]) h8.1 h1 h2 (by omega)
  by_cases h9 : c < 0x10000
  · exact .bmp (by simp [encChar, *]) h9
  · refine .astral ?_ (by omega) hr
    have hv : (c - 0x10000) / 1024 < 1024 := by omega
    simp only [encChar, *, if_false, hiOf, loOf, Nat.shiftRight_eq_div_pow, and_3FF]
    rw [or_D800 _ (Nat.mod_lt _ (by decide)), or_DC00 _ (Nat.mod_lt _ (by decide))]
    simp [Nat.mod_eq_of_lt hv]


/-! ### one round of the string scanner on the replacement of one code point -/
theorem isHigh_iff (c : Nat) : isHigh c = true ↔ 0xD800 ≤ c ∧ c ≤ 0xDBFF := by simp [isHigh]
theorem isLow_iff (c : Nat) : isLow c = true ↔ 0xDC00 ≤ c ∧ c ≤ 0xDFFF := by simp [isLow]
theorem isHigh_false_iff (c : Nat) : isHigh c = false ↔ (c < 0xD800 ∨ 0xDBFF < c) := by
  rw [← Bool.not_eq_true, isHigh_iff]; omega
theorem isLow_false_iff (c : Nat) : isLow c = false ↔ (c < 0xDC00 ∨ 0xDFFF < c) := by
  rw [← Bool.not_eq_true, isLow_iff]; omega

theorem strStep_quote (r : List Nat) : strStep (0x22 :: r) = some (none, r) := by simp [strStep]

theorem strStep_uEsc (c : Nat) (t : List Nat) :
    strStep (uEsc c ++ t) = uStep (hex4 c ++ t) := by
  simp [uEsc, strStep, escStep]

theorem stripBsU_uEsc (d : Nat) (t : List Nat) : stripBsU (uEsc d ++ t) = some (hex4 d ++ t) := by
  simp [uEsc, stripBsU, hex4]

theorem stripBsU_head_ne (a : Nat) (t : List Nat) (h : a ≠ 0x5C) : stripBsU (a :: t) = none := by
  cases t <;> simp [stripBsU, h]

theorem stripBsU_second_ne (a b : Nat) (t : List Nat) (h : b ≠ 0x75) : stripBsU (a :: b :: t) = none := by
  simp [stripBsU, h]

/-- `\uXXXX` of a unit that is not a high surrogate: that unit -/
theorem strStep_uEsc_notHigh (c : Nat) (hc : c < 0x10000) (hh : isHigh c = false) (t : List Nat) :
    strStep (uEsc c ++ t) = some (some c, t) := by
  rw [strStep_uEsc c]
  simp [uStep, decU_hex4 c hc, hh]

/-- a high surrogate not followed by `\u`: that unit -/
theorem strStep_uEsc_high_noU (c : Nat) (hh : isHigh c = true) (t : List Nat) (ht : stripBsU t = none) :
    strStep (uEsc c ++ t) = some (some c, t) := by
  have hc : c < 0x10000 := by rw [isHigh_iff] at hh; omega
  rw [strStep_uEsc c]
  simp [uStep, decU_hex4 c hc, hh, ht]

/-- a high surrogate followed by `\uYYYY`, not a low surrogate: that unit, the `\uYYYY` stays -/
theorem strStep_uEsc_high_notLow (c d : Nat) (hh : isHigh c = true) (hd : d < 0x10000) (hl : isLow d = false)
    (t : List Nat) : strStep (uEsc c ++ (uEsc d ++ t)) = some (some c, uEsc d ++ t) := by
  have hc : c < 0x10000 := by rw [isHigh_iff] at hh; omega
  rw [strStep_uEsc c]
  simp [uStep, decU_hex4 c hc, hh, stripBsU_uEsc, decU_hex4 d hd, hl]

/-- a high surrogate followed by a low surrogate: merged -/
theorem strStep_uEsc_pair (c d : Nat) (hh : isHigh c = true) (hl : isLow d = true) (t : List Nat) :
    strStep (uEsc c ++ (uEsc d ++ t)) = some (some (joinSur c d), t) := by
  have hc : c < 0x10000 := by rw [isHigh_iff] at hh; omega
  have hd : d < 0x10000 := by rw [isLow_iff] at hl; omega
  rw [strStep_uEsc c]
  simp [uStep, decU_hex4 c hc, hh, stripBsU_uEsc, decU_hex4 d hd, hl]

theorem hiOf_high (c : Nat) (h1 : 0x10000 ≤ c) (h2 : c ≤ 0x10FFFF) : isHigh (hiOf c) = true := by
  rw [isHigh_iff]; unfold hiOf; omega
theorem loOf_low (c : Nat) : isLow (loOf c) = true := by
  rw [isLow_iff]; unfold loOf; omega
theorem joinSur_hiOf_loOf (c : Nat) (h1 : 0x10000 ≤ c) (h2 : c ≤ 0x10FFFF) : joinSur (hiOf c) (loOf c) = c := by
  rw [joinSur_eq _ _ (by unfold loOf; omega)]
  unfold hiOf loOf; omega

/-- the replacement of a code point that is not a high surrogate reads back as that code point,
whatever follows -/
theorem strStep_encChar_notHigh (c : Nat) (hr : c ≤ 0x10FFFF) (hh : isHigh c = false) (t : List Nat) :
    strStep (encChar c ++ t) = some (some c, t) := by
  cases encChar_shape c hr with
  | letter e h he hu hc hs => rw [h]; simp [strStep, escStep, he, hu]
  | plain h h1 h2 h3 hs =>
    rw [h]
    have : ¬ c < 0x20 := by omega
    simp [strStep, h2, h3, this]
  | bmp h hc => rw [h]; exact strStep_uEsc_notHigh c hc hh t
  | astral h hc hr =>
    rw [h, List.append_assoc, strStep_uEsc_pair _ _ (hiOf_high c hc hr) (loOf_low c), joinSur_hiOf_loOf c hc hr]

theorem encChar_high (c : Nat) (hh : isHigh c = true) : encChar c = uEsc c := by
  rw [isHigh_iff] at hh
  cases encChar_shape c (by omega) with
  | letter e h he hu hc hs => omega
  | plain h h1 h2 h3 hs => omega
  | bmp h hc => exact h
  | astral h hc hr => omega

theorem encChar_low (c : Nat) (hh : isLow c = true) : encChar c = uEsc c := by
  rw [isLow_iff] at hh
  cases encChar_shape c (by omega) with
  | letter e h he hu hc hs => omega
  | plain h h1 h2 h3 hs => omega
  | bmp h hc => exact h
  | astral h hc hr => omega

/-- a high surrogate at the end of the string -/
theorem strStep_high_end (c : Nat) (hh : isHigh c = true) (rest : List Nat) :
    strStep (encChar c ++ 0x22 :: rest) = some (some c, 0x22 :: rest) := by
  rw [encChar_high c hh]
  exact strStep_uEsc_high_noU c hh _ (stripBsU_head_ne _ _ (by decide))

/-- a high surrogate followed by a code point that is not a low surrogate -/
theorem strStep_high_notLow (c d : Nat) (hh : isHigh c = true) (hr : d ≤ 0x10FFFF) (hl : isLow d = false)
    (t : List Nat) : strStep (encChar c ++ (encChar d ++ t)) = some (some c, encChar d ++ t) := by
  rw [encChar_high c hh]
  cases encChar_shape d hr with
  | letter e h he hu hc hs =>
    rw [h]; exact strStep_uEsc_high_noU c hh _ (stripBsU_second_ne _ _ _ he)
  | plain h h1 h2 h3 hs =>
    rw [h]; exact strStep_uEsc_high_noU c hh _ (stripBsU_head_ne _ _ h3)
  | bmp h hc => rw [h]; exact strStep_uEsc_high_notLow c d hh hc hl t
  | astral h hc hr =>
    rw [h, List.append_assoc]
    refine strStep_uEsc_high_notLow c (hiOf d) hh ?_ ?_ _
    · unfold hiOf; omega
    · rw [isLow_false_iff]; unfold hiOf; omega

/-- a high surrogate followed by a low surrogate: the two are merged -/
theorem strStep_high_low (c d : Nat) (hh : isHigh c = true) (hl : isLow d = true) (t : List Nat) :
    strStep (encChar c ++ (encChar d ++ t)) = some (some (joinSur c d), t) := by
  rw [encChar_high c hh, encChar_low d hl]
  exact strStep_uEsc_pair c d hh hl t


/-! ### the string scanner on an encoded string -/

theorem inRange_cons (c : Nat) (r : List Nat) : inRange (c :: r) = true ↔ c ≤ 0x10FFFF ∧ inRange r = true := by
  simp [inRange]

theorem readBack_notHigh (c : Nat) (r : List Nat) (h : isHigh c = false) : readBack (c :: r) = c :: readBack r := by
  cases r <;> simp [readBack, h]

theorem readBack_notLow (c d : Nat) (r : List Nat) (h : isLow d = false) :
    readBack (c :: d :: r) = c :: readBack (d :: r) := by
  simp [readBack, h]

theorem readBack_pair (c d : Nat) (r : List Nat) (hh : isHigh c = true) (hl : isLow d = true) :
    readBack (c :: d :: r) = joinSur c d :: readBack r := by
  simp [readBack, hh, hl]

/-- the scanner on the body of an encoded string and its closing quote: the string with its
surrogate pairs merged -/
theorem scanStr_encBody (fuel : Nat) : ∀ (s rest : List Nat), inRange s = true → s.length < fuel →
    scanStr fuel (encBody s ++ 0x22 :: rest) = some (readBack s, rest) := by
  induction fuel with
  | zero => intro s rest _ h; omega
  | succ fuel ih =>
    intro s rest hr hlen
    match s, hr, hlen with
    | [], _, _ => simp [encBody, scanStr, strStep_quote, readBack]
    | c :: r, hr, hlen =>
      rw [inRange_cons] at hr
      have hlen' : r.length < fuel := by simpa using hlen
      cases hh : isHigh c with
      | false =>
        simp only [encBody, List.append_assoc, scanStr, strStep_encChar_notHigh c hr.1 hh,
          ih r rest hr.2 hlen', readBack_notHigh c r hh]
      | true =>
        match r, hr, hlen' with
        | [], _, _ =>
          simp only [encBody, List.append_assoc, List.nil_append, scanStr, strStep_high_end c hh]
          cases fuel with
          | zero => omega
          | succ f => simp [scanStr, strStep_quote, readBack]
        | d :: r', hr, hlen' =>
          have hr' := hr.2
          rw [inRange_cons] at hr'
          cases hl : isLow d with
          | false =>
            simp only [encBody, List.append_assoc, scanStr, strStep_high_notLow c d hh hr'.1 hl]
            have := ih (d :: r') rest hr.2 hlen'
            simp only [encBody, List.append_assoc] at this
            rw [this, readBack_notLow c d r' hl]
          | true =>
            simp only [encBody, List.append_assoc, scanStr, strStep_high_low c d hh hl]
            rw [ih r' rest hr'.2 (by simp at hlen'; omega), readBack_pair c d r' hh hl]

theorem length_le_encBody (s : List Nat) : s.length ≤ (encBody s).length := by
  induction s with
  | nil => simp [encBody]
  | cons c r ih =>
    have : 1 ≤ (encChar c).length := by
      unfold encChar uEsc hex4
      repeat' split
      all_goals simp
    simp [encBody]; omega

/-- **the string literal**: reading back an encoded string gives the string with its surrogate
pairs merged, and the text after it -/
theorem decStr_encStr (s rest : List Nat) (hr : inRange s = true) :
    decStr (encStr s ++ rest) = some (readBack s, rest) := by
  have := length_le_encBody s
  simp only [encStr, List.cons_append, List.append_assoc, List.nil_append, decStr, if_true]
  exact scanStr_encBody _ s rest hr (by simp; omega)

/-- no pair to merge: the string itself -/
theorem readBack_noPair (s : List Nat) (h : noPair s = true) : readBack s = s := by
  induction s with
  | nil => rfl
  | cons c r ih =>
    simp only [noPair, Bool.and_eq_true, Bool.not_eq_true'] at h
    cases hh : isHigh c with
    | false => rw [readBack_notHigh c r hh, ih h.2]
    | true =>
      cases r with
      | nil => rfl
      | cons d r' =>
        have hl : isLow d = false := by simpa [hh, headIsLow] using h.1
        rw [readBack_notLow c d r' hl, ih h.2]

theorem Good_iff (s : List Nat) : Good s ↔ inRange s = true ∧ noPair s = true := by
  simp [Good, good]

theorem decStr_encStr_good (s rest : List Nat) (h : Good s) : decStr (encStr s ++ rest) = some (s, rest) := by
  rw [Good_iff] at h
  rw [decStr_encStr s rest h.1, readBack_noPair s h.2]

/-- a pair to merge: the result is shorter -/
theorem readBack_length_le (s : List Nat) : (readBack s).length ≤ s.length := by
  fun_induction readBack s <;> simp <;> omega

theorem readBack_eq_self (s : List Nat) (h : readBack s = s) : noPair s = true := by
  fun_induction readBack s with
  | case1 => rfl
  | case2 c => simp [noPair, headIsLow]
  | case3 c d r hp ih =>
    have := readBack_length_le r
    have h2 := congrArg List.length h
    simp at h2; omega
  | case4 c d r hp ih =>
    simp only [List.cons.injEq, true_and] at h
    have e : noPair (c :: d :: r) = (!(isHigh c && isLow d) && noPair (d :: r)) := rfl
    rw [e, ih h]
    cases h1 : isHigh c <;> cases h2 : isLow d <;> simp [h1, h2] at hp ⊢

theorem noPair_pair (a b : List Nat) (c d : Nat) (hh : isHigh c = true) (hl : isLow d = true) :
    noPair (a ++ c :: d :: b) = false := by
  induction a with
  | nil => simp [noPair, headIsLow, hh, hl]
  | cons x a ih => simp [noPair, ih]

theorem readBack_cons_le (x : Nat) (l : List Nat) : (readBack (x :: l)).length ≤ 1 + (readBack l).length := by
  match l with
  | [] => simp [readBack]
  | y :: l' =>
    cases hp : (isHigh x && isLow y) with
    | false =>
      have : readBack (x :: y :: l') = x :: readBack (y :: l') := by simp [readBack, hp]
      rw [this]; simp; omega
    | true =>
      simp only [Bool.and_eq_true] at hp
      have hy : isHigh y = false := by
        have := (isLow_iff y).1 hp.2
        rw [isHigh_false_iff]; omega
      rw [readBack_pair x y l' hp.1 hp.2, readBack_notHigh y l' hy]
      simp

/-- a pair to merge: the result is shorter -/
theorem readBack_pair_shorter (a b : List Nat) (c d : Nat) (hh : isHigh c = true) (hl : isLow d = true) :
    (readBack (a ++ c :: d :: b)).length < (a ++ c :: d :: b).length := by
  induction a with
  | nil =>
    have := readBack_length_le b
    simp [readBack_pair c d b hh hl]; omega
  | cons x a ih =>
    have h1 := readBack_cons_le x (a ++ c :: d :: b)
    simp at ih h1 ⊢; omega

/-! ### numbers -/

/-- the text after a number does not continue it: no digit, `.`, `e`, `E` (in `json.dumps` texts:
`,` `]` `}` or the end) -/
def numStop : List Nat → Bool
  | [] => true
  | c :: _ => !(isDigit c || c == 0x2E || c == 0x65 || c == 0x45)

theorem isDigit_iff (c : Nat) : isDigit c = true ↔ 0x30 ≤ c ∧ c ≤ 0x39 := by simp [isDigit]

theorem digitsAux_val (fuel : Nat) : ∀ (n : Nat) (acc : List Nat), n < fuel →
    (digitsAux fuel n acc).foldl (fun a d => a * 10 + (d - 48)) 0 = acc.foldl (fun a d => a * 10 + (d - 48)) n := by
  induction fuel with
  | zero => intro n acc h; omega
  | succ fuel ih =>
    intro n acc h
    unfold digitsAux
    split
    · simp
    · rw [ih (n / 10) _ (by omega)]
      simp only [List.foldl_cons]
      congr 1; omega

theorem digitsAux_digits (fuel : Nat) : ∀ (n : Nat) (acc : List Nat), (∀ d ∈ acc, isDigit d = true) →
    ∀ d ∈ digitsAux fuel n acc, isDigit d = true := by
  induction fuel with
  | zero => intro n acc h; simpa [digitsAux] using h
  | succ fuel ih =>
    intro n acc h
    unfold digitsAux
    split
    · intro d hd
      rcases List.mem_cons.1 hd with rfl | hd
      · rw [isDigit_iff]; omega
      · exact h d hd
    · apply ih
      intro d hd
      rcases List.mem_cons.1 hd with rfl | hd
      · rw [isDigit_iff]; omega
      · exact h d hd

theorem digitsAux_head (fuel : Nat) : ∀ (n : Nat) (acc : List Nat), n < fuel →
    ∃ c t, digitsAux fuel n acc = c :: t ∧ (n = 0 → c = 48 ∧ t = acc) ∧ (0 < n → 49 ≤ c ∧ c ≤ 57) := by
  induction fuel with
  | zero => intro n acc h; omega
  | succ fuel ih =>
    intro n acc h
    unfold digitsAux
    split
    · exact ⟨48 + n, acc, rfl, fun h0 => ⟨by omega, rfl⟩, fun _ => by omega⟩
    · obtain ⟨c, t, e, _, h2⟩ := ih (n / 10) ((48 + n % 10) :: acc) (by omega)
      exact ⟨c, t, e, fun h0 => by omega, fun _ => h2 (by omega)⟩

theorem spanDigits_append (ds rest : List Nat) (hd : ∀ d ∈ ds, isDigit d = true) (hr : numStop rest = true) :
    spanDigits (ds ++ rest) = (ds, rest) := by
  induction ds with
  | nil =>
    cases rest with
    | nil => rfl
    | cons c r =>
      have : isDigit c = false := by
        simp only [numStop, Bool.not_eq_true', Bool.or_eq_false_iff] at hr; exact hr.1.1.1
      simp [spanDigits, this]
  | cons d ds ih =>
    have h1 := hd d (List.mem_cons_self)
    have h2 := ih (fun x hx => hd x (List.mem_cons_of_mem _ hx))
    simp [spanDigits, h1, h2]

theorem parseNat_natDigits (n : Nat) (rest : List Nat) (hr : numStop rest = true) :
    parseNat (natDigits n ++ rest) = some (n, rest) := by
  obtain ⟨c, t, e, h0, h1⟩ := digitsAux_head (n + 1) n [] (by omega)
  have hv := digitsAux_val (n + 1) n [] (by omega)
  have hd := digitsAux_digits (n + 1) n [] (by simp)
  unfold natDigits
  rw [e] at hv hd ⊢
  by_cases hn : n = 0
  · obtain ⟨rfl, rfl⟩ := h0 hn
    simp [parseNat, hn]
  · have hc := h1 (by omega)
    have hc0 : c ≠ 0x30 := by omega
    have hsp := spanDigits_append t rest (fun x hx => hd x (List.mem_cons_of_mem _ hx)) hr
    simp only [List.cons_append, parseNat, hc0, if_false, hc, and_self, if_true, hsp, digitsVal]
    simp only [List.foldl_nil] at hv
    rw [hv]

theorem fracAhead_stop (rest : List Nat) (hr : numStop rest = true) : fracAhead rest = false := by
  match rest with
  | [] => rfl
  | [c] => rfl
  | c :: d :: r =>
    simp only [numStop, Bool.not_eq_true', Bool.or_eq_false_iff, beq_eq_false_iff_ne] at hr
    simp [fracAhead, hr.1.1.2]

theorem expAhead_stop (rest : List Nat) (hr : numStop rest = true) : expAhead rest = false := by
  match rest with
  | [] => rfl
  | [c] => rfl
  | c :: d :: r =>
    simp only [numStop, Bool.not_eq_true', Bool.or_eq_false_iff, beq_eq_false_iff_ne] at hr
    simp [expAhead, hr.1.2, hr.2]

theorem natDigits_head (n : Nat) : ∃ c t, natDigits n = c :: t ∧ 48 ≤ c ∧ c ≤ 57 := by
  obtain ⟨c, t, e, h0, h1⟩ := digitsAux_head (n + 1) n [] (by omega)
  refine ⟨c, t, e, ?_⟩
  by_cases hn : n = 0
  · have := (h0 hn).1; omega
  · have := h1 (by omega); omega

/-- **the number** -/
theorem parseNum_encInt (n : Int) (rest : List Nat) (hr : numStop rest = true) :
    parseNum (encInt n ++ rest) = some (.int n, rest) := by
  unfold encInt
  split
  · rename_i hneg
    simp only [List.cons_append, parseNum, if_true, parseNat_natDigits _ rest hr, fracAhead_stop rest hr,
      expAhead_stop rest hr, Bool.or_self, Bool.false_eq_true, if_false]
    congr 3; omega
  · rename_i hpos
    obtain ⟨c, t, e, hc⟩ := natDigits_head n.natAbs
    have h := parseNat_natDigits n.natAbs rest hr
    rw [e] at h ⊢
    have hc' : c ≠ 0x2D := by omega
    simp only [List.cons_append] at h ⊢
    simp only [parseNum, hc', if_false, h, fracAhead_stop rest hr,
      expAhead_stop rest hr, Bool.or_self, Bool.false_eq_true]
    congr 3; omega

/-! ### induction over values, nesting depth -/

/-! induction over values -/
section
variable {P : V → Prop} (hnull : P .null) (hbool : ∀ b, P (.bool b)) (hint : ∀ n, P (.int n))
  (hstr : ∀ s, P (.str s)) (harr : ∀ xs, (∀ x ∈ xs, P x) → P (.arr xs))
  (hobj : ∀ kvs, (∀ kv ∈ kvs, P kv.2) → P (.obj kvs))
include hnull hbool hint hstr harr hobj
set_option linter.unusedSectionVars false
mutual
theorem V.induct : ∀ v, P v
  | .null => hnull
  | .bool b => hbool b
  | .int n => hint n
  | .str s => hstr s
  | .arr xs => harr xs (V.inductList xs)
  | .obj kvs => hobj kvs (V.inductMembers kvs)
theorem V.inductList : ∀ (xs : List V), ∀ x ∈ xs, P x
  | [] => by simp
  | y :: ys => by
    intro x hx
    rcases List.mem_cons.1 hx with h | h
    · rw [h]; exact V.induct y
    · exact V.inductList ys x h
theorem V.inductMembers : ∀ (kvs : List (List Nat × V)), ∀ kv ∈ kvs, P kv.2
  | [] => by simp
  | (k, y) :: ys => by
    intro x hx
    rcases List.mem_cons.1 hx with h | h
    · rw [h]; exact V.induct y
    · exact V.inductMembers ys x h
end
end

mutual
/-- nesting depth: the fuel `parseValue` needs -/
def depth : V → Nat
  | .arr xs => 1 + depthList xs
  | .obj kvs => 1 + depthMembers kvs
  | _ => 1
def depthList : List V → Nat
  | [] => 0
  | x :: xs => max (depth x) (depthList xs)
def depthMembers : List (List Nat × V) → Nat
  | [] => 0
  | (_, x) :: kvs => max (depth x) (depthMembers kvs)
end

theorem depth_le_depthList (xs : List V) : ∀ x ∈ xs, depth x ≤ depthList xs := by
  induction xs with
  | nil => simp
  | cons y ys ih =>
    intro x hx
    rcases List.mem_cons.1 hx with rfl | h
    · simp [depthList]; omega
    · have := ih x h; simp [depthList]; omega

theorem depth_le_depthMembers (kvs : List (List Nat × V)) : ∀ kv ∈ kvs, depth kv.2 ≤ depthMembers kvs := by
  induction kvs with
  | nil => simp
  | cons y ys ih =>
    obtain ⟨k, y⟩ := y
    intro x hx
    rcases List.mem_cons.1 hx with rfl | h
    · simp [depthMembers]; omega
    · have := ih x h; simp [depthMembers]; omega

theorem depth_pos (v : V) : 1 ≤ depth v := by
  cases v <;> simp [depth]

/-! ### the array and object loops on encoded items -/

/-- the first character of an encoded value: not whitespace, not a closing bracket -/
def startOk (c : Nat) : Bool := !isWs c && c != 0x5D && c != 0x7D

theorem enc_head (v : V) : ∃ c t, enc v = c :: t ∧ startOk c = true := by
  match v with
  | .null => exact ⟨0x6E, [0x75, 0x6C, 0x6C], by simp only [enc], by decide⟩
  | .bool true => exact ⟨0x74, [0x72, 0x75, 0x65], by simp only [enc], by decide⟩
  | .bool false => exact ⟨0x66, [0x61, 0x6C, 0x73, 0x65], by simp only [enc], by decide⟩
  | .str s => exact ⟨0x22, encBody s ++ [0x22], by simp only [enc, encStr], by decide⟩
  | .arr [] => exact ⟨0x5B, [0x5D], by simp only [enc], by decide⟩
  | .arr (x :: xs) => exact ⟨0x5B, _, by simp only [enc]; rfl, by decide⟩
  | .obj [] => exact ⟨0x7B, [0x7D], by simp only [enc], by decide⟩
  | .obj ((k, x) :: kvs) => exact ⟨0x7B, _, by simp only [enc]; rfl, by decide⟩
  | .int n =>
    simp only [enc, encInt]
    split
    · exact ⟨0x2D, _, rfl, by decide⟩
    · obtain ⟨c, t, e, h1, h2⟩ := natDigits_head n.natAbs
      refine ⟨c, t, e, ?_⟩
      simp only [startOk, isWs, Bool.and_eq_true, Bool.not_eq_true', Bool.or_eq_false_iff,
        decide_eq_false_iff_not, bne_iff_ne]
      omega

theorem startOk_ws (c : Nat) (h : startOk c = true) : isWs c = false := by
  simp only [startOk, Bool.and_eq_true, Bool.not_eq_true'] at h; exact h.1.1

theorem skipWs_of_not_ws (c : Nat) (t : List Nat) (h : isWs c = false) : skipWs (c :: t) = c :: t := by
  simp [skipWs, h]

theorem skipWs_enc (v : V) (t : List Nat) : skipWs (enc v ++ t) = enc v ++ t := by
  obtain ⟨c, r, e, h⟩ := enc_head v
  rw [e]; exact skipWs_of_not_ws c _ (startOk_ws c h)

theorem skipWs_space_enc (v : V) (t : List Nat) : skipWs (0x20 :: (enc v ++ t)) = enc v ++ t := by
  rw [show skipWs (0x20 :: (enc v ++ t)) = skipWs (enc v ++ t) from by simp [skipWs, isWs]]
  exact skipWs_enc v t

theorem numStop_comma (t : List Nat) : numStop (0x2C :: t) = true := rfl
theorem numStop_rbracket (t : List Nat) : numStop (0x5D :: t) = true := rfl
theorem numStop_rbrace (t : List Nat) : numStop (0x7D :: t) = true := rfl

theorem length_le_encTail (xs : List V) : xs.length ≤ (encTail xs).length := by
  induction xs with
  | nil => simp
  | cons x xs ih => simp [encTail]; omega

theorem length_le_encMTail (kvs : List (List Nat × V)) : kvs.length ≤ (encMTail kvs).length := by
  induction kvs with
  | nil => simp
  | cons x xs ih => obtain ⟨k, x⟩ := x; simp [encMTail]; omega

/-- the loop of `JSONArray` on the items of an encoded array -/
theorem parseElems_enc (pv : List Nat → Option (V × List Nat)) (xs : List V) :
    ∀ (x : V) (L : Nat) (rest : List Nat), xs.length < L →
      (∀ y ∈ x :: xs, ∀ rest', numStop rest' = true → pv (enc y ++ rest') = some (y, rest')) →
      parseElems pv L (enc x ++ (encTail xs ++ 0x5D :: rest)) = some (x :: xs, rest) := by
  induction xs with
  | nil =>
    intro x L rest hL hpv
    obtain ⟨L, rfl⟩ : ∃ L', L = L' + 1 := ⟨L - 1, by omega⟩
    simp [parseElems, encTail, hpv x (by simp) _ (numStop_rbracket rest), skipWs, isWs]
  | cons y ys ih =>
    intro x L rest hL hpv
    obtain ⟨L, rfl⟩ : ∃ L', L = L' + 1 := ⟨L - 1, by omega⟩
    have e : encTail (y :: ys) ++ 0x5D :: rest = 0x2C :: 0x20 :: (enc y ++ (encTail ys ++ 0x5D :: rest)) := by
      simp [encTail]
    have hrec := ih y L rest (by simpa using hL) (fun z hz => hpv z (List.mem_cons_of_mem _ hz))
    rw [e]
    simp only [parseElems, hpv x (by simp) _ (numStop_comma _)]
    rw [skipWs_of_not_ws _ _ (by decide)]
    simp only [show (0x2C : Nat) ≠ 0x5D from by decide, if_false, if_true, skipWs_space_enc, hrec]

/-- the loop of `JSONObject` on the members of an encoded object -/
theorem parseMembers_enc (pv : List Nat → Option (V × List Nat)) (kvs : List (List Nat × V)) :
    ∀ (k : List Nat) (x : V) (L : Nat) (rest : List Nat), kvs.length < L →
      (∀ kv ∈ (k, x) :: kvs, Good kv.1) →
      (∀ kv ∈ (k, x) :: kvs, ∀ rest', numStop rest' = true → pv (enc kv.2 ++ rest') = some (kv.2, rest')) →
      parseMembers pv L (encStr k ++ (0x3A :: 0x20 :: (enc x ++ (encMTail kvs ++ 0x7D :: rest)))) =
        some ((k, x) :: kvs, rest) := by
  induction kvs with
  | nil =>
    intro k x L rest hL hk hpv
    obtain ⟨L, rfl⟩ : ∃ L', L = L' + 1 := ⟨L - 1, by omega⟩
    simp only [parseMembers, decStr_encStr_good k _ (hk (k, x) (by simp))]
    rw [skipWs_of_not_ws _ _ (by decide)]
    simp only [if_true, skipWs_space_enc, encMTail, List.nil_append,
      hpv (k, x) (by simp) _ (numStop_rbrace rest)]
    rw [skipWs_of_not_ws _ _ (by decide)]
    simp
  | cons y ys ih =>
    obtain ⟨l, y⟩ := y
    intro k x L rest hL hk hpv
    obtain ⟨L, rfl⟩ : ∃ L', L = L' + 1 := ⟨L - 1, by omega⟩
    have e : encMTail ((l, y) :: ys) ++ 0x7D :: rest =
        0x2C :: 0x20 :: (encStr l ++ (0x3A :: 0x20 :: (enc y ++ (encMTail ys ++ 0x7D :: rest)))) := by
      simp [encMTail]
    have hrec := ih l y L rest (by simpa using hL) (fun z hz => hk z (List.mem_cons_of_mem _ hz))
      (fun z hz => hpv z (List.mem_cons_of_mem _ hz))
    rw [e]
    simp only [parseMembers, decStr_encStr_good k _ (hk (k, x) (by simp))]
    rw [skipWs_of_not_ws _ _ (by decide)]
    simp only [if_true, skipWs_space_enc, hpv (k, x) (by simp) _ (numStop_comma _)]
    rw [skipWs_of_not_ws _ _ (by decide)]
    have hq : skipWs (0x20 :: (encStr l ++ (0x3A :: 0x20 :: (enc y ++ (encMTail ys ++ 0x7D :: rest))))) =
        encStr l ++ (0x3A :: 0x20 :: (enc y ++ (encMTail ys ++ 0x7D :: rest))) := by
      simp [skipWs, isWs, encStr]
    simp only [show (0x2C : Nat) ≠ 0x7D from by decide, if_false, if_true, hq, hrec]

/-! ### one value -/

theorem goodVList_iff (xs : List V) : goodVList xs = true ↔ ∀ x ∈ xs, goodV x = true := by
  induction xs with
  | nil => simp [goodVList]
  | cons x xs ih => simp [goodVList, ih]

theorem goodVMembers_iff (kvs : List (List Nat × V)) :
    goodVMembers kvs = true ↔ ∀ kv ∈ kvs, Good kv.1 ∧ goodV kv.2 = true := by
  induction kvs with
  | nil => simp [goodVMembers]
  | cons x xs ih => obtain ⟨k, x⟩ := x; simp [goodVMembers, ih, Good, and_assoc]

theorem parseLit_none (c : Nat) (r : List Nat) (h1 : c ≠ 0x6E) (h2 : c ≠ 0x74) (h3 : c ≠ 0x66) :
    parseLit (c :: r) = none := by
  unfold parseLit
  split
  · rename_i a b c' d r' heq
    simp only [List.cons.injEq] at heq
    obtain ⟨rfl, _⟩ := heq
    simp [h1, h2, h3]
  · rfl

theorem parseValue_null (f : Nat) (rest : List Nat) :
    parseValue (f + 1) (enc .null ++ rest) = some (.null, rest) := by
  simp [enc, parseValue, parseLit]

theorem parseValue_true (f : Nat) (rest : List Nat) :
    parseValue (f + 1) (enc (.bool true) ++ rest) = some (.bool true, rest) := by
  simp [enc, parseValue, parseLit]

theorem parseValue_false (f : Nat) (rest : List Nat) :
    parseValue (f + 1) (enc (.bool false) ++ rest) = some (.bool false, rest) := by
  simp [enc, parseValue, parseLit]

theorem parseValue_int (f : Nat) (n : Int) (rest : List Nat) (hr : numStop rest = true) :
    parseValue (f + 1) (enc (.int n) ++ rest) = some (.int n, rest) := by
  have hp := parseNum_encInt n rest hr
  have hc : ∃ c t, encInt n = c :: t ∧ (c = 0x2D ∨ (48 ≤ c ∧ c ≤ 57)) := by
    unfold encInt
    split
    · exact ⟨_, _, rfl, Or.inl rfl⟩
    · obtain ⟨c, t, e, h⟩ := natDigits_head n.natAbs
      exact ⟨c, t, e, Or.inr h⟩
  obtain ⟨c, t, e, hc⟩ := hc
  simp only [enc]
  rw [e] at hp ⊢
  simp only [List.cons_append] at hp ⊢
  have h1 : c ≠ 0x22 := by omega
  have h2 : c ≠ 0x7B := by omega
  have h3 : c ≠ 0x5B := by omega
  simp only [parseValue, h1, h2, h3, if_false, parseLit_none c _ (by omega) (by omega) (by omega), hp]

theorem parseValue_str (f : Nat) (s rest : List Nat) (h : Good s) :
    parseValue (f + 1) (enc (.str s) ++ rest) = some (.str s, rest) := by
  have hd := decStr_encStr_good s rest h
  simp only [enc] 
  simp only [encStr, List.cons_append] at hd ⊢
  simp only [parseValue, if_true, hd]

theorem parseValue_arr_cons (f : Nat) (r : List Nat) (h : ∃ c t, r = c :: t ∧ startOk c = true)
    (xs : List V) (r2 : List Nat) (hp : parseElems (parseValue f) r.length r = some (xs, r2)) :
    parseValue (f + 1) (0x5B :: r) = some (.arr xs, r2) := by
  obtain ⟨c, t, rfl, hc⟩ := h
  have hw := startOk_ws c hc
  have h5 : c ≠ 0x5D := by
    simp only [startOk, Bool.and_eq_true, bne_iff_ne] at hc; exact hc.1.2
  simp only [parseValue, show (0x5B : Nat) ≠ 0x22 from by decide, show (0x5B : Nat) ≠ 0x7B from by decide,
    if_false, if_true, skipWs, hw, Bool.false_eq_true, h5, hp]

theorem parseValue_obj_cons (f : Nat) (r : List Nat) (kvs : List (List Nat × V)) (r2 : List Nat)
    (hp : parseMembers (parseValue f) (0x22 :: r).length (0x22 :: r) = some (kvs, r2)) :
    parseValue (f + 1) (0x7B :: 0x22 :: r) = some (.obj kvs, r2) := by
  simp only [parseValue, show (0x7B : Nat) ≠ 0x22 from by decide, if_false, if_true, skipWs,
    show isWs 0x22 = false from by decide, Bool.false_eq_true, show (0x22 : Nat) ≠ 0x7D from by decide, hp]

/-- **one value**: with fuel at least the nesting depth, reading back an encoded value gives the
value and the text after it, for every rest that does not continue a number -/
theorem parseValue_enc : ∀ (v : V), goodV v = true → ∀ (fuel : Nat) (rest : List Nat), depth v ≤ fuel →
    numStop rest = true → parseValue fuel (enc v ++ rest) = some (v, rest) := by
  intro v
  induction v using V.induct with
  | hnull => intro _ fuel rest hf _; cases fuel with
    | zero => simp [depth] at hf
    | succ f => exact parseValue_null f rest
  | hbool b => intro _ fuel rest hf _; cases fuel with
    | zero => simp [depth] at hf
    | succ f => cases b; exact parseValue_false f rest; exact parseValue_true f rest
  | hint n => intro _ fuel rest hf hr; cases fuel with
    | zero => simp [depth] at hf
    | succ f => exact parseValue_int f n rest hr
  | hstr s => intro hg fuel rest hf _; cases fuel with
    | zero => simp [depth] at hf
    | succ f => exact parseValue_str f s rest (by simpa [goodV, Good] using hg)
  | harr xs ih =>
    intro hg fuel rest hf _
    cases fuel with
    | zero => simp [depth] at hf
    | succ f =>
      match xs, ih, hg, hf with
      | [], _, _, _ => simp [enc, parseValue, skipWs, isWs]
      | x :: xs, ih, hg, hf =>
        simp only [goodV, goodVList_iff] at hg
        simp only [depth] at hf
        have hdep := depth_le_depthList (x :: xs)
        simp only [enc, List.cons_append, List.append_assoc, List.nil_append]
        refine parseValue_arr_cons f _ (by
          obtain ⟨c, t, e, hc⟩ := enc_head x
          exact ⟨c, _, by rw [e]; rfl, hc⟩) _ _ ?_
        exact parseElems_enc (parseValue f) xs x _ rest (by
            have := length_le_encTail xs
            have := depth_pos x
            obtain ⟨c, t, e, hc⟩ := enc_head x
            simp [e]; omega)
          (fun y hy rest' hr' => ih y hy (hg y hy) f rest' (by have := hdep y hy; omega) hr')
  | hobj kvs ih =>
    intro hg fuel rest hf _
    cases fuel with
    | zero => simp [depth] at hf
    | succ f =>
      match kvs, ih, hg, hf with
      | [], _, _, _ => simp [enc, parseValue, skipWs, isWs]
      | (k, x) :: kvs, ih, hg, hf =>
        simp only [goodV, Bool.and_eq_true, goodVMembers_iff] at hg
        simp only [depth] at hf
        have hdep := depth_le_depthMembers ((k, x) :: kvs)
        simp only [enc, encStr, List.cons_append, List.append_assoc, List.nil_append]
        refine parseValue_obj_cons f _ _ _ ?_
        have := parseMembers_enc (parseValue f) kvs k x
          (0x22 :: (encBody k ++ 0x22 :: 0x3A :: 0x20 :: (enc x ++ (encMTail kvs ++ 0x7D :: rest)))).length rest
          (by have := length_le_encMTail kvs; simp; omega)
          (fun kv hkv => (hg.2 kv hkv).1)
          (fun kv hkv rest' hr' => ih kv hkv (hg.2 kv hkv).2 f rest' (by have := hdep kv hkv; omega) hr')
        simp only [encStr, List.cons_append, List.append_assoc, List.nil_append] at this
        exact this

/-! ### the whole text; the wire text is ASCII -/

theorem enc_length_pos (v : V) : 1 ≤ (enc v).length := by
  obtain ⟨c, t, e, _⟩ := enc_head v
  rw [e]; simp

theorem depthList_le (xs : List V) (h : ∀ x ∈ xs, depth x ≤ (enc x).length) :
    depthList xs ≤ (encTail xs).length := by
  induction xs with
  | nil => simp [depthList]
  | cons x xs ih =>
    have h1 := h x (by simp)
    have h2 := ih (fun y hy => h y (List.mem_cons_of_mem _ hy))
    simp [depthList, encTail]; omega

theorem depthMembers_le (kvs : List (List Nat × V)) (h : ∀ kv ∈ kvs, depth kv.2 ≤ (enc kv.2).length) :
    depthMembers kvs ≤ (encMTail kvs).length := by
  induction kvs with
  | nil => simp [depthMembers]
  | cons x xs ih =>
    obtain ⟨k, x⟩ := x
    have h1 := h (k, x) (by simp)
    have h2 := ih (fun y hy => h y (List.mem_cons_of_mem _ hy))
    simp [depthMembers, encMTail] at h1 ⊢; omega

/-- the text is at least as long as the value is deep: the fuel `dec` supplies is enough -/
theorem depth_le_length (v : V) : depth v ≤ (enc v).length := by
  induction v using V.induct with
  | hnull => simp [depth, enc]
  | hbool b => cases b <;> simp [depth, enc]
  | hint n => have := enc_length_pos (.int n); simpa [depth] using this
  | hstr s => simp [depth, enc, encStr]
  | harr xs ih =>
    match xs, ih with
    | [], _ => simp [depth, depthList, enc]
    | x :: xs, ih =>
      have h1 := ih x (by simp)
      have h2 := depthList_le xs (fun y hy => ih y (List.mem_cons_of_mem _ hy))
      simp [depth, depthList, enc]; omega
  | hobj kvs ih =>
    match kvs, ih with
    | [], _ => simp [depth, depthMembers, enc]
    | (k, x) :: kvs, ih =>
      have h1 := ih (k, x) (by simp)
      have h2 := depthMembers_le kvs (fun y hy => ih y (List.mem_cons_of_mem _ hy))
      simp [depth, depthMembers, enc] at h1 ⊢; omega

/-- **`json.loads(json.dumps(v))`** -/
theorem dec_enc (v : V) (h : GoodV v) : dec (enc v) = some v := by
  have hp := parseValue_enc v h ((enc v).length + 1) [] (by have := depth_le_length v; omega) rfl
  have hs := skipWs_enc v []
  simp only [List.append_nil] at hp hs
  simp [dec, hs, hp, skipWs]

/-! ### the wire text is ASCII -/

def Ascii (l : List Nat) : Prop := ∀ c ∈ l, 0x20 ≤ c ∧ c ≤ 0x7E

instance (l : List Nat) : Decidable (Ascii l) := by unfold Ascii; infer_instance

theorem Ascii.nil : Ascii [] := by simp [Ascii]
theorem Ascii.cons {c : Nat} {l : List Nat} (h1 : 0x20 ≤ c ∧ c ≤ 0x7E) (h2 : Ascii l) : Ascii (c :: l) := by
  intro x hx
  rcases List.mem_cons.1 hx with rfl | h
  · exact h1
  · exact h2 x h
theorem Ascii.append {a b : List Nat} (h1 : Ascii a) (h2 : Ascii b) : Ascii (a ++ b) := by
  intro x hx
  rcases List.mem_append.1 hx with h | h
  · exact h1 x h
  · exact h2 x h

theorem hexDigit_ascii (d : Nat) (h : d < 16) : 0x20 ≤ hexDigit d ∧ hexDigit d ≤ 0x7E := by
  unfold hexDigit; split <;> omega

theorem uEsc_ascii (n : Nat) : Ascii (uEsc n) := by
  have h1 := hexDigit_ascii (n / 4096 % 16) (Nat.mod_lt _ (by decide))
  have h2 := hexDigit_ascii (n / 256 % 16) (Nat.mod_lt _ (by decide))
  have h3 := hexDigit_ascii (n / 16 % 16) (Nat.mod_lt _ (by decide))
  have h4 := hexDigit_ascii (n % 16) (Nat.mod_lt _ (by decide))
  unfold uEsc hex4
  exact .cons (by decide) (.cons (by decide) (.cons h1 (.cons h2 (.cons h3 (.cons h4 .nil)))))

theorem encChar_ascii (c : Nat) : Ascii (encChar c) := by
  unfold encChar
  split; · decide
  split; · decide
  split; · decide
  split; · decide
  split; · decide
  split; · decide
  split; · decide
  split
  · rename_i h; exact .cons h .nil
  split
  · exact uEsc_ascii c
  · exact .append (uEsc_ascii _) (uEsc_ascii _)

theorem encBody_ascii (s : List Nat) : Ascii (encBody s) := by
  induction s with
  | nil => exact .nil
  | cons c r ih => exact .append (encChar_ascii c) ih

theorem encStr_ascii (s : List Nat) : Ascii (encStr s) :=
  .cons (by decide) (.append (encBody_ascii s) (.cons (by decide) .nil))

theorem natDigits_ascii (n : Nat) : Ascii (natDigits n) := by
  intro c hc
  have := (isDigit_iff c).1 (digitsAux_digits (n + 1) n [] (by simp) c hc)
  omega

theorem encInt_ascii (n : Int) : Ascii (encInt n) := by
  unfold encInt; split
  · exact .cons (by decide) (natDigits_ascii _)
  · exact natDigits_ascii _

theorem encTail_ascii (xs : List V) (h : ∀ x ∈ xs, Ascii (enc x)) : Ascii (encTail xs) := by
  induction xs with
  | nil => exact .nil
  | cons x xs ih =>
    simp only [encTail]
    exact .cons (by decide) (.cons (by decide) (.append (h x (by simp)) (ih (fun y hy => h y (List.mem_cons_of_mem _ hy)))))

theorem encMTail_ascii (kvs : List (List Nat × V)) (h : ∀ kv ∈ kvs, Ascii (enc kv.2)) : Ascii (encMTail kvs) := by
  induction kvs with
  | nil => exact .nil
  | cons x xs ih =>
    obtain ⟨k, x⟩ := x
    simp only [encMTail]
    exact .cons (by decide) (.cons (by decide) (.append (encStr_ascii k) (.cons (by decide) (.cons (by decide)
      (.append (h (k, x) (by simp)) (ih (fun y hy => h y (List.mem_cons_of_mem _ hy))))))))

theorem enc_ascii (v : V) : Ascii (enc v) := by
  induction v using V.induct with
  | hnull => simp only [enc]; decide
  | hbool b => cases b <;> simp only [enc] <;> decide
  | hint n => simp only [enc]; exact encInt_ascii n
  | hstr s => simp only [enc]; exact encStr_ascii s
  | harr xs ih =>
    match xs, ih with
    | [], _ => simp only [enc]; decide
    | x :: xs, ih =>
      simp only [enc]
      exact .cons (by decide) (.append (ih x (by simp))
        (.append (encTail_ascii xs (fun y hy => ih y (List.mem_cons_of_mem _ hy))) (.cons (by decide) .nil)))
  | hobj kvs ih =>
    match kvs, ih with
    | [], _ => simp only [enc]; decide
    | (k, x) :: kvs, ih =>
      simp only [enc]
      exact .cons (by decide) (.append (encStr_ascii k) (.cons (by decide) (.cons (by decide) (.append (ih (k, x) (by simp))
        (.append (encMTail_ascii kvs (fun y hy => ih y (List.mem_cons_of_mem _ hy))) (.cons (by decide) .nil))))))

/-! ### the bridge to the values of Text/Json.lean -/
open Miros.Text.Json

theorem char_toNat_valid (c : Char) : c.toNat < 0xD800 ∨ (0xDFFF < c.toNat ∧ c.toNat < 0x110000) := by
  have h := c.valid
  unfold UInt32.isValidChar Nat.isValidChar at h
  exact h

theorem cpToChar?_toNat (c : Char) : cpToChar? c.toNat = some c := by
  simp [cpToChar?, Char.ofNat_toNat]

theorem chars?_cps (s : List Char) : chars? (cps s) = some s := by
  induction s with
  | nil => rfl
  | cons c r ih =>
    simp only [cps, List.map_cons] at ih ⊢
    simp only [chars?, cpToChar?_toNat, ih]

/-- a string of `Char`s has no surrogates at all: it always survives -/
theorem good_cps (s : List Char) : Good (cps s) := by
  rw [Good_iff]
  induction s with
  | nil => exact ⟨rfl, rfl⟩
  | cons c r ih =>
    have hv := char_toNat_valid c
    have hh : isHigh c.toNat = false := by rw [isHigh_false_iff]; omega
    simp only [cps, List.map_cons] at ih ⊢
    simp only [inRange, noPair, hh, Bool.false_and, Bool.not_false, ih.2, Bool.and_true,
      ih.1, decide_eq_true_eq, and_true]
    omega

theorem cps_injective : ∀ (a b : List Char), cps a = cps b → a = b := by
  intro a
  induction a with
  | nil => intro b h; cases b <;> simp_all [cps]
  | cons x a ih =>
    intro b h
    cases b with
    | nil => simp [cps] at h
    | cons y b =>
      simp only [cps, List.map_cons, List.cons.injEq] at h
      rw [Char.toNat_inj] at h
      rw [h.1, ih b h.2]

mutual
theorem ofV_toV : ∀ (j : J), ofV (toV j) = some j
  | .null => rfl
  | .bool b => rfl
  | .num n => rfl
  | .str s => by simp [toV, ofV, chars?_cps]
  | .arr xs => by simp [toV, ofV, ofVList_toVList xs]
  | .obj kvs => by simp [toV, ofV, ofVMembers_toVMembers kvs]
theorem ofVList_toVList : ∀ (xs : List J), ofVList (toVList xs) = some xs
  | [] => rfl
  | x :: xs => by simp [toVList, ofVList, ofV_toV x, ofVList_toVList xs]
theorem ofVMembers_toVMembers : ∀ (kvs : List (List Char × J)), ofVMembers (toVMembers kvs) = some kvs
  | [] => rfl
  | (k, x) :: kvs => by simp [toVMembers, ofVMembers, chars?_cps, ofV_toV x, ofVMembers_toVMembers kvs]
end

theorem toVMembers_keys (kvs : List (List Char × J)) :
    (toVMembers kvs).map (·.1) = kvs.map (fun kv => cps kv.1) := by
  induction kvs with
  | nil => rfl
  | cons x xs ih => obtain ⟨k, x⟩ := x; simp [toVMembers, ih]

mutual
theorem goodV_toV : ∀ (j : J), keysDistinct j = true → goodV (toV j) = true
  | .null, _ => rfl
  | .bool b, _ => rfl
  | .num n, _ => rfl
  | .str s, _ => by simpa [toV, goodV, Good] using good_cps s
  | .arr xs, h => by
    simp only [toV, goodV]
    exact goodVList_toVList xs (by simpa [keysDistinct] using h)
  | .obj kvs, h => by
    simp only [keysDistinct, Bool.and_eq_true] at h
    simp only [toV, goodV, toVMembers_keys, h.1, Bool.true_and]
    exact goodVMembers_toVMembers kvs h.2
theorem goodVList_toVList : ∀ (xs : List J), keysDistinctList xs = true → goodVList (toVList xs) = true
  | [], _ => rfl
  | x :: xs, h => by
    simp only [keysDistinctList, Bool.and_eq_true] at h
    simp [toVList, goodVList, goodV_toV x h.1, goodVList_toVList xs h.2]
theorem goodVMembers_toVMembers : ∀ (kvs : List (List Char × J)), keysDistinctMembers kvs = true →
    goodVMembers (toVMembers kvs) = true
  | [], _ => rfl
  | (k, x) :: kvs, h => by
    simp only [keysDistinctMembers, Bool.and_eq_true] at h
    have := good_cps k
    simp only [Good] at this
    simp [toVMembers, goodVMembers, this, goodV_toV x h.1, goodVMembers_toVMembers kvs h.2]
end

/-- the codec on `J`: no hypothesis on the strings -/
theorem decJ_encJ (j : J) (h : keysDistinct j = true) : decJ (encJ j) = some j := by
  simp [decJ, encJ, dec_enc (toV j) (goodV_toV j h), ofV_toV]

/-! ### dict(pairs) on distinct keys; a string on its own -/

theorem setKey_new (k : List Nat) (v : V) (acc : List (List Nat × V)) (h : k ∉ acc.map (·.1)) :
    setKey k v acc = acc ++ [(k, v)] := by
  induction acc with
  | nil => rfl
  | cons x xs ih =>
    obtain ⟨l, w⟩ := x
    simp only [List.map_cons, List.mem_cons, not_or] at h
    have hne : l ≠ k := fun e => h.1 e.symm
    simp [setKey, hne, ih h.2]

theorem foldl_setKey_distinct (kvs : List (List Nat × V)) : ∀ (acc : List (List Nat × V)),
    (∀ kv ∈ kvs, kv.1 ∉ acc.map (·.1)) → distinctKeys (kvs.map (·.1)) = true →
    kvs.foldl (fun acc kv => setKey kv.1 kv.2 acc) acc = acc ++ kvs := by
  induction kvs with
  | nil => intro acc _ _; simp
  | cons x xs ih =>
    obtain ⟨k, v⟩ := x
    intro acc hacc hd
    simp only [List.map_cons, distinctKeys, Bool.and_eq_true, Bool.not_eq_true'] at hd
    have hk : k ∉ xs.map (·.1) := by
      have := hd.1
      simpa using this
    simp only [List.foldl_cons]
    rw [setKey_new k v acc (hacc (k, v) (by simp))]
    rw [ih (acc ++ [(k, v)]) ?_ hd.2]
    · simp
    · intro kv hkv
      have h1 := hacc kv (List.mem_cons_of_mem _ hkv)
      simp only [List.map_append, List.map_cons, List.map_nil, List.mem_append, List.mem_singleton, not_or]
      refine ⟨h1, fun e => hk ?_⟩
      rw [← e]; exact List.mem_map_of_mem hkv

/-- pairwise distinct keys: `dict(pairs)` keeps the pairs as they are -/
theorem normObj_distinct (kvs : List (List Nat × V)) (h : distinctKeys (kvs.map (·.1)) = true) :
    normObj kvs = kvs := by
  unfold normObj
  rw [foldl_setKey_distinct kvs [] (by simp) h]; simp

mutual
theorem normV_good : ∀ (v : V), goodV v = true → normV v = v
  | .null, _ => by simp [normV]
  | .bool b, _ => by simp [normV]
  | .int n, _ => by simp [normV]
  | .str s, _ => by simp [normV]
  | .arr xs, h => by
    simp only [goodV] at h
    simp [normV, normVList_good xs h]
  | .obj kvs, h => by
    simp only [goodV, Bool.and_eq_true] at h
    simp [normV, normVMembers_good kvs h.2, normObj_distinct kvs h.1]
theorem normVList_good : ∀ (xs : List V), goodVList xs = true → normVList xs = xs
  | [], _ => rfl
  | x :: xs, h => by
    simp only [goodVList, Bool.and_eq_true] at h
    simp [normVList, normV_good x h.1, normVList_good xs h.2]
theorem normVMembers_good : ∀ (kvs : List (List Nat × V)), goodVMembers kvs = true → normVMembers kvs = kvs
  | [], _ => rfl
  | (k, x) :: kvs, h => by
    simp only [goodVMembers, Bool.and_eq_true] at h
    simp [normVMembers, normV_good x h.1.2, normVMembers_good kvs h.2]
end

/-- a string on its own, whatever it holds (in range): read back with its pairs merged -/
theorem dec_enc_str (s : List Nat) (h : inRange s = true) : dec (enc (.str s)) = some (.str (readBack s)) := by
  have hd := decStr_encStr s [] h
  have hp : parseValue ((enc (.str s)).length + 1) (enc (.str s)) = some (.str (readBack s), []) := by
    simp only [enc]
    simp only [encStr, List.append_nil] at hd ⊢
    simp only [parseValue, if_true, hd]
  have hs := skipWs_enc (.str s) []
  simp only [List.append_nil] at hs
  simp [dec, hs, hp, skipWs]

/-! ### the dictionary of Event.dumps -/
open Miros.Text.Json

/-- the dictionary `Event.dumps` builds has two distinct keys -/
theorem keysDistinct_dumps (e : Ev) (h : keysDistinct e.payload = true) : keysDistinct (dumps e) = true := by
  have hk : distinctKeys [cps "signal_name".toList, cps "payload".toList] = true := by decide
  simp only [dumps, keysDistinct, List.map_cons, List.map_nil, hk, keysDistinctMembers, h, Bool.and_self]

end Miros.Text.JsonCodec
