import MirosModel.Text.Regex
/-!
# Lemmas about `is_not_atomic` and the renderings of the statement grammar (used by `Props/C28.lean`)
-/
namespace Miros.Text

/-! ### the pattern -/

theorem notAtomic_cons2 (a b : Char) (rest : List Char) :
    notAtomic (a :: b :: rest) = ((inOpClass a && b = '=') || notAtomic (b :: rest)) := by
  rw [notAtomic]

theorem notAtomic_nil : notAtomic [] = false := by rw [notAtomic]; intros; contradiction
theorem notAtomic_single (a : Char) : notAtomic [a] = false := by
  rw [notAtomic]; intro a' b' rest h; cases h

/-- the pattern matches exactly when some character of the class is immediately followed by `=` -/
theorem notAtomic_iff (l : List Char) :
    notAtomic l = true ↔ ∃ pre a post, l = pre ++ a :: '=' :: post ∧ inOpClass a = true := by
  induction l with
  | nil =>
    rw [notAtomic_nil]
    constructor
    · intro h; cases h
    · rintro ⟨pre, a, post, h, _⟩; cases pre <;> cases h
  | cons a l ih =>
    cases l with
    | nil =>
      rw [notAtomic_single]
      constructor
      · intro h; cases h
      · rintro ⟨pre, a', post, h, _⟩
        cases pre with
        | nil => cases h
        | cons p ps => cases ps <;> cases h
    | cons b rest =>
      rw [notAtomic_cons2]
      constructor
      · intro h
        simp only [Bool.or_eq_true, Bool.and_eq_true, decide_eq_true_eq] at h
        rcases h with ⟨ha, hb⟩ | h
        · subst hb; exact ⟨[], a, rest, rfl, ha⟩
        · obtain ⟨pre, a', post, he, ha'⟩ := ih.mp h
          exact ⟨a :: pre, a', post, by rw [he]; rfl, ha'⟩
      · rintro ⟨pre, a', post, he, ha'⟩
        simp only [Bool.or_eq_true, Bool.and_eq_true, decide_eq_true_eq]
        cases pre with
        | nil =>
          simp only [List.nil_append, List.cons.injEq] at he
          obtain ⟨rfl, rfl, rfl⟩ := he
          exact Or.inl ⟨ha', rfl⟩
        | cons p ps =>
          simp only [List.cons_append, List.cons.injEq] at he
          right
          exact ih.mpr ⟨ps, a', post, he.2, ha'⟩

/-! ### "good" character lists: no match, and not starting with `=` (so that nothing put in front
can create a match) -/

def Good (l : List Char) : Prop := notAtomic l = false ∧ l.head? ≠ some '='

theorem notAtomic_append (l1 l2 : List Char) (h1 : notAtomic l1 = false) (h2 : notAtomic l2 = false)
    (hh : l2.head? ≠ some '=') : notAtomic (l1 ++ l2) = false := by
  induction l1 with
  | nil => exact h2
  | cons a l1 ih =>
    cases l1 with
    | nil =>
      cases l2 with
      | nil => exact notAtomic_single a
      | cons b l2' =>
        have hb : ¬ b = '=' := by intro e; subst e; exact hh rfl
        show notAtomic (a :: b :: l2') = false
        rw [notAtomic_cons2, h2]
        simp [hb]
    | cons b l1' =>
      rw [notAtomic_cons2] at h1
      simp only [Bool.or_eq_false_iff] at h1
      show notAtomic (a :: b :: (l1' ++ l2)) = false
      rw [notAtomic_cons2, h1.1]
      exact ih h1.2

theorem Good.append {l1 l2 : List Char} (h1 : Good l1) (h2 : Good l2) : Good (l1 ++ l2) := by
  refine ⟨notAtomic_append l1 l2 h1.1 h2.1 h2.2, ?_⟩
  cases l1 with
  | nil => exact h2.2
  | cons a l => exact h1.2

theorem Good.mid {p q r x : List Char} (h : Good (p ++ (q ++ r))) (hx : Good x) :
    Good (p ++ (q ++ (r ++ x))) := by
  have := Good.append h hx
  simpa only [List.append_assoc] using this

theorem notAtomic_of_no_eq (l : List Char) (h : ¬ '=' ∈ l) : notAtomic l = false := by
  cases hn : notAtomic l with
  | false => rfl
  | true =>
    obtain ⟨pre, a, post, he, _⟩ := (notAtomic_iff l).mp hn
    exact absurd (by rw [he]; simp) h

theorem Good.of_no_eq (l : List Char) (h : ¬ '=' ∈ l) : Good l := by
  refine ⟨notAtomic_of_no_eq l h, ?_⟩
  intro hh
  exact h (List.mem_of_mem_head? hh)

theorem digits_good (n : Nat) : Good (Nat.toDigits 10 n) := by
  apply Good.of_no_eq
  intro h
  have := Nat.isDigit_of_mem_toDigits (by decide) (by decide) h
  revert this; decide

/-! ### renderings -/

def Expr.safe : Expr → Bool
  | .attr => true
  | .var _ => true
  | .num _ => true
  | .bin _ a b => a.safe && b.safe
  | .cmp op a b => !(op = .le) && !(op = .ge) && a.safe && b.safe
  | .call a => a.safe
  | .index a => a.safe

theorem binStr_good (op : BinOp) : Good (" ".toList ++ ((binStr op).toList ++ " ".toList)) := by
  cases op <;> exact ⟨by decide, by decide⟩

theorem cmpStr_good (op : CmpOp) (h1 : op ≠ .le) (h2 : op ≠ .ge) :
    Good (" ".toList ++ ((cmpStr op).toList ++ " ".toList)) := by
  cases op <;> first | exact absurd rfl h1 | exact absurd rfl h2 | exact ⟨by decide, by decide⟩

theorem Expr.render_good (e : Expr) (h : e.safe = true) : Good e.render.toList := by
  induction e with
  | attr => exact ⟨by decide, by decide⟩
  | var n =>
    simp only [Expr.render, String.toList_append, toString, Nat.toList_repr]
    exact Good.append ⟨by decide, by decide⟩ (digits_good n)
  | num n =>
    simp only [Expr.render, toString, Nat.toList_repr]
    exact digits_good n
  | bin op a b iha ihb =>
    simp only [Expr.safe, Bool.and_eq_true] at h
    simp only [Expr.render, String.toList_append, List.append_assoc, toString]
    exact Good.append ⟨by decide, by decide⟩ (Good.append (iha h.1) (Good.mid (binStr_good op)
      (Good.append (ihb h.2) ⟨by decide, by decide⟩)))
  | cmp op a b iha ihb =>
    simp only [Expr.safe, Bool.and_eq_true, Bool.not_eq_true', decide_eq_false_iff_not] at h
    simp only [Expr.render, String.toList_append, List.append_assoc, toString]
    exact Good.append ⟨by decide, by decide⟩ (Good.append (iha h.1.2)
      (Good.mid (cmpStr_good op h.1.1.1 h.1.1.2) (Good.append (ihb h.2) ⟨by decide, by decide⟩)))
  | call a iha =>
    simp only [Expr.safe] at h
    simp only [Expr.render, String.toList_append, List.append_assoc, toString]
    exact Good.append ⟨by decide, by decide⟩ (Good.append (iha h) ⟨by decide, by decide⟩)
  | index a iha =>
    simp only [Expr.safe] at h
    simp only [Expr.render, String.toList_append, List.append_assoc, toString]
    exact Good.append ⟨by decide, by decide⟩ (Good.append (iha h) ⟨by decide, by decide⟩)

theorem Target.render_good (t : Target) : Good t.render.toList := by
  cases t with
  | attr => exact ⟨by decide, by decide⟩
  | var n =>
    simp only [Target.render, String.toList_append, toString, Nat.toList_repr]
    exact Good.append ⟨by decide, by decide⟩ (digits_good n)
  | item n =>
    simp only [Target.render, String.toList_append, List.append_assoc, toString, Nat.toList_repr]
    exact Good.append ⟨by decide, by decide⟩ (Good.append (digits_good n) ⟨by decide, by decide⟩)

/-- statements on which `is_not_atomic` cannot misfire, or for which misfiring is harmless:
no `<=` / `>=`, no comment containing an operator-assignment, and the only augmented assignment is
`o.x op= e` with `e` not reading the attribute -/
def Stmt.safe : Stmt → Bool
  | .expr e => e.safe
  | .assign _ e => e.safe
  | .aug t _ e => t = .attr && e.gets = 0
  | .ifPass e => e.safe
  | .comment s w => !w && s.safe

theorem Stmt.sets_le_one (s : Stmt) : s.sets ≤ 1 := by
  induction s with
  | expr e => simp [Stmt.sets]
  | assign t e => simp only [Stmt.sets]; split <;> omega
  | aug t op e => simp only [Stmt.sets]; split <;> omega
  | ifPass e => simp [Stmt.sets]
  | comment s w ih => simpa [Stmt.sets] using ih

/-- a safe statement either renders to a line the pattern does not match, or makes exactly one get
and one set -/
theorem Stmt.safe_cases (s : Stmt) (h : s.safe = true) :
    Good s.render.toList ∨ (s.gets = 1 ∧ s.sets = 1) := by
  induction s with
  | expr e => exact Or.inl (Expr.render_good e h)
  | assign t e =>
    left
    simp only [Stmt.render, String.toList_append, List.append_assoc, toString]
    exact Good.append (Target.render_good t) (Good.append ⟨by decide, by decide⟩ (Expr.render_good e h))
  | aug t op e =>
    right
    simp only [Stmt.safe, Bool.and_eq_true, decide_eq_true_eq] at h
    simp [Stmt.gets, Stmt.sets, h.1, h.2]
  | ifPass e =>
    left
    simp only [Stmt.render, String.toList_append, List.append_assoc, toString]
    exact Good.append ⟨by decide, by decide⟩ (Good.append (Expr.render_good e h) ⟨by decide, by decide⟩)
  | comment s w ih =>
    simp only [Stmt.safe, Bool.and_eq_true, Bool.not_eq_true'] at h
    rcases ih h.2 with hg | hgs
    · left
      simp only [Stmt.render, String.toList_append, h.1, Bool.false_eq_true, if_false]
      exact Good.append hg ⟨by decide, by decide⟩
    · right; exact hgs

end Miros.Text
