/-!
# Layer 5d — `Event.dumps` / `Event.loads` (event.py 205-225, 271-326)

```
Event(signal=<str>, payload): signals.append(name)  -- `if name in self: return else self[name] = len(self)+1`
                              signal_name = name; signal = signals[name]
dumps(e): json.dumps({'signal_name': e.signal_name, 'payload': e.payload})
loads(s): d = json.loads(s); Event(signal=d['signal_name'], payload=d['payload'])
```
JSON values are the inductive `J` (`None` is `null`).  CPython's `json` module is not modelled: it
is a parameter — an encoder into a wire type `W` and a decoder with `dec (enc j) = some j`
(trusted; exercised by the correspondence tests).  The signal registry is an insertion-ordered
dict from names to numbers.
-/
namespace Miros.Text.Json

inductive J
  | null
  | bool (b : Bool)
  | num (n : Int)
  | str (s : List Char)
  | arr (xs : List J)
  | obj (kvs : List (List Char × J))

/-- the process-wide signal registry (`signals`): name ↦ number, in registration order -/
abbrev Dict := List (List Char × Nat)

def Dict.get (d : Dict) (name : List Char) : Option Nat := (d.find? (fun x => x.1 = name)).map (·.2)

/-- `signals.append(name)`: a new name gets the number `len + 1`, a known name changes nothing -/
def Dict.append (d : Dict) (name : List Char) : Dict :=
  if (d.get name).isSome then d else d ++ [(name, d.length + 1)]

structure Ev where
  name : List Char
  number : Nat
  payload : J

/-- `Event(signal=name, payload=payload)` with a string signal: registers the name if new, the
event carries the number the registry holds for the name -/
def mkEvent (d : Dict) (name : List Char) (payload : J) : Dict × Ev :=
  let d1 := d.append name
  (d1, ⟨name, (d1.get name).getD 0, payload⟩)

/-- the dictionary handed to `json.dumps` (the signal number is left out) -/
def dumps (e : Ev) : J := .obj [("signal_name".toList, .str e.name), ("payload".toList, e.payload)]

def field (kvs : List (List Char × J)) (k : List Char) : Option J :=
  (kvs.find? (fun x => x.1 = k)).map (·.2)

/-- `Event.loads`: decode, read the two fields, build the event in *this* process's registry;
`none`: the Python code raises (not JSON, not an object, a field missing, name not a string) -/
def loads {W : Type} (dec : W → Option J) (d : Dict) (w : W) : Option (Dict × Ev) :=
  match dec w with
  | some (.obj kvs) =>
    match field kvs "signal_name".toList, field kvs "payload".toList with
    | some (.str name), some p => some (mkEvent d name p)
    | _, _ => none
  | _ => none

/-! ### registry facts -/

theorem Dict.get_append_new (d : Dict) (name : List Char) (h : d.get name = none) :
    (d ++ [(name, d.length + 1)] : Dict).get name = some (d.length + 1) := by
  unfold Dict.get at *
  rw [List.find?_append]
  cases hf : d.find? (fun x => x.1 = name) with
  | none => simp
  | some x => rw [hf] at h; cases h

/-- after `append`, the name is registered: with its old number if it was known, with `len + 1`
if it is new -/
theorem Dict.get_append_self (d : Dict) (name : List Char) :
    (d.append name).get name = some ((d.get name).getD (d.length + 1)) := by
  unfold Dict.append
  cases h : d.get name with
  | none => simp only [Option.isSome_none, Bool.false_eq_true, if_false, Option.getD_none]
            exact Dict.get_append_new d name h
  | some k => simp only [Option.isSome_some, if_true, Option.getD_some]; exact h

theorem Dict.append_of_known (d : Dict) (name : List Char) (k : Nat) (h : d.get name = some k) :
    d.append name = d := by
  unfold Dict.append; rw [h]; rfl

theorem Dict.append_of_new (d : Dict) (name : List Char) (h : d.get name = none) :
    d.append name = d ++ [(name, d.length + 1)] := by
  unfold Dict.append; rw [h]; rfl

/-- `append` is idempotent -/
theorem Dict.append_idem (d : Dict) (name : List Char) : (d.append name).append name = d.append name :=
  Dict.append_of_known _ name _ (Dict.get_append_self d name)

/-- registering a name never changes the number of a name already registered -/
theorem Dict.get_append_known (d : Dict) (name other : List Char) (k : Nat) (h : d.get other = some k) :
    (d.append name).get other = some k := by
  unfold Dict.append
  split
  · exact h
  · unfold Dict.get at *
    rw [List.find?_append]
    cases hf : d.find? (fun x => x.1 = other) with
    | none => rw [hf] at h; cases h
    | some x => rw [hf] at h; simpa using h

/-- the old entries stay in place: `append` only ever adds at the end -/
theorem Dict.append_prefix (d : Dict) (name : List Char) : d <+: d.append name := by
  unfold Dict.append
  split
  · exact List.prefix_refl d
  · exact List.prefix_append d _

/-! ### the round trip -/

theorem field_signal_name (name : List Char) (p : J) :
    field [("signal_name".toList, .str name), ("payload".toList, p)] "signal_name".toList = some (.str name) := by
  simp [field]

theorem field_payload (name : List Char) (p : J) :
    field [("signal_name".toList, .str name), ("payload".toList, p)] "payload".toList = some p := by
  simp [field]

theorem loads_dumps {W : Type} (enc : J → W) (dec : W → Option J) (hcodec : ∀ j, dec (enc j) = some j)
    (d : Dict) (e : Ev) : loads dec d (enc (dumps e)) = some (mkEvent d e.name e.payload) := by
  unfold loads
  rw [hcodec]
  simp only [dumps, field_signal_name, field_payload]

theorem mkEvent_known (d : Dict) (name : List Char) (p : J) (k : Nat) (h : d.get name = some k) :
    mkEvent d name p = (d, ⟨name, k, p⟩) := by
  unfold mkEvent
  simp only [Dict.append_of_known d name k h, h, Option.getD_some]

theorem mkEvent_new (d : Dict) (name : List Char) (p : J) (h : d.get name = none) :
    mkEvent d name p = (d ++ [(name, d.length + 1)], ⟨name, d.length + 1, p⟩) := by
  unfold mkEvent
  simp only [Dict.append_of_new d name h, Dict.get_append_new d name h, Option.getD_some]

end Miros.Text.Json
