import MirosModel.Text.Json
/-!
# Layer 5e — CPython's JSON text codec for the values an event carries

`Event.dumps` / `Event.loads` (event.py) call `json.dumps(d)` / `json.loads(s)` with the default
options.  This file models the two functions for the JSON values WITHOUT floats:

```
json.dumps(v)   encoder.py : py_encode_basestring_ascii (ESCAPE_ASCII = r'([\\"]|[^\ -~])', ESCAPE_DCT),
                _make_iterencode: separators ', ' and ': ', ensure_ascii=True, ints by int.__repr__,
                'true' / 'false' / 'null', '[]', '{}'
json.loads(s)   decoder.py : JSONDecoder.decode (whitespace ' \t\n\r', "Extra data"), py_scanstring (strict),
                JSONObject, JSONArray;  scanner.py : py_make_scanner (NUMBER_RE)
```

Text is a list of code points (`List Nat`, 0 … 0x10FFFF, surrogates 0xD800–0xDFFF allowed: a Python
`str` is a sequence of code points, not of Lean `Char`s).

What is modelled is what `json.loads` actually executes (the C accelerators `c_scanstring`,
`c_make_scanner`), which differs from the pure-Python sources in two places, both irrelevant for
texts written by `json.dumps`: the four characters after `\u` must be hex digits (the pure-Python
`int(esc, 16)` also takes `+123`, `1_23`, ` 12 `), and the digits of a number are the ASCII digits
(the pure-Python `\d` also takes other Unicode decimal digits).

Outside the model: floats (a number with a fraction or an exponent, `NaN`, `Infinity`, `-Infinity`
make `dec` answer `none`), the recursion limit of the interpreter, the 4300-digit limit of
`int` ↔ `str` conversions, dictionary keys that are not strings.

Every recursion is structural (on a fuel argument that is the length of the text at hand, or on the
value), so that the functions compute by `decide`.
-/
namespace Miros.Text.JsonCodec

/-- JSON values without floats; an object is the list of its members in order -/
inductive V
  | null
  | bool (b : Bool)
  | int (n : Int)
  | str (s : List Nat)
  | arr (xs : List V)
  | obj (kvs : List (List Nat × V))
  deriving Repr

/-! ### equality test (the `DecidableEq` instance built from it is in `JsonCodecLemmas`) -/
mutual
def V.beq : V → V → Bool
  | .null, .null => true
  | .bool a, .bool b => a == b
  | .int a, .int b => a == b
  | .str a, .str b => a == b
  | .arr a, .arr b => V.beqList a b
  | .obj a, .obj b => V.beqMembers a b
  | _, _ => false
def V.beqList : List V → List V → Bool
  | [], [] => true
  | x :: xs, y :: ys => V.beq x y && V.beqList xs ys
  | _, _ => false
def V.beqMembers : List (List Nat × V) → List (List Nat × V) → Bool
  | [], [] => true
  | (k, x) :: xs, (l, y) :: ys => (k == l && V.beq x y) && V.beqMembers xs ys
  | _, _ => false
end

/-! ### the encoder: `json.dumps` -/

/-- one lowercase hex digit, `d < 16` -/
def hexDigit (d : Nat) : Nat := if d < 10 then 48 + d else 87 + d

/-- `'{0:04x}'.format(n)` for `n < 0x10000` -/
def hex4 (n : Nat) : List Nat :=
  [hexDigit (n / 4096 % 16), hexDigit (n / 256 % 16), hexDigit (n / 16 % 16), hexDigit (n % 16)]

/-- `\uXXXX` -/
def uEsc (n : Nat) : List Nat := 0x5C :: 0x75 :: hex4 n

/-- the replacement of one code point in `py_encode_basestring_ascii`: the seven entries of
`ESCAPE_DCT` that are written with a letter, printable ASCII as it is, everything else `\uXXXX`,
above the BMP a surrogate pair -/
def encChar (c : Nat) : List Nat :=
  if c = 0x22 then [0x5C, 0x22]
  else if c = 0x5C then [0x5C, 0x5C]
  else if c = 0x0A then [0x5C, 0x6E]
  else if c = 0x0D then [0x5C, 0x72]
  else if c = 0x09 then [0x5C, 0x74]
  else if c = 0x08 then [0x5C, 0x62]
  else if c = 0x0C then [0x5C, 0x66]
  else if 0x20 ≤ c ∧ c ≤ 0x7E then [c]
  else if c < 0x10000 then uEsc c
  else
    uEsc (0xD800 ||| (((c - 0x10000) >>> 10) &&& 0x3FF)) ++ uEsc (0xDC00 ||| ((c - 0x10000) &&& 0x3FF))

def encBody : List Nat → List Nat
  | [] => []
  | c :: r => encChar c ++ encBody r

/-- `py_encode_basestring_ascii` -/
def encStr (s : List Nat) : List Nat := 0x22 :: (encBody s ++ [0x22])

/-- decimal digits of `n`, most significant first, given the digits already produced -/
def digitsAux : Nat → Nat → List Nat → List Nat
  | 0, _, acc => acc
  | fuel + 1, n, acc =>
    if n < 10 then (48 + n) :: acc else digitsAux fuel (n / 10) ((48 + n % 10) :: acc)

def natDigits (n : Nat) : List Nat := digitsAux (n + 1) n []

/-- `int.__repr__` -/
def encInt (n : Int) : List Nat :=
  if n < 0 then 0x2D :: natDigits n.natAbs else natDigits n.natAbs

mutual
/-- `json.dumps(v)` with the default options -/
def enc : V → List Nat
  | .null => [0x6E, 0x75, 0x6C, 0x6C]
  | .bool true => [0x74, 0x72, 0x75, 0x65]
  | .bool false => [0x66, 0x61, 0x6C, 0x73, 0x65]
  | .int n => encInt n
  | .str s => encStr s
  | .arr [] => [0x5B, 0x5D]
  | .arr (x :: xs) => 0x5B :: (enc x ++ (encTail xs ++ [0x5D]))
  | .obj [] => [0x7B, 0x7D]
  | .obj ((k, x) :: kvs) => 0x7B :: (encStr k ++ (0x3A :: 0x20 :: (enc x ++ (encMTail kvs ++ [0x7D]))))
/-- the items after the first one: each preceded by `, ` -/
def encTail : List V → List Nat
  | [] => []
  | x :: xs => 0x2C :: 0x20 :: (enc x ++ encTail xs)
/-- the members after the first one -/
def encMTail : List (List Nat × V) → List Nat
  | [] => []
  | (k, x) :: kvs => 0x2C :: 0x20 :: (encStr k ++ (0x3A :: 0x20 :: (enc x ++ encMTail kvs)))
end

/-! ### the decoder: `json.loads` -/

def isWs (c : Nat) : Bool := c = 0x20 || c = 0x09 || c = 0x0A || c = 0x0D

/-- `WHITESPACE.match(s, end).end()` -/
def skipWs : List Nat → List Nat
  | [] => []
  | c :: r => if isWs c then skipWs r else c :: r

def isHigh (c : Nat) : Bool := 0xD800 ≤ c && c ≤ 0xDBFF
def isLow (c : Nat) : Bool := 0xDC00 ≤ c && c ≤ 0xDFFF

/-- the code point of a surrogate pair -/
def joinSur (hi lo : Nat) : Nat := 0x10000 + (((hi - 0xD800) <<< 10) ||| (lo - 0xDC00))

def hexVal (c : Nat) : Option Nat :=
  if 0x30 ≤ c ∧ c ≤ 0x39 then some (c - 0x30)
  else if 0x61 ≤ c ∧ c ≤ 0x66 then some (c - 0x61 + 10)
  else if 0x41 ≤ c ∧ c ≤ 0x46 then some (c - 0x41 + 10)
  else none

/-- `_decode_uXXXX`: the four characters after the `u` -/
def decU : List Nat → Option (Nat × List Nat)
  | a :: b :: c :: d :: r =>
    match hexVal a, hexVal b, hexVal c, hexVal d with
    | some x, some y, some z, some w => some (((x * 16 + y) * 16 + z) * 16 + w, r)
    | _, _, _, _ => none
  | _ => none

/-- the text after a leading `\u`, if there is one (`s[end:end + 2] == '\\u'`) -/
def stripBsU : List Nat → Option (List Nat)
  | a :: b :: r => if a = 0x5C ∧ b = 0x75 then some r else none
  | _ => none

/-- `BACKSLASH` -/
def unesc (e : Nat) : Option Nat :=
  if e = 0x22 then some 0x22
  else if e = 0x5C then some 0x5C
  else if e = 0x2F then some 0x2F
  else if e = 0x62 then some 0x08
  else if e = 0x66 then some 0x0C
  else if e = 0x6E then some 0x0A
  else if e = 0x72 then some 0x0D
  else if e = 0x74 then some 0x09
  else none

/-- after `\u`: one unit, or a high surrogate merged with the `\uYYYY` low surrogate that follows.
A high surrogate followed by `\u` and something that is not four hex digits is an error. -/
def uStep (r1 : List Nat) : Option (Option Nat × List Nat) :=
  match decU r1 with
  | none => none
  | some (uni, r2) =>
    if isHigh uni then
      match stripBsU r2 with
      | none => some (some uni, r2)
      | some r3 =>
        match decU r3 with
        | none => none
        | some (uni2, r4) => if isLow uni2 then some (some (joinSur uni uni2), r4) else some (some uni, r2)
    else some (some uni, r2)

/-- after `\` -/
def escStep : List Nat → Option (Option Nat × List Nat)
  | [] => none
  | e :: r1 =>
    if e = 0x75 then uStep r1
    else match unesc e with
      | some ch => some (some ch, r1)
      | none => none

/-- one round of the loop of `py_scanstring`: `some (none, rest)` at the closing quote,
`some (some c, rest)` for one more code point of the result, `none` for an error (unterminated,
control character, bad escape) -/
def strStep : List Nat → Option (Option Nat × List Nat)
  | [] => none
  | c :: r =>
    if c = 0x22 then some (none, r)
    else if c = 0x5C then escStep r
    else if c < 0x20 then none
    else some (some c, r)

/-- `py_scanstring(s, end)` with `end` just after the opening quote -/
def scanStr : Nat → List Nat → Option (List Nat × List Nat)
  | 0, _ => none
  | fuel + 1, s =>
    match strStep s with
    | none => none
    | some (none, r) => some ([], r)
    | some (some ch, r) =>
      match scanStr fuel r with
      | none => none
      | some (cs, r') => some (ch :: cs, r')

/-- a string literal at the head of the text: the string and the text after the closing quote -/
def decStr : List Nat → Option (List Nat × List Nat)
  | [] => none
  | c :: r => if c = 0x22 then scanStr r.length r else none

def isDigit (c : Nat) : Bool := 0x30 ≤ c && c ≤ 0x39

def spanDigits : List Nat → List Nat × List Nat
  | [] => ([], [])
  | c :: r => if isDigit c then ((spanDigits r).1.cons c, (spanDigits r).2) else ([], c :: r)

def digitsVal (ds : List Nat) : Nat := ds.foldl (fun a d => a * 10 + (d - 48)) 0

/-- `(0|[1-9]\d*)` -/
def parseNat : List Nat → Option (Nat × List Nat)
  | [] => none
  | c :: r =>
    if c = 0x30 then some (0, r)
    else if 0x31 ≤ c ∧ c ≤ 0x39 then some (digitsVal (c :: (spanDigits r).1), (spanDigits r).2)
    else none

/-- does `(\.\d+)` match here -/
def fracAhead : List Nat → Bool
  | a :: d :: _ => a = 0x2E && isDigit d
  | _ => false

/-- does `([eE][-+]?\d+)` match here -/
def expAhead : List Nat → Bool
  | a :: d :: r =>
    (a = 0x65 || a = 0x45) &&
      (isDigit d || ((d = 0x2B || d = 0x2D) && (match r with | d' :: _ => isDigit d' | [] => false)))
  | _ => false

/-- `NUMBER_RE`: an integer; a number with a fraction or an exponent is a float — outside the model -/
def parseNum (s : List Nat) : Option (V × List Nat) :=
  match s with
  | [] => none
  | c :: r =>
    if c = 0x2D then
      match parseNat r with
      | none => none
      | some (n, r') => if fracAhead r' || expAhead r' then none else some (.int (-(n : Int)), r')
    else
      match parseNat s with
      | none => none
      | some (n, r') => if fracAhead r' || expAhead r' then none else some (.int (n : Int), r')

/-- `null`, `true`, `false` -/
def parseLit : List Nat → Option (V × List Nat)
  | a :: b :: c :: d :: r =>
    if a = 0x6E ∧ b = 0x75 ∧ c = 0x6C ∧ d = 0x6C then some (.null, r)
    else if a = 0x74 ∧ b = 0x72 ∧ c = 0x75 ∧ d = 0x65 then some (.bool true, r)
    else if a = 0x66 ∧ b = 0x61 ∧ c = 0x6C ∧ d = 0x73 then
      match r with
      | e :: r' => if e = 0x65 then some (.bool false, r') else none
      | [] => none
    else none
  | _ => none

/-- the loop of `JSONArray`, entered at the first item; `pv` is `scan_once` -/
def parseElems (pv : List Nat → Option (V × List Nat)) : Nat → List Nat → Option (List V × List Nat)
  | 0, _ => none
  | fuel + 1, s =>
    match pv s with
    | none => none
    | some (v, r) =>
      match skipWs r with
      | [] => none
      | c :: r1 =>
        if c = 0x5D then some ([v], r1)
        else if c = 0x2C then
          match parseElems pv fuel (skipWs r1) with
          | none => none
          | some (vs, r2) => some (v :: vs, r2)
        else none

/-- the loop of `JSONObject`, entered at the opening quote of the first key -/
def parseMembers (pv : List Nat → Option (V × List Nat)) : Nat → List Nat →
    Option (List (List Nat × V) × List Nat)
  | 0, _ => none
  | fuel + 1, s =>
    match decStr s with
    | none => none
    | some (k, r) =>
      match skipWs r with
      | [] => none
      | c :: r1 =>
        if c = 0x3A then
          match pv (skipWs r1) with
          | none => none
          | some (v, r2) =>
            match skipWs r2 with
            | [] => none
            | c2 :: r3 =>
              if c2 = 0x7D then some ([(k, v)], r3)
              else if c2 = 0x2C then
                match parseMembers pv fuel (skipWs r3) with
                | none => none
                | some (kvs, r4) => some ((k, v) :: kvs, r4)
              else none
        else none

/-- `_scan_once(string, idx)`: one value at the head of the text (no leading whitespace) -/
def parseValue : Nat → List Nat → Option (V × List Nat)
  | 0, _ => none
  | _ + 1, [] => none
  | fuel + 1, c :: r =>
    if c = 0x22 then
      match decStr (c :: r) with
      | none => none
      | some (s, r') => some (.str s, r')
    else if c = 0x7B then
      match skipWs r with
      | [] => none
      | c1 :: r1 =>
        if c1 = 0x7D then some (.obj [], r1)
        else match parseMembers (parseValue fuel) r.length (c1 :: r1) with
          | none => none
          | some (kvs, r2) => some (.obj kvs, r2)
    else if c = 0x5B then
      match skipWs r with
      | [] => none
      | c1 :: r1 =>
        if c1 = 0x5D then some (.arr [], r1)
        else match parseElems (parseValue fuel) r.length (c1 :: r1) with
          | none => none
          | some (xs, r2) => some (.arr xs, r2)
    else
      match parseLit (c :: r) with
      | some x => some x
      | none => parseNum (c :: r)

/-- `json.loads(s)`: whitespace, one value, whitespace, the end; the members of an object are
given as parsed (see `normObj`) -/
def dec (s : List Nat) : Option V :=
  match parseValue (s.length + 1) (skipWs s) with
  | none => none
  | some (v, r) => if (skipWs r).isEmpty then some v else none

/-! ### `dict(pairs)`: the last value of a key wins, at the position of its first occurrence -/

def setKey (k : List Nat) (v : V) : List (List Nat × V) → List (List Nat × V)
  | [] => [(k, v)]
  | (l, w) :: kvs => if l = k then (l, v) :: kvs else (l, w) :: setKey k v kvs

def normObj (kvs : List (List Nat × V)) : List (List Nat × V) :=
  kvs.foldl (fun acc kv => setKey kv.1 kv.2 acc) []

mutual
/-- `normObj` at every level: the Python value `json.loads` returns -/
def normV : V → V
  | .arr xs => .arr (normVList xs)
  | .obj kvs => .obj (normObj (normVMembers kvs))
  | v => v
def normVList : List V → List V
  | [] => []
  | x :: xs => normV x :: normVList xs
def normVMembers : List (List Nat × V) → List (List Nat × V)
  | [] => []
  | (k, x) :: kvs => (k, normV x) :: normVMembers kvs
end

/-! ### the strings and values that survive -/

def headIsLow : List Nat → Bool
  | [] => false
  | d :: _ => isLow d

/-- every code point ≤ 0x10FFFF -/
def inRange : List Nat → Bool
  | [] => true
  | c :: r => decide (c ≤ 0x10FFFF) && inRange r

/-- no high surrogate immediately followed by a low surrogate -/
def noPair : List Nat → Bool
  | [] => true
  | c :: r => !(isHigh c && headIsLow r) && noPair r

def good (s : List Nat) : Bool := inRange s && noPair s

/-- a Python string that `json.loads(json.dumps(s))` gives back -/
def Good (s : List Nat) : Prop := good s = true

instance (s : List Nat) : Decidable (Good s) := inferInstanceAs (Decidable (good s = true))

def distinctKeys : List (List Nat) → Bool
  | [] => true
  | k :: ks => !ks.contains k && distinctKeys ks

mutual
def goodV : V → Bool
  | .str s => good s
  | .arr xs => goodVList xs
  | .obj kvs => distinctKeys (kvs.map (·.1)) && goodVMembers kvs
  | _ => true
def goodVList : List V → Bool
  | [] => true
  | x :: xs => goodV x && goodVList xs
def goodVMembers : List (List Nat × V) → Bool
  | [] => true
  | (k, x) :: kvs => good k && goodV x && goodVMembers kvs
end

/-- all strings and keys are `Good`, the keys of each object are pairwise distinct -/
def GoodV (v : V) : Prop := goodV v = true

instance (v : V) : Decidable (GoodV v) := inferInstanceAs (Decidable (goodV v = true))

/-- what a string becomes on the way through the codec: each high surrogate immediately followed by
a low surrogate is replaced by the one code point of the pair -/
def readBack : List Nat → List Nat
  | [] => []
  | [c] => [c]
  | c :: d :: r => if isHigh c && isLow d then joinSur c d :: readBack r else c :: readBack (d :: r)

/-! ### the bridge to `Miros.Text.Json.J` (strings of `Char`s) -/
open Miros.Text.Json

def cps (s : List Char) : List Nat := s.map Char.toNat

def cpToChar? (n : Nat) : Option Char := if (Char.ofNat n).toNat = n then some (Char.ofNat n) else none

/-- the `Char`s of a text; `none` if a code point is a surrogate or out of range -/
def chars? : List Nat → Option (List Char)
  | [] => some []
  | n :: r =>
    match cpToChar? n, chars? r with
    | some c, some cs => some (c :: cs)
    | _, _ => none

mutual
def toV : J → V
  | .null => .null
  | .bool b => .bool b
  | .num n => .int n
  | .str s => .str (cps s)
  | .arr xs => .arr (toVList xs)
  | .obj kvs => .obj (toVMembers kvs)
def toVList : List J → List V
  | [] => []
  | x :: xs => toV x :: toVList xs
def toVMembers : List (List Char × J) → List (List Nat × V)
  | [] => []
  | (k, x) :: kvs => (cps k, toV x) :: toVMembers kvs
end

mutual
def ofV : V → Option J
  | .null => some .null
  | .bool b => some (.bool b)
  | .int n => some (.num n)
  | .str s => (chars? s).map .str
  | .arr xs => (ofVList xs).map .arr
  | .obj kvs => (ofVMembers kvs).map .obj
def ofVList : List V → Option (List J)
  | [] => some []
  | x :: xs =>
    match ofV x, ofVList xs with
    | some a, some b => some (a :: b)
    | _, _ => none
def ofVMembers : List (List Nat × V) → Option (List (List Char × J))
  | [] => some []
  | (k, x) :: kvs =>
    match chars? k, ofV x, ofVMembers kvs with
    | some k', some a, some b => some ((k', a) :: b)
    | _, _, _ => none
end

mutual
/-- the keys of every object are pairwise distinct, at every level (a Python `dict`) -/
def keysDistinct : J → Bool
  | .arr xs => keysDistinctList xs
  | .obj kvs => distinctKeys (kvs.map (fun kv => cps kv.1)) && keysDistinctMembers kvs
  | _ => true
def keysDistinctList : List J → Bool
  | [] => true
  | x :: xs => keysDistinct x && keysDistinctList xs
def keysDistinctMembers : List (List Char × J) → Bool
  | [] => true
  | (_, x) :: kvs => keysDistinct x && keysDistinctMembers kvs
end

/-- `json.dumps` on a `J` -/
def encJ (j : J) : List Nat := enc (toV j)

/-- `json.loads` to a `J` -/
def decJ (w : List Nat) : Option J := (dec w).bind ofV

end Miros.Text.JsonCodec
