import MirosModel.Text.ToCode
/-!
# Lemmas about the registry (`register`/`lookup`), the ladder printed by `to_code`, and charts that
differ only in how they decline (used by `Props/C17.lean`)
-/
namespace Miros.Text
open Miros.Hsm

abbrev Tbl := List (RSig × Cb × Bool)

/-- a table is a dict: every signal at most once -/
def TableWF (tbl : Tbl) : Prop := (tbl.map (·.1)).Nodup

/-- the "named `handled`" flag is only set on callbacks that do return HANDLED -/
def FlagsHonest (tbl : Tbl) : Prop := ∀ x ∈ tbl, x.2.2 = true → x.2.1 = .handled

/-- every table of the registry is a dict with honest flags -/
def RegOK (r : Reg) : Prop := ∀ sr ∈ r, TableWF sr.table ∧ FlagsHonest sr.table

theorem TableWF_nil : TableWF [] := by simp [TableWF]

theorem FlagsHonest_nil : FlagsHonest [] := by simp [FlagsHonest]

theorem map_fst_replace (tbl : Tbl) (sg : RSig) (cb : Cb) (nh : Bool) :
    (tbl.map (fun x => if x.1 = sg then (sg, cb, nh) else x)).map (·.1) = tbl.map (·.1) := by
  induction tbl with
  | nil => rfl
  | cons x xs ih =>
    simp only [List.map_cons, ih]
    by_cases h : x.1 = sg <;> simp [h]

theorem register_WF (tbl : Tbl) (sg : RSig) (cb : Cb) (nh : Bool) (h : TableWF tbl) :
    TableWF (register tbl sg cb nh) := by
  unfold register
  split
  · unfold TableWF; rw [map_fst_replace]; exact h
  · rename_i hn
    unfold TableWF at *
    simp only [List.map_append, List.map_cons, List.map_nil]
    rw [List.nodup_append]
    refine ⟨h, by simp, ?_⟩
    intro a ha b hb
    simp only [List.mem_singleton] at hb
    subst hb
    intro hab; subst hab
    apply hn
    simp only [List.mem_map] at ha
    obtain ⟨x, hx, hx1⟩ := ha
    simp only [List.any_eq_true, decide_eq_true_eq]
    exact ⟨x, hx, hx1⟩

theorem register_FlagsHonest (tbl : Tbl) (sg : RSig) (cb : Cb) (nh : Bool) (h : FlagsHonest tbl)
    (hcb : nh = true → cb = .handled) : FlagsHonest (register tbl sg cb nh) := by
  unfold register
  split
  · intro x hx
    simp only [List.mem_map] at hx
    obtain ⟨y, hy, rfl⟩ := hx
    by_cases hs : y.1 = sg
    · simp only [hs, if_true]; exact hcb
    · simp only [hs, if_false]; exact h y hy
  · intro x hx
    simp only [List.mem_append, List.mem_singleton] at hx
    rcases hx with hx | rfl
    · exact h x hx
    · exact hcb

theorem lookup_nil (sg : RSig) : lookup [] sg = none := rfl

theorem lookup_cons (x : RSig × Cb × Bool) (xs : Tbl) (sg : RSig) :
    lookup (x :: xs) sg = if x.1 = sg then some x.2.1 else lookup xs sg := by
  unfold lookup
  by_cases h : x.1 = sg <;> simp [h]

theorem lookup_replace (tbl : Tbl) (sg sg' : RSig) (cb : Cb) (nh : Bool) :
    lookup (tbl.map (fun x => if x.1 = sg then (sg, cb, nh) else x)) sg' =
      if sg' = sg then (if tbl.any (fun x => x.1 = sg) then some cb else none) else lookup tbl sg' := by
  induction tbl with
  | nil => simp [lookup_nil]
  | cons x xs ih =>
    simp only [List.map_cons, lookup_cons, ih, List.any_cons]
    by_cases h : x.1 = sg
    · by_cases h' : sg' = sg
      · subst h'; simp [h]
      · have : ¬ sg = sg' := fun e => h' e.symm
        have : ¬ x.1 = sg' := by rw [h]; exact this
        simp [*]
    · by_cases h' : sg' = sg
      · subst h'
        have hd : decide (x.1 = sg') = false := by simp [h]
        simp only [h, if_false, if_true, decide_false, Bool.false_or]
      · simp [h, h']

theorem lookup_append_single (tbl : Tbl) (y : RSig × Cb × Bool) (sg : RSig) :
    lookup (tbl ++ [y]) sg =
      match lookup tbl sg with
      | some cb => some cb
      | none => if y.1 = sg then some y.2.1 else none := by
  induction tbl with
  | nil => simp [lookup_cons, lookup_nil]
  | cons x xs ih =>
    simp only [List.cons_append, lookup_cons, ih]
    by_cases h : x.1 = sg <;> simp [h]

theorem lookup_none_of_not_any (tbl : Tbl) (sg : RSig) (h : ¬ tbl.any (fun x => x.1 = sg) = true) :
    lookup tbl sg = none := by
  induction tbl with
  | nil => rfl
  | cons x xs ih =>
    simp only [List.any_cons, Bool.or_eq_true, decide_eq_true_eq, not_or] at h
    rw [lookup_cons, if_neg h.1]
    exact ih h.2

/-- dict semantics of `register` (holds for every table, in particular the well-formed ones) -/
theorem lookup_register (tbl : Tbl) (sg sg' : RSig) (cb : Cb) (nh : Bool) :
    lookup (register tbl sg cb nh) sg' = if sg' = sg then some cb else lookup tbl sg' := by
  unfold register
  split
  · rename_i h
    rw [lookup_replace, h]; simp
  · rename_i h
    rw [lookup_append_single]
    by_cases h' : sg' = sg
    · subst h'
      rw [lookup_none_of_not_any tbl sg' h]; try simp
    · have : ¬ sg = sg' := fun e => h' e.symm
      simp only [h', if_false, this]
      cases lookup tbl sg' <;> rfl

/-! ### the ladder -/

/-- the answer a single branch gives -/
def Branch.ans : Branch → Cb
  | .call _ cb => cb
  | .handledInline _ => .handled

theorem ladderAnswer_eq (l : List Branch) (sg : RSig) :
    ladderAnswer l sg = (l.find? (fun b => b.sig = sg)).map Branch.ans := by
  unfold ladderAnswer
  cases l.find? (fun b => b.sig = sg) with
  | none => rfl
  | some b => cases b <;> rfl

theorem branchOf_sig (x : RSig × Cb × Bool) : (branchOf x).sig = x.1 := by
  unfold branchOf; split <;> rfl

/-- what the printed branch of a table entry answers: the callback, or HANDLED when the callback is
named `handled` -/
def inlined (x : RSig × Cb × Bool) : Cb := if x.2.2 then .handled else x.2.1

theorem branchOf_ans (x : RSig × Cb × Bool) : (branchOf x).ans = inlined x := by
  unfold branchOf inlined; split <;> rfl

theorem find_map_branchOf (l : Tbl) (sg : RSig) :
    (l.map branchOf).find? (fun b => b.sig = sg) = (l.find? (fun x => x.1 = sg)).map branchOf := by
  induction l with
  | nil => rfl
  | cons x xs ih =>
    simp only [List.map_cons, List.find?_cons, branchOf_sig]
    by_cases h : x.1 = sg <;> simp [h, ih]

theorem find_withPriority (tbl : Tbl) (p : Nat) (sg : RSig) :
    (withPriority tbl p).find? (fun x => x.1 = sg) =
      if priority sg = p then tbl.find? (fun x => x.1 = sg) else none := by
  unfold withPriority
  induction tbl with
  | nil => simp
  | cons x xs ih =>
    simp only [List.filter_cons]
    by_cases hp : priority x.1 = p
    · simp only [hp, decide_true, if_true, List.find?_cons]
      by_cases h : x.1 = sg
      · simp [h, ← hp]
      · simp [h, ih]
    · simp only [hp, decide_false, List.find?_cons]
      by_cases h : x.1 = sg
      · subst h; simp [hp, ih]
      · simp [h, ih]

theorem withPriority_isEmpty (tbl : Tbl) (p : Nat) :
    (withPriority tbl p).isEmpty = true ↔ ∀ x ∈ tbl, priority x.1 ≠ p := by
  unfold withPriority
  simp [List.isEmpty_iff, List.filter_eq_nil_iff]

theorem find_none_of_priority (tbl : Tbl) (sg : RSig)
    (h : ∀ x ∈ tbl, priority x.1 ≠ priority sg) : tbl.find? (fun x => x.1 = sg) = none := by
  rw [List.find?_eq_none]
  intro x hx hxs
  simp only [decide_eq_true_eq] at hxs
  exact h x hx (by rw [hxs])

theorem find_some_of_priority (tbl : Tbl) (sg : RSig) (hs : ∀ y, priority y = priority sg → y = sg)
    (h : ¬ ∀ x ∈ tbl, priority x.1 ≠ priority sg) : ∃ x, tbl.find? (fun x => x.1 = sg) = some x := by
  cases hf : tbl.find? (fun x => x.1 = sg) with
  | some x => exact ⟨x, rfl⟩
  | none =>
    exfalso; apply h
    intro x hx hp
    rw [List.find?_eq_none] at hf
    exact hf x hx (by simp [hs _ hp])

/-- the answer of one segment of the ladder (the branches of priority `p`, or the filled-in
HANDLED branch for `dflt` when there is none) -/
theorem find_segment (tbl : Tbl) (p : Nat) (dflt sg : RSig) (hd : priority dflt = p)
    (hu : ∀ y, priority y = p → y = dflt) :
    (if (withPriority tbl p).isEmpty then [Branch.handledInline dflt]
      else (withPriority tbl p).map branchOf).find? (fun b => b.sig = sg) =
    if priority sg = p then
      (match tbl.find? (fun x => x.1 = sg) with
       | some x => some (branchOf x)
       | none => some (Branch.handledInline dflt))
    else none := by
  by_cases hp : priority sg = p
  · have hsg : sg = dflt := hu _ hp
    subst hsg
    simp only [hp, if_true]
    by_cases he : (withPriority tbl p).isEmpty = true
    · simp only [he, if_true]
      rw [withPriority_isEmpty] at he
      rw [find_none_of_priority tbl sg (by rw [hp]; exact he)]
      simp [Branch.sig]
    · rw [if_neg he]
      rw [withPriority_isEmpty] at he
      obtain ⟨x, hx⟩ := find_some_of_priority tbl sg (by rw [hp]; exact hu) (by rw [hp]; exact he)
      rw [find_map_branchOf, find_withPriority, if_pos hp, hx]; rfl
  · simp only [hp, if_false]
    split
    · have : ¬ dflt = sg := by intro e; subst e; exact hp hd
      simp [Branch.sig, this]
    · rw [find_map_branchOf, find_withPriority, if_neg hp]; rfl

theorem find_userSegment (tbl : Tbl) (sg : RSig) :
    ((withPriority tbl 3).map branchOf).find? (fun b => b.sig = sg) =
      if priority sg = 3 then (tbl.find? (fun x => x.1 = sg)).map branchOf else none := by
  rw [find_map_branchOf, find_withPriority]
  split <;> rfl

theorem toCode_eq (tbl : Tbl) : toCode tbl =
    (if (withPriority tbl 1).isEmpty then [Branch.handledInline .entry] else (withPriority tbl 1).map branchOf) ++
    (if (withPriority tbl 2).isEmpty then [Branch.handledInline .init] else (withPriority tbl 2).map branchOf) ++
    (withPriority tbl 3).map branchOf ++
    (if (withPriority tbl 4).isEmpty then [Branch.handledInline .exit] else (withPriority tbl 4).map branchOf) := rfl

theorem priority_1 (y : RSig) (h : priority y = 1) : y = .entry := by cases y <;> simp_all [priority]
theorem priority_2 (y : RSig) (h : priority y = 2) : y = .init := by cases y <;> simp_all [priority]
theorem priority_4 (y : RSig) (h : priority y = 4) : y = .exit := by cases y <;> simp_all [priority]

/-- the first branch of the whole ladder that tests `sg` -/
theorem find_toCode (tbl : Tbl) (sg : RSig) :
    (toCode tbl).find? (fun b => b.sig = sg) =
      match tbl.find? (fun x => x.1 = sg) with
      | some x => some (branchOf x)
      | none => if sg = .entry ∨ sg = .init ∨ sg = .exit then some (Branch.handledInline sg) else none := by
  rw [toCode_eq]
  simp only [List.find?_append]
  rw [find_segment tbl 1 .entry sg rfl priority_1, find_segment tbl 2 .init sg rfl priority_2,
    find_userSegment, find_segment tbl 4 .exit sg rfl priority_4]
  cases sg <;> simp [priority] <;> cases tbl.find? _ <;> simp

theorem lookup_eq_find (tbl : Tbl) (sg : RSig) :
    lookup tbl sg = (tbl.find? (fun x => x.1 = sg)).map (·.2.1) := rfl

/-- `lookup` with the "named `handled`" callbacks inlined -/
def lookupInlined (tbl : Tbl) (sg : RSig) : Option Cb := (tbl.find? (fun x => x.1 = sg)).map inlined

theorem lookupInlined_eq_lookup (tbl : Tbl) (h : FlagsHonest tbl) (sg : RSig) :
    lookupInlined tbl sg = lookup tbl sg := by
  unfold lookupInlined lookup
  cases hf : tbl.find? (fun x => x.1 = sg) with
  | none => rfl
  | some x =>
    have hx := List.mem_of_find?_eq_some hf
    simp only [Option.map_some, inlined]
    split
    · rename_i hb; rw [h x hx hb]
    · rfl

theorem ladderAnswer_toCode_inlined (tbl : Tbl) (sg : RSig) :
    ladderAnswer (toCode tbl) sg =
      match lookupInlined tbl sg with
      | some cb => some cb
      | none => if sg = .entry ∨ sg = .init ∨ sg = .exit then some .handled else none := by
  rw [ladderAnswer_eq, find_toCode, lookupInlined]
  cases tbl.find? (fun x => x.1 = sg) with
  | some x => simp [branchOf_ans]
  | none =>
    simp only [Option.map_none]
    split <;> simp [Branch.ans]

/-! ### order of the ladder -/

theorem map_sig_branchOf (l : Tbl) : (l.map branchOf).map Branch.sig = l.map (·.1) := by
  simp [List.map_map, Function.comp_def, branchOf_sig]

theorem nodup_all_eq {α} (l : List α) (a : α) (hn : l.Nodup) (h : ∀ x ∈ l, x = a) :
    l = [] ∨ l = [a] := by
  cases l with
  | nil => exact Or.inl rfl
  | cons x xs =>
    right
    have hx := h x (by simp)
    subst hx
    cases xs with
    | nil => rfl
    | cons y ys =>
      have hy := h y (by simp)
      subst hy
      simp at hn

theorem withPriority_map_fst (tbl : Tbl) (p : Nat) :
    (withPriority tbl p).map (·.1) = (tbl.map (·.1)).filter (fun s => priority s = p) := by
  unfold withPriority
  induction tbl with
  | nil => rfl
  | cons x xs ih =>
    simp only [List.filter_cons, List.map_cons]
    by_cases h : priority x.1 = p <;> simp [h, ih]

theorem segment_sigs (tbl : Tbl) (hwf : TableWF tbl) (p : Nat) (dflt : RSig)
    (hu : ∀ y, priority y = p → y = dflt) :
    (if (withPriority tbl p).isEmpty then [Branch.handledInline dflt]
      else (withPriority tbl p).map branchOf).map Branch.sig = [dflt] := by
  split
  · rfl
  · rename_i he
    rw [map_sig_branchOf]
    have hnd : ((withPriority tbl p).map (·.1)).Nodup := by
      rw [withPriority_map_fst]; exact List.Nodup.sublist List.filter_sublist hwf
    have hall : ∀ s ∈ (withPriority tbl p).map (·.1), s = dflt := by
      intro s hs
      rw [withPriority_map_fst, List.mem_filter] at hs
      exact hu s (by simpa using hs.2)
    rcases nodup_all_eq _ dflt hnd hall with h | h
    · exfalso; apply he
      simp only [List.map_eq_nil_iff] at h
      simp [h]
    · exact h

/-! ### charts that differ only in how they decline -/

theorem SameUpToDecline.symm {c1 c2 : Chart} (h : SameUpToDecline c1 c2) : SameUpToDecline c2 c1 := by
  obtain ⟨h1, h2, h3, h4⟩ := h
  refine ⟨?_, fun s => (h2 s).symm, h3.symm, fun s => (h4 s).symm⟩
  intro s n
  rcases h1 s n with h | ⟨ha, hb⟩ | ⟨ha, hb⟩
  · exact Or.inl h.symm
  · exact Or.inr (Or.inr ⟨hb, ha⟩)
  · exact Or.inr (Or.inl ⟨hb, ha⟩)

theorem SameUpToDecline.refl (c : Chart) : SameUpToDecline c c :=
  ⟨fun _ _ => Or.inl rfl, fun _ => rfl, rfl, fun _ => rfl⟩

theorem offers_congr {c1 c2 : Chart} (h : SameUpToDecline c1 c2) (n : Nat) :
    ∀ s, offers c1 n s = offers c2 n s := by
  intro s
  induction s with
  | nil => rfl
  | cons a p ih =>
    unfold offers
    rcases h.1 (a :: p) n with he | ⟨ha, hb⟩ | ⟨ha, hb⟩
    · rw [he]; cases c2.react (a :: p) n <;> simp only [ih]
    · rw [ha, hb]; simp only [ih]
    · rw [ha, hb]; simp only [ih]

theorem settle_congr {c1 c2 : Chart} (h : SameUpToDecline c1 c2) :
    ∀ fuel t, settle c1 fuel t = settle c2 fuel t := by
  intro fuel
  induction fuel with
  | zero => intro t; rfl
  | succ k ih =>
    intro t
    unfold settle
    rw [h.2.1 t]
    cases c2.init t with
    | none => rfl
    | some tgt => simp only [ih]

theorem WF_of_SameUpToDecline {c1 c2 : Chart} (h : SameUpToDecline c1 c2) (hwf : WF c1) : WF c2 where
  init_desc := by
    intro s t hi; rw [← h.2.1 s] at hi; exact hwf.init_desc s t hi
  init_depth := by
    intro s t hi; rw [← h.2.1 s] at hi; rw [← h.2.2.1]; exact hwf.init_depth s t hi
  tran_ne_top := by
    intro s n t hr
    rcases h.1 s n with he | ⟨_, hb⟩ | ⟨_, hb⟩
    · rw [← he] at hr; exact hwf.tran_ne_top s n t hr
    · rw [hb] at hr; cases hr
    · rw [hb] at hr; cases hr
  no_none := by
    intro s n hr
    rcases h.1 s n with he | ⟨_, hb⟩ | ⟨_, hb⟩
    · rw [← he] at hr; exact hwf.no_none s n hr
    · rw [hb] at hr; cases hr
    · rw [hb] at hr; cases hr
  no_fall := by
    intro s; rw [← h.2.2.2 s]; exact hwf.no_fall s

/-! ### the registry's tables -/

theorem Reg.table_ok (r : Reg) (h : RegOK r) (s : St) :
    TableWF (r.table s) ∧ FlagsHonest (r.table s) := by
  unfold Reg.table
  cases hf : r.find? (fun x => x.name = s) with
  | none => exact ⟨TableWF_nil, FlagsHonest_nil⟩
  | some sr => exact h sr (List.mem_of_find?_eq_some hf)

end Miros.Text
