import MirosModel.Text.Strip
/-!
# Lemmas about `stripped()`: trace lines, padding, blank lines (used by `Props/C32.lean`)
-/
namespace Miros.Text

/-- a line as `trace()` writes it: `[<timestamp>] <body>` -/
def TraceLine (ts body : List Char) : List Char := '[' :: ts ++ ']' :: ' ' :: body

/-- a timestamp: a non-empty run of digits, `-`, `:`, `.`, blank -/
def Ts (ts : List Char) : Prop := ts ≠ [] ∧ ∀ c ∈ ts, inTsClass c = true

/-- a body (`[name] e->SIG() a->b`): not empty, no line break inside, no whitespace around -/
def Body (b : List Char) : Prop :=
  b ≠ [] ∧ (∀ c ∈ b, isLineBreak c = false) ∧
  (∀ c, b.head? = some c → isSpace c = false) ∧ (∀ c, b.getLast? = some c → isSpace c = false)

/-- padding: whitespace that does not break the line -/
def Pad (p : List Char) : Prop := ∀ c ∈ p, isSpace c = true ∧ isLineBreak c = false

def NoBreak (l : List Char) : Prop := ∀ c ∈ l, isLineBreak c = false

/-! ### generic list facts -/

theorem dropWhile_append_all {α} (f : α → Bool) (p l : List α) (h : ∀ c ∈ p, f c = true) :
    (p ++ l).dropWhile f = l.dropWhile f := by
  induction p with
  | nil => rfl
  | cons a p ih =>
    have ha : f a = true := h a (by simp)
    simp only [List.cons_append, List.dropWhile_cons, ha, if_true]
    exact ih (fun c hc => h c (by simp [hc]))

theorem takeWhile_append_stop {α} (f : α → Bool) (p : List α) (a : α) (l : List α)
    (h : ∀ c ∈ p, f c = true) (ha : f a = false) : (p ++ a :: l).takeWhile f = p := by
  induction p with
  | nil => simp [ha]
  | cons b p ih =>
    have hb : f b = true := h b (by simp)
    simp only [List.cons_append, List.takeWhile_cons, hb, if_true]
    rw [ih (fun c hc => h c (by simp [hc]))]

theorem dropWhile_append_stop {α} (f : α → Bool) (p : List α) (a : α) (l : List α)
    (h : ∀ c ∈ p, f c = true) (ha : f a = false) : (p ++ a :: l).dropWhile f = a :: l := by
  rw [dropWhile_append_all f p _ h]
  simp [ha]

/-! ### the timestamp pattern -/

theorem inTsClass_not_break (c : Char) (h : inTsClass c = true) : isLineBreak c = false := by
  unfold inTsClass at h
  simp only [Bool.or_eq_true, decide_eq_true_eq] at h
  rcases h with (((h | h) | h) | h) | h
  · have h' := h
    simp only [Char.isDigit, Bool.and_eq_true, decide_eq_true_eq] at h'
    have h1 : 48 ≤ c.toNat := UInt32.le_iff_toNat_le.mp h'.1
    have h2 : c.toNat ≤ 57 := UInt32.le_iff_toNat_le.mp h'.2
    have hn : c ≠ '\n' := by intro e; subst e; revert h; decide
    have hr : c ≠ '\r' := by intro e; subst e; revert h; decide
    simp only [isLineBreak, hn, hr, decide_false, Bool.false_or, Bool.or_eq_false_iff,
      decide_eq_false_iff_not]
    omega
  all_goals (subst h; decide)

theorem matchTs_traceLine (k : Nat) (ts b : List Char) (hts : Ts ts) (hb : Body b) :
    matchTs (List.replicate k ' ' ++ TraceLine ts b) = some b := by
  obtain ⟨hne, hcls⟩ := hts
  obtain ⟨hbne, hbnb, _, _⟩ := hb
  have h1 : (List.replicate k ' ' ++ TraceLine ts b).dropWhile (· = ' ') = TraceLine ts b := by
    unfold TraceLine
    apply dropWhile_append_stop (fun x => decide (x = ' ')) (List.replicate k ' ') '[' _ _ (by decide)
    intro c hc
    rw [List.mem_replicate] at hc
    simp [hc.2]
  have h2 : (ts ++ ']' :: ' ' :: b).takeWhile inTsClass = ts :=
    takeWhile_append_stop _ _ _ _ hcls (by decide)
  have h3 : (ts ++ ']' :: ' ' :: b).dropWhile inTsClass = ']' :: ' ' :: b :=
    dropWhile_append_stop _ _ _ _ hcls (by decide)
  have h4 : ts.isEmpty = false := by cases ts <;> simp_all
  have h5 : ¬ b.getLast? = some '\n' := by
    intro h
    have := hbnb '\n' (List.mem_of_getLast? h)
    revert this; decide
  have h6 : b.isEmpty = false := by cases b <;> simp_all
  have h7 : ¬ '\n' ∈ b := by
    intro hc
    have := hbnb '\n' hc
    revert this; decide
  unfold matchTs
  rw [h1]
  unfold TraceLine
  simp [h2, h3, h4, h5, h6, h7]

/-! ### `strip` -/

theorem strip_core (p1 l p2 : List Char) (h1 : ∀ c ∈ p1, isSpace c = true)
    (h2 : ∀ c ∈ p2, isSpace c = true) (hne : l ≠ [])
    (hh : ∀ c, l.head? = some c → isSpace c = false)
    (hl : ∀ c, l.getLast? = some c → isSpace c = false) :
    strip (p1 ++ l ++ p2) = l := by
  unfold strip
  rw [List.append_assoc, dropWhile_append_all _ _ _ h1]
  have e1 : (l ++ p2).dropWhile isSpace = l ++ p2 := by
    cases l with
    | nil => exact absurd rfl hne
    | cons a l' =>
      have := hh a rfl
      simp [this]
  rw [e1, List.reverse_append, dropWhile_append_all _ _ _ (by
    intro c hc; exact h2 c (List.mem_reverse.mp hc))]
  have e2 : l.reverse.dropWhile isSpace = l.reverse := by
    cases hr : l.reverse with
    | nil => rfl
    | cons a r =>
      have : l.getLast? = some a := by
        rw [List.getLast?_eq_head?_reverse, hr]; rfl
      have := hl a this
      simp [this]
  rw [e2, List.reverse_reverse]

theorem strip_blank (p : List Char) (h : ∀ c ∈ p, isSpace c = true) : strip p = [] := by
  unfold strip
  have : p.dropWhile isSpace = [] := by
    have := dropWhile_append_all isSpace p [] h
    simpa using this
  rw [this]; rfl

theorem traceLine_ne (ts b : List Char) : TraceLine ts b ≠ [] := by simp [TraceLine]

theorem traceLine_head (ts b : List Char) (c : Char) (h : (TraceLine ts b).head? = some c) :
    isSpace c = false := by
  simp only [TraceLine, List.cons_append, List.head?_cons, Option.some.injEq] at h
  subst h; decide

theorem traceLine_last (ts b : List Char) (hb : Body b) (c : Char)
    (h : (TraceLine ts b).getLast? = some c) : isSpace c = false := by
  apply hb.2.2.2 c
  have hb' := hb.1
  have e : TraceLine ts b = ('[' :: ts ++ [']', ' ']) ++ b := by simp [TraceLine]
  rw [e, List.getLast?_append] at h
  cases hl : b.getLast? with
  | none => rw [List.getLast?_eq_none_iff] at hl; exact absurd hl hb'
  | some x => rw [hl] at h; simpa using h

theorem strip_padded_line (p1 ts b p2 : List Char) (h1 : Pad p1) (h2 : Pad p2) (hb : Body b) :
    strip (p1 ++ TraceLine ts b ++ p2) = TraceLine ts b :=
  strip_core p1 _ p2 (fun c hc => (h1 c hc).1) (fun c hc => (h2 c hc).1) (traceLine_ne ts b)
    (traceLine_head ts b) (traceLine_last ts b hb)

theorem item_traceLine (ts b : List Char) (hts : Ts ts) (hb : Body b) :
    itemWithoutTimestamp (TraceLine ts b) = b := by
  unfold itemWithoutTimestamp
  have := matchTs_traceLine 0 ts b hts hb
  simp only [List.replicate_zero, List.nil_append] at this
  rw [this]; rfl

/-! ### `splitLines` -/

theorem splitLinesAux_nobreak (l : List Char) (h : NoBreak l) : ∀ cur,
    splitLinesAux l cur false = if (cur.reverse ++ l).isEmpty then [] else [cur.reverse ++ l] := by
  induction l with
  | nil => intro cur; simp [splitLinesAux]
  | cons c rest ih =>
    intro cur
    have hc : isLineBreak c = false := h c (by simp)
    have hr : ¬ c = '\r' := by intro e; subst e; revert hc; decide
    have ih' := ih (fun x hx => h x (by simp [hx])) (c :: cur)
    simp only [splitLinesAux, Bool.false_and, Bool.false_eq_true, if_false, hr, hc]
    rw [ih']
    simp

theorem splitLinesAux_line (l rest : List Char) (h : NoBreak l) : ∀ cur,
    splitLinesAux (l ++ '\n' :: rest) cur false = (cur.reverse ++ l) :: splitLinesAux rest [] false := by
  induction l with
  | nil =>
    intro cur
    have h1 : ¬ '\n' = '\r' := by decide
    have h2 : isLineBreak '\n' = true := by decide
    simp only [List.nil_append, splitLinesAux, Bool.false_and, Bool.false_eq_true, if_false, h1, h2,
      if_true, List.append_nil]
  | cons c l' ih =>
    intro cur
    have hc : isLineBreak c = false := h c (by simp)
    have hr : ¬ c = '\r' := by intro e; subst e; revert hc; decide
    have ih' := ih (fun x hx => h x (by simp [hx])) (c :: cur)
    simp only [List.cons_append, splitLinesAux, Bool.false_and, Bool.false_eq_true, if_false, hr, hc]
    rw [ih']
    simp

/-- lines joined by `'\n'` -/
def sepNl : List (List Char) → List Char
  | [] => []
  | [l] => l
  | l :: l' :: ls => l ++ '\n' :: sepNl (l' :: ls)

/-- `splitlines` of lines joined by `'\n'` gives the lines back, except that an empty last line
is not reported -/
theorem splitLines_sepNl (ls : List (List Char)) (h : ∀ l ∈ ls, NoBreak l) :
    ∃ tl, (tl = [] ∨ tl = [[]]) ∧ splitLines (sepNl ls) ++ tl = ls := by
  induction ls with
  | nil => exact ⟨[], Or.inl rfl, rfl⟩
  | cons l ls ih =>
    cases ls with
    | nil =>
      have := splitLinesAux_nobreak l (h l (by simp)) []
      simp only [List.reverse_nil, List.nil_append] at this
      unfold splitLines sepNl
      rw [this]
      cases l with
      | nil => exact ⟨[[]], Or.inr rfl, rfl⟩
      | cons a l' => exact ⟨[], Or.inl rfl, by simp⟩
    | cons l' ls' =>
      obtain ⟨tl, htl, he⟩ := ih (fun x hx => h x (by simp [hx]))
      refine ⟨tl, htl, ?_⟩
      unfold splitLines at he ⊢
      rw [sepNl, splitLinesAux_line l _ (h l (by simp)) []]
      simp only [List.reverse_nil, List.nil_append, List.cons_append, he]

theorem splitLines_single (l : List Char) (h : NoBreak l) (hne : l ≠ []) : splitLines l = [l] := by
  unfold splitLines
  rw [splitLinesAux_nobreak l h []]
  cases l with
  | nil => exact absurd rfl hne
  | cons a l' => simp

/-! ### logs made of padded trace lines and blank lines -/

inductive Piece
  | blank (pad : List Char)                  -- a whitespace-only (possibly empty) line
  | line (pad1 ts b pad2 : List Char)        -- a trace line with whitespace around it

def Piece.text : Piece → List Char
  | .blank p => p
  | .line p1 ts b p2 => p1 ++ TraceLine ts b ++ p2

def Piece.OK : Piece → Prop
  | .blank p => Pad p
  | .line p1 ts b p2 => Pad p1 ∧ Ts ts ∧ Body b ∧ Pad p2

/-- the bodies of the trace lines, in order -/
def bodies : List Piece → List (List Char)
  | [] => []
  | .blank _ :: ps => bodies ps
  | .line _ _ b _ :: ps => b :: bodies ps

/-- the log: the pieces joined by `'\n'` (an empty first / last piece is a leading / trailing `'\n'`) -/
def logOf (ps : List Piece) : List Char := sepNl (ps.map Piece.text)

theorem traceLine_nobreak (ts b : List Char) (hts : Ts ts) (hb : Body b) : NoBreak (TraceLine ts b) := by
  intro c hc
  simp only [TraceLine, List.cons_append, List.mem_cons, List.mem_append] at hc
  rcases hc with rfl | hc | rfl | rfl | hc
  · decide
  · exact inTsClass_not_break c (hts.2 c hc)
  · decide
  · decide
  · exact hb.2.1 c hc

theorem Piece.text_nobreak (p : Piece) (h : p.OK) : NoBreak p.text := by
  cases p with
  | blank pad => intro c hc; exact (h c hc).2
  | line p1 ts b p2 =>
    obtain ⟨h1, hts, hb, h2⟩ := h
    intro c hc
    simp only [Piece.text, List.mem_append] at hc
    rcases hc with (hc | hc) | hc
    · exact (h1 c hc).2
    · exact traceLine_nobreak ts b hts hb c hc
    · exact (h2 c hc).2

/-- blank lines vanish, every real line becomes its body -/
theorem clean_pieces (ps : List Piece) (h : ∀ p ∈ ps, p.OK) :
    (((ps.map Piece.text).map strip).filter (fun t => !t.isEmpty)).map itemWithoutTimestamp = bodies ps := by
  induction ps with
  | nil => rfl
  | cons p ps ih =>
    have ih' := ih (fun q hq => h q (by simp [hq]))
    have hp := h p (by simp)
    cases p with
    | blank pad =>
      have : strip pad = [] := strip_blank pad (fun c hc => (hp c hc).1)
      simp only [List.map_cons, Piece.text, this, List.filter_cons, List.isEmpty_nil, Bool.not_true,
        Bool.false_eq_true, if_false, bodies]
      exact ih'
    | line p1 ts b p2 =>
      obtain ⟨h1, hts, hb, h2⟩ := hp
      have e := strip_padded_line p1 ts b p2 h1 h2 hb
      have ne : (TraceLine ts b).isEmpty = false := by simp [TraceLine]
      simp only [List.map_cons, Piece.text, e, List.filter_cons, ne, Bool.not_false, if_true, bodies,
        item_traceLine ts b hts hb]
      rw [ih']

theorem filter_strip_tail (X tl : List (List Char)) (htl : tl = [] ∨ tl = [[]]) :
    (((X ++ tl).map strip).filter (fun t => !t.isEmpty)) = ((X.map strip).filter (fun t => !t.isEmpty)) := by
  rcases htl with rfl | rfl
  · simp
  · have : strip [] = [] := rfl
    simp [this]

/-- the cleaned lines of the log are the bodies -/
theorem clean_log (ps : List Piece) (h : ∀ p ∈ ps, p.OK) :
    ((((splitLines (logOf ps)).map strip).filter (fun t => !t.isEmpty)).map itemWithoutTimestamp) =
      bodies ps := by
  obtain ⟨tl, htl, he⟩ := splitLines_sepNl (ps.map Piece.text) (by
    intro l hl
    rw [List.mem_map] at hl
    obtain ⟨p, hp, rfl⟩ := hl
    exact p.text_nobreak (h p hp))
  rw [← clean_pieces ps h, ← he, filter_strip_tail _ _ htl]
  rfl

theorem bodies_length_le (ps : List Piece) (h : ∀ p ∈ ps, p.OK) :
    (bodies ps).length ≤ (splitLines (logOf ps)).length := by
  rw [← clean_log ps h, List.length_map]
  exact Nat.le_trans (List.length_filter_le _ _) (by rw [List.length_map]; exact Nat.le_refl _)

theorem pieces_length_le (ps : List Piece) (h : ∀ p ∈ ps, p.OK) :
    ps.length ≤ (splitLines (logOf ps)).length + 1 := by
  obtain ⟨tl, htl, he⟩ := splitLines_sepNl (ps.map Piece.text) (by
    intro l hl
    rw [List.mem_map] at hl
    obtain ⟨p, hp, rfl⟩ := hl
    exact p.text_nobreak (h p hp))
  have := congrArg List.length he
  simp only [List.length_append, List.length_map] at this
  unfold logOf
  rcases htl with rfl | rfl <;> simp at this <;> omega

theorem stripped_logOf (sw : Bool) (ps : List Piece) (h : ∀ p ∈ ps, p.OK)
    (hlen : 1 < (splitLines (logOf ps)).length) : stripped sw (logOf ps) = .many (bodies ps) := by
  unfold stripped
  simp only [gt_iff_lt, hlen, if_true]
  rw [clean_log ps h]

theorem stripped_single (p1 ts b p2 : List Char) (h1 : Pad p1) (hts : Ts ts) (hb : Body b) (h2 : Pad p2) :
    stripped true (p1 ++ TraceLine ts b ++ p2) = .one b := by
  have hnb : NoBreak (p1 ++ TraceLine ts b ++ p2) :=
    Piece.text_nobreak (.line p1 ts b p2) ⟨h1, hts, hb, h2⟩
  have hne : p1 ++ TraceLine ts b ++ p2 ≠ [] := by simp [TraceLine]
  unfold stripped
  rw [splitLines_single _ hnb hne]
  simp only [List.length_cons, List.length_nil, gt_iff_lt, Nat.lt_irrefl, if_false, if_true,
    Nat.zero_add]
  rw [strip_padded_line p1 ts b p2 h1 h2 hb, item_traceLine ts b hts hb]

/-- the text `trace()` returns: `"\n"`, then every line followed by `"\n"` -/
def canonical (ls : List (List Char × List Char)) : List Piece :=
  .blank [] :: ls.map (fun x => Piece.line [] x.1 x.2 []) ++ [.blank []]

theorem bodies_canonical (ls : List (List Char × List Char)) : bodies (canonical ls) = ls.map (·.2) := by
  unfold canonical
  simp only [List.cons_append, bodies]
  induction ls with
  | nil => rfl
  | cons x xs ih => simp only [List.map_cons, List.cons_append, bodies, ih]

end Miros.Text
