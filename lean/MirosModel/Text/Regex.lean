/-!
# Layer 5c — how `ThreadSafeAttribute.__get__` classifies the calling source line

`is_not_atomic(line)` searches the line for the pattern pinned in `Gen.notAtomicPattern`: a character
class (plus, a RANGE from plus to slash, star, at, caret, ampersand, bar, less, greater, percent)
followed by `=`, or two of slash/less/greater/star followed by `=`.
`request_for_lock(line) = '_lock' in line and re.search(r'_, _lock[ ]+=', line) is not None`

In the first character class the range from plus to slash covers `+ , - . /`.  Every match of the second
alternative contains a match of the first (its last class character followed by `=`), so the
pattern is equivalent to "some character of the class is immediately followed by `=`".

A statement grammar (`Stmt`) with a renderer gives the source lines; `gets`/`sets` count the
descriptor calls the statement makes; `leak` is the number of lock acquisitions still held when the
statement has finished (see `Conc.Tsa` for the protocol: on a line classified non-atomic every get
keeps the lock, and a set releases once without acquiring).
-/
namespace Miros.Text

def inOpClass (c : Char) : Bool :=
  (43 ≤ c.toNat && c.toNat ≤ 47) || c = '*' || c = '@' || c = '^' || c = '&' || c = '|' || c = '<' || c = '>' || c = '%'

/-- `is_not_atomic` -/
def notAtomic : List Char → Bool
  | a :: b :: rest => (inOpClass a && b = '=') || notAtomic (b :: rest)
  | _ => false

inductive BinOp | add | sub | mul | lshift
deriving DecidableEq, Repr
inductive CmpOp | lt | le | gt | ge | eq | ne
deriving DecidableEq, Repr
inductive AugOp | add | sub | mul | floordiv | lshift | pow | and_
deriving DecidableEq, Repr

/-- expressions that read the attribute (`o.x`), other variables and literals; all sub-expressions are evaluated -/
inductive Expr
  | attr                         -- o.x
  | var (n : Nat)                -- v<n>
  | num (n : Nat)
  | bin (op : BinOp) (a b : Expr)
  | cmp (op : CmpOp) (a b : Expr)
  | call (a : Expr)              -- f(a)
  | index (a : Expr)             -- d[a]
deriving DecidableEq, Repr

inductive Target | attr | var (n : Nat) | item (n : Nat)     -- o.x | v<n> | d['k<n>']
deriving DecidableEq, Repr

inductive Stmt
  | expr (e : Expr)                               -- e
  | assign (t : Target) (e : Expr)                -- t = e
  | aug (t : Target) (op : AugOp) (e : Expr)      -- t op= e
  | ifPass (e : Expr)                             -- if e: pass
  | comment (s : Stmt) (withOpEq : Bool)          -- s  # … (a trailing comment, possibly containing "+=")
deriving Repr

def binStr : BinOp → String | .add => "+" | .sub => "-" | .mul => "*" | .lshift => "<<"
def cmpStr : CmpOp → String | .lt => "<" | .le => "<=" | .gt => ">" | .ge => ">=" | .eq => "==" | .ne => "!="
def augStr : AugOp → String
  | .add => "+=" | .sub => "-=" | .mul => "*=" | .floordiv => "//=" | .lshift => "<<=" | .pow => "**=" | .and_ => "&="

def Expr.render : Expr → String
  | .attr => "o.x"
  | .var n => s!"v{n}"
  | .num n => toString n
  | .bin op a b => s!"({a.render} {binStr op} {b.render})"
  | .cmp op a b => s!"({a.render} {cmpStr op} {b.render})"
  | .call a => s!"f({a.render})"
  | .index a => s!"d[{a.render}]"

def Target.render : Target → String
  | .attr => "o.x" | .var n => s!"v{n}" | .item n => s!"d['k{n}']"

def Stmt.render : Stmt → String
  | .expr e => e.render
  | .assign t e => s!"{t.render} = {e.render}"
  | .aug t op e => s!"{t.render} {augStr op} {e.render}"
  | .ifPass e => s!"if {e.render}: pass"
  | .comment s w => s.render ++ (if w then "  # total += 1" else "  # note")

/-- number of `__get__` calls made by evaluating the expression -/
def Expr.gets : Expr → Nat
  | .attr => 1
  | .var _ => 0
  | .num _ => 0
  | .bin _ a b => a.gets + b.gets
  | .cmp _ a b => a.gets + b.gets
  | .call a => a.gets
  | .index a => a.gets

def Stmt.gets : Stmt → Nat
  | .expr e => e.gets
  | .assign _ e => e.gets
  | .aug t _ e => (if t = .attr then 1 else 0) + e.gets
  | .ifPass e => e.gets
  | .comment s _ => s.gets

def Stmt.sets : Stmt → Nat
  | .assign t _ => if t = .attr then 1 else 0
  | .aug t _ _ => if t = .attr then 1 else 0
  | .comment s _ => s.sets
  | _ => 0

/-- lock acquisitions still held by the calling thread after the statement -/
def Stmt.leak (s : Stmt) : Nat :=
  if notAtomic s.render.toList then
    s.gets - (if s.sets ≥ 1 ∧ s.gets ≥ 1 then 1 else 0)
  else 0

end Miros.Text
