/-!
# Layer 5b — `stripped()` (hsm.py 1608-1670)

```
targets = log.splitlines()
if len(targets) > 1:   [item_without_timestamp(t.strip()) for t in targets if t.strip() != ""]
else:                   item_without_timestamp(log)
item_without_timestamp(item): m = re.match(r"[ ]{0,}\[[0-9-:. ]+\] (.+)$", item); m.group(1) if m else item
```
Strings are lists of characters.  `splitLines`, `strip` follow CPython's `str.splitlines` /
`str.strip` character classes; `matchTs` is a hand-written matcher for the pinned pattern
(`Gen.stripPattern`): the pattern is deterministic — `]` and `[` are outside the character
classes, so no backtracking alternative exists.
-/
namespace Miros.Text

/-- line boundaries of `str.splitlines()` (`\r\n` is handled in `splitLines`) -/
def isLineBreak (c : Char) : Bool :=
  c = '\n' || c = '\r' || c.toNat = 0x0b || c.toNat = 0x0c || c.toNat = 0x1c || c.toNat = 0x1d ||
  c.toNat = 0x1e || c.toNat = 0x85 || c.toNat = 0x2028 || c.toNat = 0x2029

/-- `str.isspace()` characters (what `str.strip()` removes) -/
def isSpace (c : Char) : Bool :=
  let n := c.toNat
  n = 0x20 || (0x09 ≤ n && n ≤ 0x0d) || (0x1c ≤ n && n ≤ 0x1f) || n = 0x85 || n = 0xa0 || n = 0x1680 ||
  (0x2000 ≤ n && n ≤ 0x200a) || n = 0x2028 || n = 0x2029 || n = 0x202f || n = 0x205f || n = 0x3000

/-- `str.splitlines()`: no empty last line for a trailing line break -/
def splitLinesAux : List Char → List Char → Bool → List (List Char)
  | [], cur, _ => if cur.isEmpty then [] else [cur.reverse]
  | c :: rest, cur, afterCR =>
    if afterCR && c = '\n' then splitLinesAux rest cur false      -- the `\n` of a `\r\n` pair: already split
    else if c = '\r' then cur.reverse :: splitLinesAux rest [] true
    else if isLineBreak c then cur.reverse :: splitLinesAux rest [] false
    else splitLinesAux rest (c :: cur) false

def splitLines (s : List Char) : List (List Char) := splitLinesAux s [] false

def strip (s : List Char) : List Char :=
  ((s.dropWhile isSpace).reverse.dropWhile isSpace).reverse

/-- the class `[0-9-:. ]` -/
def inTsClass (c : Char) : Bool := c.isDigit || c = '-' || c = ':' || c = '.' || c = ' '

/-- `re.match(r"[ ]{0,}\[[0-9-:. ]+\] (.+)$", item)`: the captured group, if the pattern matches -/
def matchTs (item : List Char) : Option (List Char) :=
  match item.dropWhile (· = ' ') with
  | '[' :: rest =>
    let ts := rest.takeWhile inTsClass
    if ts.isEmpty then none else
    match rest.dropWhile inTsClass with
    | ']' :: ' ' :: body =>
      -- `(.+)$`: at least one character, none of them '\n', except that `$` also matches before one final '\n'
      let core := if body.getLast? = some '\n' then body.dropLast else body
      if core.isEmpty || core.contains '\n' then none else some core
    | _ => none
  | _ => none

def itemWithoutTimestamp (item : List Char) : List Char := (matchTs item).getD item

inductive Stripped
  | many (lines : List (List Char))
  | one (line : List Char)
deriving DecidableEq, Repr

/-- `stripSingle` (generated tag): the single-line branch strips the line first (repaired code) -/
def stripped (stripSingle : Bool) (log : List Char) : Stripped :=
  let targets := splitLines log
  if targets.length > 1 then
    .many ((targets.map strip).filter (fun t => !t.isEmpty) |>.map itemWithoutTimestamp)
  else .one (itemWithoutTimestamp (if stripSingle then strip log else log))

end Miros.Text
