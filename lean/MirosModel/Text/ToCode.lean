import MirosModel.Hsm.Spec
/-!
# Layer 5a — template / factory charts and the text produced by `to_code` (hsm.py 210-233, 1432-1605)

A chart built with `state_method_template` + `register_signal_callback` + `register_parent` (or
`Factory.create/catch/nest`) keeps, per state, a table *signal ↦ callback* (a Python dict, in
registration order) and a parent.  The template handler looks the signal up; no callback, or a
callback returning UNHANDLED, makes it return SUPER with the registered parent.
`to_code(state)` prints the table as an if/elif ladder: ENTRY first, INIT second, other signals in
registration order, EXIT last (stable sort by priority), missing ENTRY/INIT/EXIT filled in with
`status = HANDLED`, callbacks named `handled` inlined as HANDLED, and the `else:` branch returning
SUPER with the parent.  Executed, a ladder branch whose callback returns UNHANDLED returns
UNHANDLED (the processor then sends EMPTY_SIGNAL, which falls to the `else:` branch).
-/
namespace Miros.Text
open Miros.Hsm

/-- what a registered callback does -/
inductive Cb
  | tran (t : St)       -- `return chart.trans(t)`
  | handled             -- returns HANDLED (named `handled` or not)
  | unhandled           -- returns UNHANDLED (declines)
deriving DecidableEq, Repr

/-- signals a callback can be registered for -/
inductive RSig | entry | init | exit | user (n : Nat)
deriving DecidableEq, Repr

/-- one state's registrations, in registration order (dict insertion order; a later registration
for the same signal replaces the callback but keeps the position) -/
structure StateReg where
  name : St
  table : List (RSig × Cb × Bool)     -- signal, callback, "the callback function is named `handled`"
deriving Repr

/-- dict semantics: register `sig ↦ cb` -/
def register (tbl : List (RSig × Cb × Bool)) (sg : RSig) (cb : Cb) (namedHandled : Bool) : List (RSig × Cb × Bool) :=
  if tbl.any (fun x => x.1 = sg) then tbl.map (fun x => if x.1 = sg then (sg, cb, namedHandled) else x)
  else tbl ++ [(sg, cb, namedHandled)]

def lookup (tbl : List (RSig × Cb × Bool)) (sg : RSig) : Option Cb :=
  (tbl.find? (fun x => x.1 = sg)).map (·.2.1)

/-- a registry: the states' tables (parents are the path structure itself) -/
abbrev Reg := List StateReg

def Reg.table (r : Reg) (s : St) : List (RSig × Cb × Bool) :=
  match r.find? (fun x => x.name = s) with
  | some sr => sr.table
  | none => []

/-- the chart denoted by the template handlers -/
def tmplChart (r : Reg) (depth : Nat) : Chart where
  react := fun s n =>
    match lookup (r.table s) (.user n) with
    | some (.tran t) => .tran t
    | some .handled => .handled
    | some .unhandled => .pass        -- the template turns UNHANDLED into SUPER itself
    | none => .pass
  init := fun s =>
    match lookup (r.table s) .init with
    | some (.tran t) => some t
    | _ => none
  exitH := fun s =>
    match lookup (r.table s) .exit with
    | some .handled => true
    | _ => false                      -- no callback / UNHANDLED: SUPER
  depth := depth
  fall := fun _ => false              -- the template always ends in `else: … SUPER`

/-- one branch of the generated ladder -/
inductive Branch
  | call (sg : RSig) (cb : Cb)        -- `status = <callback>(chart, e)`
  | handledInline (sg : RSig)         -- `status = return_status.HANDLED`
deriving DecidableEq, Repr

def Branch.sig : Branch → RSig
  | .call sg _ => sg
  | .handledInline sg => sg

def priority : RSig → Nat
  | .entry => 1 | .init => 2 | .user _ => 3 | .exit => 4

/-- stable selection by priority (Python's `sorted(key=priority)` followed by the four filters) -/
def withPriority (tbl : List (RSig × Cb × Bool)) (p : Nat) : List (RSig × Cb × Bool) :=
  tbl.filter (fun x => priority x.1 = p)

def branchOf (x : RSig × Cb × Bool) : Branch :=
  if x.2.2 then .handledInline x.1 else .call x.1 x.2.1

/-- `to_code`: the ladder for one state -/
def toCode (tbl : List (RSig × Cb × Bool)) : List Branch :=
  let e := withPriority tbl 1
  let i := withPriority tbl 2
  let o := withPriority tbl 3
  let x := withPriority tbl 4
  (if e.isEmpty then [Branch.handledInline .entry] else e.map branchOf) ++
  (if i.isEmpty then [Branch.handledInline .init] else i.map branchOf) ++
  o.map branchOf ++
  (if x.isEmpty then [Branch.handledInline .exit] else x.map branchOf)

/-- what executing the ladder returns for a signal: the first branch that tests it -/
def ladderAnswer (l : List Branch) (sg : RSig) : Option Cb :=
  match l.find? (fun b => b.sig = sg) with
  | some (.call _ cb) => some cb
  | some (.handledInline _) => some .handled
  | none => none

/-- the chart denoted by the executed `to_code` text of every state -/
def flatChart (r : Reg) (depth : Nat) : Chart where
  react := fun s n =>
    match ladderAnswer (toCode (r.table s)) (.user n) with
    | some (.tran t) => .tran t
    | some .handled => .handled
    | some .unhandled => .unhandled   -- returned as is: the processor sends EMPTY_SIGNAL
    | none => .pass
  init := fun s =>
    match ladderAnswer (toCode (r.table s)) .init with
    | some (.tran t) => some t
    | _ => none
  exitH := fun s =>
    match ladderAnswer (toCode (r.table s)) .exit with
    | some .handled => true
    | _ => false
  depth := depth
  fall := fun _ => false              -- the generated ladder always ends in `else: … SUPER`

/-- two charts that differ only in *how* a state declines an event (UNHANDLED vs SUPER) and in
whether EXIT is answered HANDLED or falls through -/
def SameUpToDecline (c1 c2 : Chart) : Prop :=
  (∀ s n, c1.react s n = c2.react s n ∨
          (c1.react s n = .pass ∧ c2.react s n = .unhandled) ∨ (c1.react s n = .unhandled ∧ c2.react s n = .pass)) ∧
  (∀ s, c1.init s = c2.init s) ∧ c1.depth = c2.depth ∧
  (∀ s, c1.fall s = c2.fall s)    -- the same handlers end in `else:` (all of them, for well-formed charts)

end Miros.Text
